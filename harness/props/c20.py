"""C20 — The command-line tool drives the same requests as the API."""
import ast
import contextlib
import hashlib
import io
import json
import logging
import os
import re
import socket
import sys
import time

from ..lib import lean, repo
from ..sim import pristine
from ..sim import bmc20 as stub
from ..sim.bmc20 import Bmc20, Iface20
from ..translate import cli as tcli

ID = 'C20'
TARGETS = ['PyIpmi.Props.C20', 'drv_c20']
LEVEL = 'proof'
RULE = ('pyipmi.ipmitool.main() is run in-process (sys.argv, stdout/stderr, pyipmi.interfaces.create_interface and the '
        'COMMANDS handlers wrapped from outside) against a byte-level BMC stub: (1) every table entry x argument '
        'vectors whose numbers are written as decimal / 0x / 0X / 0o / 0b / underscore / blank-padded / signed / leading-zero '
        'literals (decimal and hex MUST be read, whatever int() the entry uses; the other forms are compared with the model '
        'of that int()), each also run as the corresponding direct API call on a fresh identical BMC (request sequences with '
        'their responder LUN and target, outcome class and exit status compared), on seven stub personalities - full (every SDR type of IPMI '
        'ch. 43, sensors with a formula linearisation and raw 0 / unused thresholds, really non-linear sensors - '
        'linearisation 70h and 7Fh, table 43-1 byte 24, with ordinary readings, followed by a linear one - sensors flagged '
        'reading/state unavailable, a channel without link, an HPM.1 upgrade agent with two components that takes a whole '
        'small image; the description string of the second component contains a backslash), minimal (C1h), plain, sdrtypes, nonlinear, '
        'unavailable, luns (full and compact sensor records on sensor owner LUN 0, 1 and 3 - table 43-1 byte 7 [1:0]; two '
        'sensors share their number on different LUNs with different readings, one number exists on LUN 3 only; Get Sensor '
        'Reading answered per (LUN, number), CBh otherwise; `sdr show` of every such record, `sdr showall`, `sdr list`; the '
        'Get Sensor Reading requests are also compared, LUN included, with the Lean model of the handlers\' '
        'get_sensor_reading calls) - and with a fault at every (sampled) request index, at the session set-up and at the session '
        'tear-down (alone and after a failed command): a completion code, IpmiTimeoutError, every other exception class of '
        'pyipmi/errors.py and socket.timeout, as the library\'s own interfaces raise them; the end of main (message, '
        'status / escaping exception) is compared with the Lean model of the except clauses and the try/finally, the Python '
        'error of a printing handler with the Lean model of the handlers (an exception class of pyipmi.errors that leaves a '
        'handler on a fault-free run while the API call completes - DecodingError of a non-linear sensor - is such an error: '
        'C20:python-error:<entry>:<Class>, whatever main() prints for it); the model of SdrFullSensorRecord.lin is compared '
        'with the library on all 256 values of the linearisation byte x the sign of x; (2) option vectors: all options in -c v / -cv / grouped-flag '
        'forms, repeated, any order, routing literals, interface options, compared field by field with the Lean model of main '
        'and with the values that were generated; (3) raw requests of arbitrary LUN / NetFn / bytes incl. out-of-range and '
        'malformed words (request seen by the BMC, stdout, exit); (4) lookup vectors (prefixes, unknown words, words containing '
        'blanks); (5) int(s,0)/int(s) of CPython vs the model on random literal-like strings; (6) -t / -b / -r combinations '
        'judged on the frame of the real rmcp interface and the command line of the real ipmitool interface (C20:option:-b), '
        'and the 27 aardvark option combinations judged on the adapter writes of the real Aardvark interface '
        '(C20:ifopt:aardvark:<option>=<value>).  A case is distinct by its argv '
        '(+ fault); it is non-trivial when the handler was reached or an option was given.  (0) HISTORIES, run first: 2-4 '
        'consecutive main() runs in one process - every option (-t -b -r -I -o -H -p -U -P -L -v -J) given in one run and absent '
        'in the next, in both orders and alternating; every session option left out next to -H; failing runs (completion '
        'code, time-out, bad option, unknown command, unknown interface) before good ones; seeded option vectors - each '
        'history executed in a pristine child process; every run judged on its own by the option oracle and by independence '
        '(session handed to the interface, launch parameters, requests and their targets, exit status, open/close calls, '
        'output must equal those of the same run alone in a new process) and compared with the Lean model of main; replay = '
        'the whole sequence.  A violation seen by a single-run stream is re-run alone in a pristine child; when it does '
        'not show there, the preceding runs it needs are searched for and put into the replay (signature C20:history:*).')
ASSUMPTIONS = [
    'getopt.getopt, int(s, 0) / int(s) and str.split are modelled in Lean (Model/Cli.lean) and tied to CPython by this run '
    '(ASCII digits; Unicode decimal digits are not modelled or generated)',
    'the -r routing literal is opaque in the Lean model (ast.literal_eval is not modelled); the harness compares the routing '
    'the tool installs with the tuples the literal was generated from',
    'request contents of the individual API operations are C07\'s subject; here the CLI is compared with the direct API call '
    'on an identical BMC (same requests, same targets), and chassis control additionally with the IPMI option codes',
    '`sdr list` prints a sensor\'s completion code in that sensor\'s row and continues: counted as "message printed", '
    'the exit status of that run is not judged',
    'between two main() runs of one process the harness resets what the tool itself keeps per process and the property does '
    'not name: the module global json_output (-J) and the log handlers main() adds (-v)',
    'a table entry must not end with a Python error on a fault-free run against any stub profile, numbers written in '
    'decimal or hex included (violation C20:python-error:*); with an injected fault a Python error that is not a class of '
    'pyipmi.errors / socket.timeout, a rejected literal of another form (octal, binary, underscores, leading zero ...) and '
    'missing arguments are observations',
    'a class of pyipmi.errors or socket.timeout that leaves main() as an exception is a violation wherever it comes from '
    '(C20:error-exit:main:unmapped-error; raised by ipmi.close(): C20:error-exit:main:close-error): the traceback Python '
    'prints for it is not counted as "a message", its exit status 1 not as the tool\'s',
    'the faults are raised by the substituted interface (the observation point the property names); that the real RMCP '
    'interface reports an unanswered request as socket.timeout / RetryError and the ipmitool back-end as '
    'IpmiConnectionError was confirmed once by hand, not on every run',
    '`hpm install` takes a time-out of Activate Firmware for "activation under way" (HPM.1: the IPM controller may '
    'restart) - not judged as a swallowed time-out; nor is a time-out of an Upload Firmware Block that the library answers by sending the identical block again (HPM.1 repetition, repair b19459e; the upload itself is judged by C18); magnitudes that overflow a float (e^x, 10^x of huge x) are not generated',
    'the translator reads the handler facts off the AST with fixed idioms (`if p is None: return`, `hasattr(s, ...)`, '
    '`if states is None`, the except classes around convert_sensor_raw_to_value); another correct idiom shows as a '
    'model/code disagreement, not as silence',
    '-b <channel> ("Set target channel", audit round 3, accepted): with -t T (default 20h) and -b B and no -r the request '
    'must reach slave address T behind the BMC over channel B.  Stream bridge: -b alone, with -t before / after, with a later '
    '-r (the explicit routing wins), -t / -r alone as controls, decimal and hex literals; the Target main() builds is handed '
    'to the REAL Rmcp interface (only the datagram write is replaced) and the frame is read by a reference parser written '
    'from the IPMB request format and Send Message (IPMI v2.0 22.7: NetFn 06h cmd 34h, data byte 1 [3:0] = channel, then '
    'the encapsulated request; both checksums verified), and main() is run unsubstituted with -I ipmitool (only the '
    'process launch is replaced): the command line must carry -t T -b B.  -r followed by -b is compared with the model '
    'only (which of the two should win is not decided by the property); in the option / history streams -b stays a tie.  '
    'Aardvark interface options (accepted in round 3): main() unsubstituted with -I aardvark over a recording fake of the '
    'pyaardvark module with a BMC on the bus - all 27 combinations of pullups / power / fastmode in {on, off, absent}: '
    'every option given must be written to the adapter once with its value (fast mode: last bit rate 400 / 100), an '
    'absent pullups / power option must not be written; the writes are also compared with the Lean model of '
    'Aardvark.open (guards read off the AST)',
    'observations of the audit that the property text does not decide (kept out of the verdict): '
    '`sdr list` (full and compact records) and the compact branch of `sdr show` / `sdr showall` call '
    'get_sensor_reading(number) and so read LUN 0 whatever sensor owner LUN the record carries: on a controller with '
    'sensors on LUN 1 / 3 they print the reading of the sensor with that number on LUN 0, or a completion code CBh (stub '
    'profile luns, Props theorem sdr_list_and_compact_read_lun0).  The API twin of these four reads is '
    'get_sensor_reading(number) as well, so the check is silent about it on the pinned tree; the twin of the FULL branch '
    'of `sdr show` / `sdr showall` is get_sensor_reading(number, owner_lun).  The responder LUN of every request is part '
    'of the comparison, and Props.C20.sensor_reads_today pins the LUN argument of all six calls, so any change of which '
    'LUN is read - in either direction - is reported (signature C20:requests:<entry>:lun).  -L accepts user / operator / administrator only '
    '(callback / oem -> KeyError: not generated)',
    'the as-shipped counter-example theorems are about a frozen copy of the pinned table (Lemmas/CliAsShipped.lean); '
    'nonlinear_afterRound1_counterexample about a frozen copy of the handler facts generated from commit 9e975ea',
    'a non-linear sensor (linearisation 70h..7Fh) has no formula: what the tool must do for it is "not end the listing" '
    '(na for reading and thresholds is accepted; fetching Get Sensor Reading Factors is not demanded - the library '
    'has no such call); reserved linearisation codes 0Ch..6Fh are not put into the stub (not conforming), the handler '
    'theorem and the lin tie cover them all the same',
    'second audit round, judged outside the property (DESIGN 9.9): (a) `hpm install` sends the image\'s inaccessibility '
    'time-out as the rollback-override byte of Activate Firmware and waits 1 s (Hpm.activation_stage passes positional '
    'arguments in the wrong places): the tool sends exactly what the API call install_component_from_file sends - which '
    'is what this property compares - and no property covers the activation stage; the stub accepts any override byte; '
    '(b) `picmg channel status` without its argument ends with IndexError: missing arguments are observations '
    '(obs:no-args:*); (c) `-o cipher=0x11` (ipmitool back-end) ends with ValueError: the VALUES of interface options are '
    'strings handed to the interface\'s constructor, not "numeric arguments" of a command - the check compares the '
    'parsed option dictionary with the given strings only',
    '`hpm capabilities` on a component description with a backslash is reported here (C20:python-error:hpm '
    'capabilities:UnicodeDecodeError) but is a defect of pyipmi/hpm.py that C07 owns (fix C07-11)',
    '`raw`: a completion code in the reply is printed as data (it is the first reply byte) and the tool returns 0 - the '
    'check sides with the clause "prints exactly the reply bytes in hex" against the clause "BMC error codes ... end the '
    'tool with a message and a non-zero exit status" (the expected output of a faulted `raw` run is the stub\'s reply, '
    'exit \'return\'); for every other entry an error completion code must end in a message and a non-zero status',
]
TRUSTED = ['harness/translate/cli.py', 'harness/sim/bmc20.py', 'harness/props/c20.py',
           'harness/sim/pristine.py (fork server: histories run in a process that has not run main() yet)']

_snap = None


def translate(ctx):
    global _snap
    _snap = tcli.generate()


# ----------------------------------------------------------------------------- protocol helpers
def enc(s):
    return ','.join(str(ord(c)) for c in s) if s else '-'


def dec(t):
    return '' if t == '-' else ''.join(chr(int(x)) for x in t.split(','))


def encs(argv):
    return ' '.join(enc(a) for a in argv)


def show_val(v):
    if v is None:
        return 'N'
    if isinstance(v, bool):
        return 'B1' if v else 'B0'
    if isinstance(v, int):
        return 'I%d' % v
    return 'S' + enc(v)


# ----------------------------------------------------------------------------- running the tool
class Obs(object):
    """what one run of main() did"""

    def __init__(self):
        self.exit = None            # ('return',) | ('exit', n) | ('raise', Name, text)
        self.stdout = ''
        self.launch = None          # dict: entry, args, iface, opts, target, routing, session
        self.iface = None
        self.created = None
        self.bmc = None
        self.py_error = False       # ended with an exception that is not one of pyipmi.errors (nor SystemExit)
        self.failure = None         # ended with a failure class (pyipmi.errors.* / socket.timeout): classify() of it
        self.handler_exc = None     # the exception that left the table entry's handler: (Class, text, classify() kind)

    @property
    def requests(self):
        return list(self.bmc.requests) if self.bmc else []

    @property
    def targets(self):
        return list(self.iface.targets) if self.iface else []


def _library_errors():
    import pyipmi.errors as E
    return tuple(c for c in vars(E).values() if isinstance(c, type) and issubclass(c, BaseException))


def classify(e):
    """an exception -> ('cc', code) | ('timeout',) | ('liberr', Class, repr, str) | ('raise', Class, text).
    'liberr': any other class of pyipmi.errors, or the transport's time-out (socket.timeout)"""
    from pyipmi.errors import CompletionCodeError, IpmiTimeoutError
    if isinstance(e, CompletionCodeError):
        return ('cc', e.cc)
    if isinstance(e, IpmiTimeoutError):
        return ('timeout',)
    if isinstance(e, socket.timeout):
        return ('liberr', 'socket.timeout', repr(e), str(e))
    if isinstance(e, _library_errors()):
        return ('liberr', type(e).__name__, repr(e), str(e))
    return ('raise', type(e).__name__, str(e)[:200])


def _known_ifaces():
    import pyipmi.interfaces
    return [i.NAME for i in pyipmi.interfaces.INTERFACES]


@contextlib.contextmanager
def _quiet():
    lg = logging.getLogger('pyipmi')
    before = list(lg.handlers)
    level = lg.level
    real_sleep = time.sleep
    time.sleep = lambda s: None
    argv = sys.argv
    out, err = io.StringIO(), io.StringIO()
    try:
        with contextlib.redirect_stdout(out), contextlib.redirect_stderr(err):
            yield out
    finally:
        time.sleep = real_sleep
        sys.argv = argv
        for h in list(lg.handlers):
            if h not in before:
                lg.removeHandler(h)
        lg.setLevel(level)


_RUNLOG = []        # every main() run of this process, in order (what a later run may depend on)


def run_cli(argv, profile='full', faults=None):
    """pyipmi.ipmitool.main() with sys.argv = ['ipmitool.py'] + argv against a fresh Bmc20."""
    import pyipmi
    import pyipmi.interfaces
    import pyipmi.ipmitool as T
    _RUNLOG.append({'argv': list(argv), 'profile': profile,
                    'faults': sorted((k, list(v)) for k, v in (faults or {}).items())})
    o = Obs()
    o.bmc = Bmc20(profile, faults)
    known = _known_ifaces()

    def create_interface(name, *a, **k):
        o.created = (name, dict(k))
        if name not in known:
            raise RuntimeError('unknown interface with name %s' % name)
        o.iface = Iface20(o.bmc, name, k)
        return o.iface

    def wrap(i, fn):
        def handler(ipmi, args):
            t = ipmi.target
            s = ipmi.session
            o.launch = {
                'entry': i, 'args': list(args), 'iface': o.created[0], 'opts': list(o.created[1].items()),
                'target': t.ipmb_address,
                'routing': None if t.routing is None else [(r.rq_sa, r.rs_sa, r.channel) for r in t.routing],
                'session': None if s.rmcp_host is None else
                (s.rmcp_host, s.rmcp_port, s.auth_username, s.auth_password, s.priv_level),
            }
            try:
                return fn(ipmi, args)
            except Exception as e:  # noqa - observed, not handled: main() sees it as it would without the wrapper
                o.handler_exc = (type(e).__name__, str(e)[:200], classify(e)[0])
                raise
        return handler

    real_ci = pyipmi.interfaces.create_interface
    real_cmds = T.COMMANDS
    real_json = T.json_output
    pyipmi.interfaces.create_interface = create_interface
    T.COMMANDS = tuple(T.Command(c.name, wrap(i, c.fn)) for i, c in enumerate(real_cmds))
    T.json_output = False
    try:
        with _quiet() as out:
            sys.argv = ['ipmitool.py'] + list(argv)
            try:
                T.main()
                o.exit = ('return',)
            except SystemExit as e:
                code = e.code
                o.exit = ('exit', 0 if code is None else code)
            except BaseException as e:  # noqa
                o.exit = ('raise', type(e).__name__, str(e)[:200])
                o.py_error = not isinstance(e, _library_errors())
                c = classify(e)
                o.failure = c if c[0] != 'raise' else None
            o.stdout = out.getvalue()
    finally:
        pyipmi.interfaces.create_interface = real_ci
        T.COMMANDS = real_cmds
        T.json_output = real_json
    return o


def run_api(fn, target=0x20, routing=None, profile='full', faults=None):
    """the direct API call on a fresh identical BMC -> (outcome, requests, targets); a fault of the session
    tear-down (index -2) is returned as outcome of an otherwise successful call: ('close',) + its class"""
    import pyipmi
    bmc = Bmc20(profile, faults)
    iface = Iface20(bmc, 'api')
    with _quiet():
        ipmi = pyipmi.create_connection(iface)
        ipmi.target = pyipmi.Target(target)
        if routing is not None:
            ipmi.target.set_routing(routing)
        try:
            ipmi.open()
            fn(ipmi)
            out = ('ok',)
        except BaseException as e:  # noqa
            out = classify(e)
        finally:
            try:
                ipmi.close()
            except Exception as e:  # noqa
                out = ('close', out, classify(e))
    return out, list(bmc.requests), list(iface.targets)


# ------------------------------------------------------------------------------------ literals
def lit(n, kind):
    """a Python integer literal for n (n >= 0) -> (text, valid for int(s,0), valid for int(s))"""
    if kind == 'dec':
        return str(n), True, True
    if kind == 'hex':
        return '0x%x' % n, True, False
    if kind == 'HEX':
        return '0X%X' % n, True, False
    if kind == 'oct':
        return '0o%o' % n, True, False
    if kind == 'bin':
        return '0b' + bin(n)[2:], True, False
    if kind == 'us':
        s = str(n)
        return ('_'.join(s) if len(s) > 1 else s), True, True
    if kind == 'hexus':
        return '0x_' + '_'.join('%x' % n), True, False
    if kind == 'ws':
        return ' %d\t' % n, True, True
    if kind == 'plus':
        return '+%d' % n, True, True
    if kind == 'lead0':
        return '0%d' % n, n == 0, True
    raise ValueError(kind)


KINDS0 = ['dec', 'hex', 'HEX', 'oct', 'bin', 'us', 'hexus', 'ws', 'plus']
KINDS10 = ['dec', 'us', 'ws', 'plus', 'lead0']
KINDS_BOTH = ['dec', 'us', 'ws', 'plus']
KINDS_ARG = KINDS0 + ['lead0']          # what a numeric handler argument is written as
PROPERTY_LITERAL = re.compile(r'^(0|[1-9][0-9]*|0[xX][0-9a-fA-F]+)$')     # "numeric arguments in decimal/hex"
BAD_LITS = ['', 'abc', '0x', '1__0', '12a', '0b2', '_1', '1_', '0o8', '- 1', '1 2', '0x1g']


# ----------------------------------------------------------------------- entries: args and API
def _chassis_method(word):
    return {'off': 'chassis_control_power_down', 'on': 'chassis_control_power_up',
            'cycle': 'chassis_control_power_cycle', 'reset': 'chassis_control_hard_reset',
            'diag': 'chassis_control_diagnostic_interrupt', 'soft': 'chassis_control_soft_shutdown'}[word]


def _portstate_all(ipmi):
    from pyipmi.errors import CompletionCodeError
    for interface in range(3):
        for channel in range(16):
            try:
                ipmi.get_port_state(channel, interface)
            except CompletionCodeError as e:
                if e.cc != 0xcc:
                    raise


def _sdr_reading(ipmi, s, with_lun):
    import pyipmi.sdr
    if s.type is pyipmi.sdr.SDR_TYPE_FULL_SENSOR_RECORD:
        if with_lun:
            ipmi.get_sensor_reading(s.number, s.owner_lun)
        else:
            ipmi.get_sensor_reading(s.number)
    elif s.type is pyipmi.sdr.SDR_TYPE_COMPACT_SENSOR_RECORD:
        ipmi.get_sensor_reading(s.number)


def _sdr_list(ipmi):
    from pyipmi.errors import CompletionCodeError
    d = ipmi.get_device_id()
    it = None
    if d.supports_function('sdr_repository'):
        it = ipmi.sdr_repository_entries
    elif d.supports_function('sensor'):
        it = ipmi.device_sdr_entries
    if it is None:
        return          # the device has neither an SDR repository nor sensors: nothing to list
    for s in it():
        try:
            _sdr_reading(ipmi, s, False)
        except CompletionCodeError:
            pass        # the listing shows the code in that sensor's row (documented exemption, see ASSUMPTIONS)


def _sdr_show(ipmi, rid):
    s = ipmi.get_device_sdr(rid)
    _sdr_reading(ipmi, s, True)


def _sdr_showall(ipmi):
    for s in ipmi.device_sdr_entries():
        _sdr_reading(ipmi, s, True)


def _hpm_caps(ipmi):
    cap = ipmi.get_target_upgrade_capabilities()
    for c in cap.components:
        ipmi.get_component_properties(c)


def _hpm_file():
    p = repo.src('tests/hpm_bin/firmware.hpm')
    return p if os.path.exists(p) else None


def _le(v, n):
    return bytes((v >> (8 * i)) & 0xff for i in range(n))


def _zero_sum(bs):
    return (256 - sum(bs) % 256) % 256


def hpm_image_bytes():
    """A small HPM.1 upgrade image (HPM.1 R1.0 ch. 4: image header, upgrade action records, MD5) for the stub
    BMC: its device / manufacturer / product id, component 0, a prepare action and one upload action of 50
    bytes (three firmware blocks)."""
    hdr = (b'PICMGFWU' + bytes([0x00, 0x20]) + _le(0x003aa2, 3) + _le(0x1234, 2) + _le(0x5f000000, 4) +
           bytes([0x00, 0x01, 0x00, 0x00, 0x00]) + bytes([0x01, 0x00]) + bytes([0x01, 0x10, 0, 0, 0, 0]) + _le(0, 2))
    hdr += bytes([_zero_sum(hdr)])
    prep = bytes([0x01, 0x01])
    prep += bytes([_zero_sum(prep)])
    fw = bytes((7 * i + 3) & 0xff for i in range(50))
    up = bytes([0x02, 0x01])
    up += bytes([_zero_sum(up)])
    up += bytes([0x01, 0x10, 0, 0, 0, 0]) + b'APP20'.ljust(21, b'\x00') + _le(len(fw), 4) + fw
    body = hdr + prep + up
    return body + hashlib.md5(body).digest()


def _hpm_small():
    """path of the small image (written on demand; the replay writes it again)"""
    d = os.path.join(repo.VERIF, '.work', 'c20')
    p = os.path.join(d, 'small.hpm')
    data = hpm_image_bytes()
    try:
        with open(p, 'rb') as f:
            if f.read() == data:
                return p
    except OSError:
        pass
    os.makedirs(d, exist_ok=True)
    with open(p + '.%d' % os.getpid(), 'wb') as f:
        f.write(data)
    os.replace(p + '.%d' % os.getpid(), p)
    return p


# name -> (list of arg shapes, api(nums) -> fn(ipmi)); a shape is a list of ('n', value) | ('w', word) |
# ('f', value: a float argument, always written in decimal).  Every number is written as ANY literal; which of
# them the entry accepts is the model's prediction (int(s) / int(s, 0) read off the handler), and the property
# demands decimal and hex.
def entry_specs():
    f = _hpm_file()
    small = _hpm_small()
    specs = {
        'bmc info': ([[]], lambda v: lambda i: i.get_device_id()),
        'bmc reset cold': ([[]], lambda v: lambda i: i.cold_reset()),
        'bmc reset warm': ([[]], lambda v: lambda i: i.warm_reset()),
        'sel list': ([[]], lambda v: lambda i: list(i.sel_entries())),
        'sel clear': ([[]], lambda v: lambda i: i.clear_sel()),
        'sensor rearm': ([[('n', 0x30)], [('n', 0x31)], [('n', 7)]], lambda v: lambda i: i.rearm_sensor_events(v[0])),
        'sdr list': ([[]], lambda v: _sdr_list),
        'sdr raw': ([[('n', 1)], [('n', 2)], [('n', 77)], [('n', 5)], [('n', 0x20)]], lambda v: lambda i: i.get_device_sdr(v[0])),
        'sdr show': ([[('n', x)] for x in (1, 2, 77, 3, 4, 6, 9, 11, 12, 0x20, 0x21, 0x22, 0x23, 0x25, 0x27, 0x28, 0x29,
                                           0x30, 0x31, 0x40, 0x41, 0x42, 0x43, 0x44, 0x45)],
                     lambda v: lambda i: _sdr_show(i, v[0])),
        'sdr showall': ([[]], lambda v: _sdr_showall),
        'fru print': ([[], [('n', 0)], [('n', 0), ('w', 'all')], [('n', 1)]],
                      lambda v: lambda i: i.get_fru_inventory(v[0] if v else 0)),
        'picmg frucontrol cr': ([[]], lambda v: lambda i: i.fru_control_cold_reset(0)),
        'picmg power get': ([[]], lambda v: lambda i: i.get_power_level(0, 0)),
        'picmg portstate get': ([[('n', 1), ('n', 0)], [('n', 2), ('n', 0)], [('n', 5), ('n', 1)], [('n', 3), ('n', 0)]],
                                lambda v: lambda i: i.get_port_state(v[0], v[1])),
        'picmg portstate getall': ([[]], lambda v: _portstate_all),
        'picmg channel status': ([[('n', 1)], [('n', 3)]], lambda v: lambda i: i.get_power_channel_status(v[0])),
        'picmg send heartbeat': ([[]], lambda v: lambda i: i.send_pm_heartbeat()),
        'picmg channel power': ([[('n', 2)], [('n', 2), ('n', 1), ('f', 3)]], None),
        'hpm capabilities': ([[]], lambda v: _hpm_caps),
        'chassis status': ([[]], lambda v: lambda i: i.get_chassis_status()),
    }
    specs['hpm check'] = ([[('w', small)]] + ([[('w', f)]] if f else []),
                          lambda v: lambda i: i.open_upgrade_image(small))
    specs['hpm install'] = ([[('w', small), ('n', 0)], [('w', small), ('n', 1)]],
                            lambda v: lambda i: i.install_component_from_file(small, v[0]))
    for w in ('off', 'on', 'cycle', 'reset', 'diag', 'soft'):
        specs['chassis power ' + w] = ([[]], (lambda m: lambda v: lambda i: getattr(i, m)())(_chassis_method(w)))
    return specs


def render_shape(shape, rng, force_kind=None):
    """-> (words, values of the numeric words)"""
    words, vals = [], []
    for kind, v in shape:
        if kind == 'w':
            words.append(v)
        elif kind == 'f':
            words.append(str(v))
        else:
            text, _, _ = lit(v, force_kind or rng.choice(KINDS_ARG))
            words.append(text)
            vals.append(v)
    return words, vals


_ARGCONVS = {}


def arg_convs(ctx, idx):
    """driver: the int() conversions of entry idx -> {argument index: base (0 | 10)}"""
    if idx not in _ARGCONVS:
        r = ctx.driver('drv_c20').ask('argconvs %d' % idx)
        _ARGCONVS[idx] = {} if r == '-' else dict((int(a), int(b)) for a, b in (t.split(':') for t in r.split(' ')))
    return _ARGCONVS[idx]


def literal_verdict(ctx, idx, words):
    """(model: every int() of the entry accepts its word, rejected words that the property says are numbers)"""
    drv = ctx.driver('drv_c20')
    model_ok, demanded = True, []
    for k, base in sorted(arg_convs(ctx, idx).items()):
        if k >= len(words):
            continue
        if drv.ask('int%d %s' % (base, enc(words[k]))) == 'ValueError':
            model_ok = False
            if PROPERTY_LITERAL.match(words[k]):
                demanded.append(words[k])
    return model_ok, demanded


# ------------------------------------------------------------------------------------- judging
PY_ERR_OF_RESOLUTION = ('AttributeError', 'TypeError')
HARD_CC = (0xc1, 0xd5, 0xff)     # never retried / tolerated by a protocol loop


def _exit_class(o):
    return o.exit[0] if o.exit[0] != 'exit' else 'exit%d' % o.exit[1]


FAILURE_KINDS = ('cc', 'timeout', 'liberr')
# every class of pyipmi/errors.py except the two main() was written for, and the transport's time-out
EXC_FAULTS = ['RetryError', 'socket.timeout', 'HpmError', 'IpmiConnectionError', 'IpmiLongPasswordError', 'DecodingError',
              'EncodingError', 'NotSupportedError', 'DescriptionError', 'DataNotFound']


def exc_token(c):
    """classify() result (or None / ('ok',)) -> the driver's <exc> word"""
    if c is None or c[0] == 'ok':
        return '-'
    if c[0] == 'cc':
        return 'cc:%d' % c[1]
    if c[0] == 'timeout':
        return 'lib:IpmiTimeoutError:%s:%s' % (enc('IpmiTimeoutError()'), enc(''))
    if c[0] == 'liberr':
        if c[1] == 'socket.timeout':
            return 'sock:%s:%s' % (enc(c[2]), enc(c[3]))
        return 'lib:%s:%s:%s' % (c[1], enc(c[2]), enc(c[3]))
    if c[1] == 'KeyboardInterrupt':
        return 'kbd'
    return 'py:%s' % c[1]


def model_end(ctx, body, close=None):
    """driver: how main ends when ipmi.open()/the handler raised `body` and ipmi.close() raised `close`
    -> ('returns',) | ('exits', status, message) | ('raises', Name, printed message | None)"""
    r = ctx.driver('drv_c20').ask('mainend %s %s' % (exc_token(body), exc_token(close)))
    t = r.split(' ')
    if t[0] == 'returns':
        return ('returns',)
    if t[0] == 'exits':
        return ('exits', int(t[1]), dec(t[2]))
    if t[0] == 'raises':
        return ('raises', t[1], None if t[2] == '~' else dec(t[2]))
    raise lean.LeanError('drv_c20', 'mainend: ' + r)


def observed_end(o, like):
    """the run's end in the vocabulary of model_end (the message is compared only where the model names one)"""
    last = o.stdout.rstrip('\n').split('\n')[-1] if o.stdout else ''
    if o.exit[0] == 'return':
        return ('returns',)
    if o.exit[0] == 'exit':
        return ('exits', o.exit[1], last if (like[0] == 'exits' and like[2]) else (like[2] if like[0] == 'exits' else ''))
    return ('raises', o.exit[1], last if (like[0] == 'raises' and like[2] is not None) else
            (like[2] if like[0] == 'raises' else None))


def _by_design(name, request, fault, following=None):
    """HPM.1: the IPM controller may restart while it activates the new firmware, so `hpm install` takes a
    time-out of Activate Firmware for "activation under way" (documented exemption, see ASSUMPTIONS)"""
    if name == 'hpm install' and fault[0] == 'timeout' and request[1] == 0x2c and request[2].startswith('35'):
        return True
    # HPM.1: an Upload Firmware Block that got no answer is repeated with the same block number (repair b19459e,
    # C18 judges the upload itself): the time-out is answered by the identical request, nothing is swallowed
    return (name == 'hpm install' and fault[0] == 'timeout' and request[1] == 0x2c and request[2].startswith('32')
            and following is not None and following == request)


def _last_line(o):
    return o.stdout.rstrip('\n').split('\n')[-1] if o.stdout else ''


def judge_entry_run(ctx, name, idx, argv, api_fn, profile, faults, unresolved_names, kind):
    """One run of a table entry: tie (model of main, of the handler's int() conversions and of the end of
    main) and property (no Python error, same requests as the API, failures end the tool with a message and a
    non-zero status).  Returns the Obs."""
    drv = ctx.driver('drv_c20')
    case = {'kind': kind, 'argv': argv, 'profile': profile, 'faults': sorted((k, list(v)) for k, v in (faults or {}).items()),
            'entry': name}
    o = run_cli(argv, profile, faults)
    ctx.case((tuple(argv), profile, tuple(case['faults'])), nontrivial=o.launch is not None)
    ctx.count('entry:%s' % name)
    ctx.count('exit:%s' % _exit_class(o))
    # ---- tie: main up to the launch
    m = drv.ask('main ' + encs(argv))
    if not m.startswith('launch %d ' % idx):
        ctx.disagree('main/launch', case, m, json.dumps(o.launch))
        return o
    open_fault = -1 in (faults or {})       # the session set-up fails: the handler is never started
    if (o.launch is None and not open_fault) or (o.launch is not None and o.launch['entry'] != idx):
        # the property: the entry's own words reach the entry
        ctx.violate('C20:lookup:%s' % name, 'the words of entry %r do not reach its handler' % name, case,
                    expected='handler %d' % idx, observed=json.dumps(o.launch) if o.launch else str(o.exit))
        return o
    # ---- numeric arguments: the model says which literals the entry's int() conversions accept; the property
    #      says decimal and hex are numbers
    if name in unresolved_names or o.launch is None:
        model_ok, demanded = True, []
    else:
        model_ok, demanded = literal_verdict(ctx, idx, o.launch['args'])
    if not model_ok:
        raised = o.exit[0] == 'raise' and o.exit[1] == 'ValueError'
        if o.requests or not (raised or o.exit == ('return',)):
            # (`sdr raw` / `sdr show` catch the ValueError themselves and print an empty line)
            ctx.disagree('literal', case, 'ValueError before any request', str((o.exit, o.requests[:3])))
        elif demanded and raised:
            ctx.violate('C20:python-error:%s:ValueError' % name,
                        'entry %r rejects the numeric argument(s) %r - a number written in decimal / hex - with a '
                        'Python error (%s)' % (name, demanded, o.exit[2]), case,
                        expected='the argument is read as the number it denotes (as the entries using int(x, 0) do)',
                        observed={'exit': o.exit, 'requests': o.requests[:3]})
        else:
            ctx.count('obs:literal-rejected:%s:%s' % (name, o.exit[1] if o.exit[0] == 'raise' else _exit_class(o)))
        return o
    # ---- property clause 1: against a conforming BMC (no injected fault) the entry completes without a Python error
    if not faults and o.exit[0] == 'raise' and o.py_error and \
            not (name in unresolved_names and o.exit[1] in PY_ERR_OF_RESOLUTION):
        ctx.violate('C20:python-error:%s:%s' % (name, o.exit[1]),
                    'entry %r ends with a Python error (%s: %s) against a conforming BMC (%s profile, no fault injected) '
                    'after %d request(s)' % (name, o.exit[1], o.exit[2], profile, len(o.requests)), case,
                    expected='completes (or ends with a message and a non-zero exit status)',
                    observed={'exit': o.exit, 'requests': o.requests[:6], 'stdout_tail': o.stdout[-120:]})
        return o
    if api_fn is None:
        if o.failure is not None:
            _report_escape(ctx, name, case, o, None, None)
        return o
    target = o.launch['target'] if o.launch is not None else 0x20
    a_out, a_reqs, a_tgts = run_api(api_fn, target if target is not None else 0x20, None, profile, faults)
    a_close = None
    if a_out[0] == 'close':
        a_out, a_close = a_out[1], a_out[2]
    # ---- unresolved table entries (property clause 1)
    if o.exit[0] == 'raise' and o.exit[1] in PY_ERR_OF_RESOLUTION and name in unresolved_names:
        return o        # reported by _table_facts with its own signature
    # ---- property: same requests as the API call, each addressed to the same target
    went_on = (a_out[0] in ('cc', 'timeout') and len(o.requests) > len(a_reqs) and o.requests[:len(a_reqs)] == a_reqs
               and not (o.exit[0] == 'exit' and o.exit[1] != 0))
    if went_on:
        # the API call stops at the BMC's error; the tool swallowed it and carried on
        ctx.violate('C20:error-exit:%s' % name,
                    '%r: BMC error %s at request %d is swallowed: the tool carries on and ends with %s' % (
                        name, a_out, len(a_reqs) - 1, o.exit), case,
                    expected='non-zero exit status and a message', observed={'exit': o.exit, 'stdout_tail': o.stdout[-120:]})
        return o
    # ---- property clause 1 again: ended by an exception although nothing failed at the BMC
    if not faults and a_out[0] == 'ok' and a_close is None and o.handler_exc is not None \
            and o.handler_exc[2] in ('liberr', 'raise') and o.exit[0] in ('exit', 'raise'):
        # no fault injected, the corresponding API call completes on an identical BMC (no error code, no time-out
        # anywhere) - and the table entry is ended by an exception raised on the way to the screen.  That main()
        # turns a class of pyipmi.errors into "Command failed" and status 1 does not make the entry "complete":
        # nothing failed at the BMC, and the requests that were still to come are never sent.
        ctx.violate('C20:python-error:%s:%s' % (name, o.handler_exc[0]),
                    'entry %r is ended by %s (%s) against a conforming BMC (%s profile, no fault injected, every '
                    'request of the corresponding API call answered) after %d of %d request(s); the tool ends with '
                    '%s, last line %r' % (name, o.handler_exc[0], o.handler_exc[1], profile, len(o.requests),
                                          len(a_reqs), o.exit, _last_line(o)[:100]), case,
                    expected='completes: exit status 0, the %d requests of the API call' % len(a_reqs),
                    observed={'exit': o.exit, 'handler_exception': list(o.handler_exc[:2]),
                              'requests_sent': len(o.requests), 'stdout_tail': o.stdout[-160:]})
        return o
    if o.requests != a_reqs or [t for t in o.targets] != [t for t in a_tgts]:
        sig, what = 'C20:requests:%s' % name, '%r issues other requests than the corresponding API call' % name
        k = ([i for i, (x, y) in enumerate(zip(o.requests, a_reqs)) if x != y] or [None])[0]
        if k is not None and o.requests[k][1:] == a_reqs[k][1:]:
            # same NetFn, command and data: the request goes to another responder LUN (another sensor / device)
            sig += ':lun'
            what = '%r sends request %d (NetFn %02xh, bytes %s) to LUN %s, the corresponding API call sends it to ' \
                   'LUN %s' % (name, k, a_reqs[k][1], a_reqs[k][2], o.requests[k][0], a_reqs[k][0])
        ctx.violate(sig, what, case,
                    expected={'requests': a_reqs[:12], 'targets': a_tgts[:3]},
                    observed={'requests': o.requests[:12], 'targets': o.targets[:3], 'exit': o.exit})
        return o
    # ---- outcome
    fault_hit = [k for k in (faults or {}) if 0 <= k < len(o.requests)]
    failed = a_out[0] in FAILURE_KINDS or (a_close is not None and a_close[0] in FAILURE_KINDS)
    if failed:
        last = _last_line(o)
        if not (o.exit[0] == 'exit' and o.exit[1] != 0 and last):
            # property, judged without the model
            _report_escape(ctx, name, case, o, a_out, a_close)
        # model of the except clauses and of the try / finally vs code
        want = model_end(ctx, a_out if a_out[0] in FAILURE_KINDS else None, a_close)
        got = observed_end(o, want)
        if want != got:
            ctx.disagree('exit', case, repr(want), repr(got))
        ctx.count('outcome:%s%s' % (a_out[0], ':close' if a_close is not None else ''))
    elif a_out[0] == 'ok':
        hard = [k for k in fault_hit if (faults[k][0] != 'cc' or faults[k][1] in HARD_CC)
                and not _by_design(name, o.requests[k], faults[k],
                                 o.requests[k + 1] if k + 1 < len(o.requests) else None)]
        inline = name == 'sdr list' and any('ERR: CC=0x%02x' % faults[k][1] in o.stdout for k in hard if faults[k][0] == 'cc')
        if hard and not inline:
            # the library call itself swallowed a BMC error: the tool ends with status 0 and no message
            ctx.violate('C20:error-exit:%s' % name,
                        '%r: BMC error %s at request %d is swallowed: the tool ends with %s' % (
                            name, faults[hard[0]], hard[0], o.exit), case,
                        expected='non-zero exit status and a message', observed={'exit': o.exit, 'stdout_tail': o.stdout[-120:]})
        elif o.exit[0] != 'return':
            if o.exit[0] == 'raise':
                ctx.count('obs:py-error:%s:%s' % (name, o.exit[1]))
            else:
                ctx.disagree('exit', case, 'return', str(o.exit))
        ctx.count('outcome:ok' + (':inline' if inline else ''))
    else:
        # the API call itself raised a Python error: observation (C07/C08 territory), the tool must show the same
        ctx.count('obs:py-error:%s:%s' % (name, a_out[1]))
        if not (o.exit[0] == 'raise' and o.exit[1] == a_out[1]):
            ctx.disagree('exit', case, 'raise %s' % a_out[1], str(o.exit))
    return o


def _report_escape(ctx, name, case, o, a_out, a_close):
    """a failure (BMC error code / time-out / any class of pyipmi.errors) did not end the tool with a message
    and a non-zero status"""
    last = _last_line(o)
    obs = {'exit': o.exit, 'last_line': last}
    if a_close is not None and o.exit[0] == 'raise':
        ctx.violate('C20:error-exit:main:close-error',
                    '%r: ipmi.close() failed (%s) - %s: main() ends with the exception %s%s' % (
                        name, a_close[1] if a_close[0] == 'liberr' else a_close[0],
                        'after the command itself had failed with %s' % (a_out[:2],) if a_out and a_out[0] in FAILURE_KINDS
                        else 'the command itself had succeeded', o.exit[1],
                        ' (after printing %r: the reported failure is replaced)' % last if last and a_out
                        and a_out[0] in FAILURE_KINDS else ''), case,
                    expected='non-zero exit status and a message', observed=obs)
    elif (a_out is None or a_out[0] == 'liberr') and o.exit[0] == 'raise':
        ctx.violate('C20:error-exit:main:unmapped-error',
                    '%r: %s (%s) leaves main() as an exception: no message, no exit status of the tool\'s own' % (
                        name, o.exit[1], o.exit[2][:80]), case,
                    expected='non-zero exit status and a message', observed=obs)
    else:
        ctx.violate('C20:error-exit:%s' % name,
                    '%r: the BMC answered %s but the tool ended with %s and message %r' % (
                        name, a_out, o.exit, last), case,
                    expected='non-zero exit status and a message', observed=obs)


# --------------------------------------------------------------------------------- table facts
def live_table():
    import pyipmi.ipmitool as T
    return [c.name for c in T.COMMANDS]


def python_unresolved(snap):
    """Independent of the Lean model: attribute lookup on the class + Signature.bind."""
    import inspect
    import pyipmi
    out = []
    for i, c in enumerate(snap['commands']):
        for j, (m, called, npos, kws) in enumerate(c['refs']):
            if not hasattr(pyipmi.Ipmi, m):
                out.append((i, j, c['name'], m, 'AttributeError'))
                continue
            if not called:
                continue
            obj = getattr(pyipmi.Ipmi, m)
            static = inspect.getattr_static(pyipmi.Ipmi, m)
            if not callable(obj) or isinstance(static, property):
                out.append((i, j, c['name'], m, 'TypeError'))
                continue
            sig = inspect.signature(obj)
            args = [None] * (npos + (1 if inspect.isfunction(static) else 0))
            try:
                sig.bind(*args, **dict((k, None) for k in kws))
            except TypeError:
                out.append((i, j, c['name'], m, 'TypeError'))
    return out


def _witness_args(name):
    specs = entry_specs()
    if name in specs and specs[name][0]:
        words = []
        for kind, v in specs[name][0][0]:
            words.append(v if kind == 'w' else str(v))
        return words
    return []


def _table_facts(ctx, snap):
    drv = ctx.driver('drv_c20')
    names = [c['name'] for c in snap['commands']]
    if names != live_table():
        ctx.disagree('table', {}, str(names), str(live_table()))
    if int(drv.ask('count')) != len(names):
        ctx.disagree('table-size', {}, drv.ask('count'), str(len(names)))
    st = drv.ask('selftest')
    if st != 'ok':
        ctx.disagree('selftest', {}, st, 'ok')
    py_un = python_unresolved(snap)
    m_un = drv.ask('unresolved')
    m_set = set() if m_un == '-' else set(tuple(int(x) for x in t.split(':')) for t in m_un.split(' '))
    if m_set != set((i, j) for i, j, _, _, _ in py_un):
        ctx.disagree('unresolved', {}, m_un, str(py_un))
    for i, j, name, meth, exc in py_un:
        argv = name.split(' ') + _witness_args(name)
        o = run_cli(argv)
        ctx.case(('resolve', name, meth), nontrivial=True)
        ctx.violate('C20:table_resolves:%s:%s' % (name, meth),
                    'entry %r calls ipmi.%s, which %s' % (
                        name, meth, 'does not exist on pyipmi.Ipmi' if exc == 'AttributeError'
                        else 'cannot be called with the arguments the handler passes'),
                    {'kind': 'resolve', 'argv': argv, 'entry': name, 'method': meth, 'ref': j},
                    expected='the call resolves (no %s)' % exc, observed=str(o.exit))
        m = drv.ask('entry %d' % i)
        if not m.startswith(exc):
            ctx.disagree('entry-resolution', {'entry': name}, m, exc)
        elif not (o.exit[0] == 'raise' and o.exit[1] == exc):
            ctx.disagree('entry-run', {'entry': name, 'argv': argv}, m, str(o.exit))
    for i in range(len(names)):
        ctx.count('table:resolution:' + drv.ask('entry %d' % i).split(' ')[0])
    # chassis sub-commands: table -> method -> option constant (model path) vs IPMI table 28-4
    for w in ('off', 'on', 'cycle', 'reset', 'diag', 'soft'):
        spec = drv.ask('speccode ' + w)
        model = drv.ask('chassis ' + w)
        name = 'chassis power ' + w
        if name not in names:
            ctx.violate('C20:chassis-missing:%s' % w, 'no table entry %r' % name, {'kind': 'chassis', 'word': w},
                        expected=spec, observed='no entry')
            continue
        o = run_cli(name.split(' '))
        ctx.case(('chassis', w), nontrivial=True)
        want = (0, 0, '02%02x' % int(spec.split(' ')[1]))
        got = o.requests
        if model == spec and got != [want]:
            ctx.disagree('chassis-wire', {'word': w}, str([want]), str(got))
        if got != [want] and not (o.exit[0] == 'raise' and any(u[2] == name for u in py_un)):
            ctx.violate('C20:chassis-code:%s' % w,
                        '%r does not send Chassis Control with option %s' % (name, spec.split(' ')[1]),
                        {'kind': 'chassis', 'word': w, 'argv': name.split(' ')}, expected=[want], observed=got)
    return set(u[2] for u in py_un)


# ------------------------------------------------------------ what the printing handlers meet
def _sign(x):
    return 'neg' if x < 0 else 'zero' if x == 0 else 'pos'


def record_facts(rec, readings):
    """One SDR of the stub, read per IPMI v2.0 table 43-1 (NOT with the library): record id, type, and for a full
    sensor record the linearisation code and the sign of x = M*raw + B (K1 = K2 = 0 in the stub) of the reading
    and of the six threshold bytes in the order `sdr show` prints them."""
    rid, rtype = rec[0] | rec[1] << 8, rec[3]
    d = {'id': rid, 'type': rtype, 'lin': None, 'reading': None, 'thresholds': [], 'available': None}
    if rtype in (0x01, 0x02):
        rd = readings.get(rec[7])
        # table 35-15 byte 3 bit 5: reading/state unavailable
        d['available'] = None if rd is None or rd[0] != 0 else not rd[2] & 0x20
    if rtype != 0x01:
        return d
    b = rec[5:]
    number = b[2]
    fmt = b[15] >> 6
    d['lin'] = b[18] & 0x7f
    m = b[19] | (b[20] & 0xc0) << 2
    m = m - 1024 if m & 0x200 else m
    bb = b[21] | (b[22] & 0xc0) << 2
    bb = bb - 1024 if bb & 0x200 else bb

    def x_of(raw):
        if fmt == 1 and raw & 0x80:
            raw = -((raw & 0x7f) ^ 0x7f)
        elif fmt == 2 and raw & 0x80:
            raw = raw - 256
        return m * raw + bb
    rd = readings.get(number)
    if rd is not None and rd[0] == 0 and not rd[2] & 0x20:
        d['reading'] = _sign(x_of(rd[1]))
    unr, ucr, unc, lnr, lcr, lnc = b[31:37]
    d['thresholds'] = [_sign(x_of(t)) for t in (unr, ucr, unc, lnc, lcr, lnr)]
    return d


def model_sensor_read(drv, cmd, rec):
    """driver: the Get Sensor Reading request of today's handler of command `cmd` (code points) for stub record
    `rec`, whose type / sensor owner LUN / sensor number are read per table 43-1 / 43-2 (byte 4, byte 7 [1:0],
    byte 8) -> (lun, netfn, hex) | None"""
    a = drv.ask('sensorread %s %d %d %d' % (cmd, rec[3], rec[6] & 0x03, rec[7]))
    if a == 'none':
        return None
    t = a.split(' ')
    if t[0] != 'req':
        raise lean.LeanError('drv_c20', 'sensorread: ' + a)
    return (int(t[1]), int(t[2]), t[3])


def sensor_reply_of(drv, bmc, cmd, rec):
    """the stub's reply to that request: None (no sensor read for this record) | 'cb' (no such sensor) | reply bytes"""
    q = model_sensor_read(drv, cmd, rec)
    if q is None:
        return None
    reply = bmc.reading_of(q[0], rec[7])
    return 'cb' if reply is None else reply


def tie_sensor_reads(ctx, name, vals, argv, profile, o):
    """tie: the Get Sensor Reading requests (responder LUN, NetFn, bytes) of a fault-free `sdr list` / `sdr show` /
    `sdr showall` run vs the Lean model of today's handlers (`sensorReadOf` over the generated table of
    get_sensor_reading calls), record by record of the stub's repository"""
    if name not in ('sdr list', 'sdr show', 'sdr showall') or o.launch is None:
        return
    if o.exit[0] == 'raise' and o.exit[1] == 'ValueError' and not o.requests:
        return
    if (o.exit[0] == 'raise' and o.py_error) or (o.handler_exc is not None and o.handler_exc[2] == 'liberr'):
        return          # reported / tied by the Python-error oracle; the request sequence is cut short
    if not literal_verdict(ctx, o.launch['entry'], o.launch['args'])[0]:
        return          # the model's int() rejects the record id (`sdr show` prints an empty line): tied by 'literal'
    drv = ctx.driver('drv_c20')
    bmc = Bmc20(profile)
    recs = [] if profile == 'minimal' else list(bmc.sdrs)
    if name == 'sdr show':
        recs = [r for r in recs if vals and (r[0] | r[1] << 8) == vals[0]]
    cmd = enc(name)
    want = []
    for rec in recs:
        q = model_sensor_read(drv, cmd, rec)
        if q is None:
            continue
        want.append(q)
        ctx.count('sensor-read:type%d:owner-lun%d:read-on-lun%d' % (rec[3], rec[6] & 3, q[0]))
        reply = bmc.reading_of(q[0], rec[7])
        if (reply is None or reply[0] != 0) and name != 'sdr list':
            break           # the command ends with the completion code (`sdr list` prints it and goes on)
    got = [q for q in o.requests if q[1] == 0x04 and q[2].startswith('2d')]
    if got != want:
        ctx.disagree('sensor-read', {'kind': 'entry', 'argv': argv, 'profile': profile, 'entry': name, 'faults': []},
                     str(want), str(got))


def predict_python_error(ctx, name, args, profile):
    """the Lean model of the printing handlers (with the facts the translator read off today's source): the
    Python error that ends entry `name` on the stub profile, or None.  Only for the entries it models."""
    drv = ctx.driver('drv_c20')
    bmc = Bmc20(profile)
    if profile == 'minimal':
        return None

    def ask(q):
        r = drv.ask(q)
        return None if r == 'none' else r
    if name == 'picmg portstate get':
        ch, intf = args
        return ask('linkstate 0') if (bmc.linkless and (intf, ch) == (0, 3)) else None
    if name == 'picmg portstate getall':
        return ask('linkstate 0') if bmc.linkless else None
    if name not in ('sdr list', 'sdr show', 'sdr showall'):
        return None
    cmd = enc(name)
    recs = []
    for raw in bmc.sdrs:
        # the sensor the MODEL says the command reads for this record (LUN and number), and the stub's reply to it
        reply = sensor_reply_of(drv, bmc, cmd, raw)
        r = record_facts(raw, {} if reply in (None, 'cb') else {raw[7]: reply})
        r['cc'] = reply == 'cb' or (reply is not None and reply[0] != 0)
        recs.append(r)
    if name == 'sdr show':
        recs = [r for r in recs if r['id'] == args[0]]
    for r in recs:
        if name != 'sdr list':
            e = ask('sdrshow %d' % r['type'])
            if e:
                return e
            if r['cc']:
                return None         # Get Sensor Reading ends the command with a completion code
        if r['lin'] is not None:
            cells = ([r['reading']] if r['reading'] else []) + (r['thresholds'] if name != 'sdr list' else [])
            for sg in cells:
                e = ask('cell %s %d %s' % (cmd, r['lin'], sg))
                if e:
                    return e
        if name != 'sdr list' and r['available'] is not None:
            e = ask('showstate %d' % (1 if r['available'] else 0))
            if e:
                return e
    return None


def tie_python_error(ctx, name, vals, argv, profile, o):
    """tie: the model's prediction vs the run (fault-free runs of the entries the handler model covers)"""
    if name not in ('picmg portstate get', 'picmg portstate getall', 'sdr list', 'sdr show', 'sdr showall'):
        return
    if o.launch is None or (o.exit[0] == 'raise' and o.exit[1] == 'ValueError' and not o.requests):
        return
    want = predict_python_error(ctx, name, vals, profile)
    got = o.exit[1] if (o.exit[0] == 'raise' and o.py_error) else None
    if got is None and o.handler_exc is not None and o.handler_exc[2] == 'liberr':
        # a class of pyipmi.errors that is not a completion code / time-out left the handler (DecodingError of
        # `lin`); main() prints "Command failed" for it
        got = o.handler_exc[0]
    ctx.count('handler-model:%s' % (want or 'completes'))
    if want != got:
        ctx.disagree('handler', {'kind': 'entry', 'argv': argv, 'profile': profile, 'entry': name, 'faults': []},
                     str(want), str(got))


def _lin_tie(ctx):
    """tie: the Lean model of `SdrFullSensorRecord.lin` (Model.linRaises) vs the library on EVERY value of the
    linearisation byte (table 43-1 byte 24; bit 7 reserved) x the sign of x.  The record is built from the table
    (stub.sdr_full_lin: 2's complement readings, M = 1, B = 0, exponents 0), the byte patched in, decoded by the
    library, and one raw value of each sign converted.  Also: the specification's view of the code
    (Spec.linClass / hasValue through the driver) vs the table's text, written out here once more."""
    import pyipmi.sdr
    drv = ctx.driver('drv_c20')
    raws = (('neg', 0xfe), ('zero', 0x00), ('pos', 0x02))
    qs = ['linraises %d %s' % (b, sg) for b in range(256) for sg, _ in raws]
    model = drv.ask_many(qs)
    k = 0
    for b in range(256):
        rec = bytearray(stub.sdr_full_lin(0x99, 0x60, 'lin tie', 0, 1, signed=True))
        rec[5 + 18] = b
        s = pyipmi.sdr.SdrCommon.from_data(bytes(rec))
        for sg, raw in raws:
            try:
                s.convert_sensor_raw_to_value(raw)
                code = 'none'
            except Exception as e:  # noqa
                code = type(e).__name__
            ctx.case(('lin', b, sg), nontrivial=True)
            ctx.count('lin-tie:%s' % code)
            if model[k] != code:
                ctx.disagree('lin', {'kind': 'lin', 'byte': b, 'sign': sg}, model[k], code)
            k += 1
    spec = drv.ask_many(['speclin %d' % c for c in range(128)])
    for c, line in enumerate(spec):
        kind = 'formula' if c <= 0x0b else 'nonlinear' if c == 0x70 else 'oem' if 0x71 <= c <= 0x7f else 'reserved'
        if line.split(' ')[:2] != [kind, '0' if kind == 'reserved' else '1']:
            ctx.disagree('speclin', {'kind': 'lin', 'code': c}, line, kind)


# ------------------------------------------------------------------------------------- entries
def _profiles_of(name):
    if name.startswith('sdr'):
        return ('full', 'minimal', 'plain', 'sdrtypes', 'nonlinear', 'unavailable', 'luns')
    return ('full', 'minimal', 'plain')


def _entries(ctx, snap, unresolved_names):
    rng = ctx.rng('entries')
    specs = entry_specs()
    names = [c['name'] for c in snap['commands']]
    thorough = ctx.tier == 'thorough'
    for idx, name in enumerate(names):
        if name == 'raw':
            continue
        if name not in specs:
            ctx.count('obs:entry-without-spec:%s' % name)
            ctx.notes.append('table entry %r has no argument/API specification in harness/props/c20.py' % name)
            o = run_cli(name.split(' '))
            ctx.case(('nospec', name))
            continue
        shapes, api = specs[name]
        nmax = max(len(sh) for sh in shapes)
        for shape in shapes:
            numeric = any(k == 'n' for k, _ in shape)
            # a shape that stops before the handler's last argument: its conversions may not be reached at all
            short = name == 'picmg channel power' and len(shape) < nmax
            kinds = ['dec'] if short else [None] * (6 if thorough else 2) + (['dec', 'hex', 'HEX'] if numeric else [])
            for fk in kinds:
                words, vals = render_shape(shape, rng, fk)
                for extra in ([], ['extra']) if not any(shapes) else ([],):
                    argv = name.split(' ') + words + extra
                    fn = api(vals) if api else None
                    for profile in _profiles_of(name):
                        o = judge_entry_run(ctx, name, idx, argv, fn, profile, None, unresolved_names, 'entry')
                        tie_python_error(ctx, name, vals, argv, profile, o)
                        tie_sensor_reads(ctx, name, vals, argv, profile, o)
                    if fk == 'dec' or (fk is None and not shape and not extra):
                        _faults(ctx, name, idx, argv, fn, unresolved_names, rng)
        # picmg channel power has no API oracle of its own (see fixes/C20-3.md): shape of the request only
        if name == 'picmg channel power' and name not in unresolved_names:
            o = run_cli(name.split(' ') + ['2', '1', '3'])
            ctx.case(('chpower',))
            ok = len(o.requests) == 1 and o.requests[0][1] == 0x2c and o.requests[0][2].startswith('240002')
            if not ok:
                ctx.violate('C20:requests:picmg channel power', 'no Power Channel Control request for channel 2',
                            {'kind': 'entry', 'argv': name.split(' ') + ['2', '1', '3'], 'entry': name,
                             'profile': 'full', 'faults': []},
                            expected='one request 2c/24 00 02 …', observed=o.requests)
        # missing arguments: observation only
        if shapes and shapes[0]:
            o = run_cli(name.split(' '))
            ctx.case(('noargs', name), nontrivial=False)
            ctx.count('obs:no-args:%s:%s' % (name, o.exit[1] if o.exit[0] == 'raise' else _exit_class(o)))


def _faults(ctx, name, idx, argv, fn, unresolved_names, rng):
    """the run again with one BMC error code / time-out / library exception at a request, at the session set-up
    (index -1) or at the session tear-down (index -2, alone and after a failure of the command itself)"""
    if name in unresolved_names:
        return
    profile = 'full' if name.startswith('hpm') else 'plain'
    base = run_cli(argv, profile)
    n = len(base.requests)

    def go(faults):
        judge_entry_run(ctx, name, idx, argv, fn, profile, faults, unresolved_names, 'fault')
        for f in faults.values():
            ctx.count('fault:%s' % (f[0] if f[0] != 'exc' else f[1]))
    ks = list(range(n)) if n <= 10 else sorted(set([0, 1, n - 1, n - 2] + [rng.randrange(n) for _ in range(6)]))
    for k in ks:
        for f in (('cc', 0xc1), ('cc', rng.choice(HARD_CC)), ('timeout',)):
            go({k: f})
    for cls in EXC_FAULTS:
        for k in sorted(set([0, rng.randrange(n)])) if n else []:
            go({k: ('exc', cls)})
    for f in (('cc', 0x81), ('timeout',), ('exc', 'RetryError'), ('exc', 'socket.timeout'), ('exc', 'NotSupportedError'),
              ('exc', 'IpmiConnectionError'), ('exc', 'IpmiLongPasswordError')):
        go({-1: f})
        ctx.count('fault:at-session-setup')
    for f in (('cc', 0xc1), ('timeout',), ('exc', 'RetryError'), ('exc', 'socket.timeout')):
        go({-2: f})
        if n:
            go({0: ('cc', 0xc1), -2: f})
            go({n - 1: ('exc', 'RetryError'), -2: f})
        ctx.count('fault:at-session-teardown')


# ------------------------------------------------------------------------------------- options
USERS = ['admin', 'root user', '', 'a-b', '-x', 'p=q,r', 'üñ', '$HOME', '"q"', 'x' * 40]
LEVELS = [('user', 2), ('operator', 3), ('administrator', 4), ('USER', 2), ('Operator', 3), ('ADMINISTRATOR', 4)]
IFACE_DOC = {
    'aardvark': {'serial': ('serial_number', None), 'pullups': ('enable_i2c_pullups', 'onoff'),
                 'power': ('enable_target_power', 'onoff'), 'fastmode': ('enable_fastmode', 'onoff')},
    'ipmitool': {'interface_type': ('interface_type', None), 'cipher': ('cipher', None)},
    'ipmbdev': {'port': ('port', None)},
    'rmcp': {}, 'mock': {},
}


def gen_routing(rng):
    n = rng.choice([1, 1, 2, 3])
    tuples = []
    for i in range(n):
        ch = None if (i == n - 1 and rng.random() < 0.5) else rng.randrange(16)
        tuples.append((rng.choice([0x81, 0x20, 0x82]), rng.choice([0x20, 0x82, 0x72, 0x8e]), ch))
    style = rng.choice(['repr', 'hex', 'spaces'])
    if style == 'repr':
        s = repr(tuples)
    elif style == 'hex':
        s = '[' + ','.join('(0x%x,0x%x,%s)' % (a, b, c) for a, b, c in tuples) + ']'
    else:
        s = '[ ' + ' , '.join('( %d, %d, %s )' % (a, b, c) for a, b, c in tuples) + ' ]'
    return s, tuples


def gen_iface_opts(rng, iface):
    doc = IFACE_DOC.get(iface, {})
    parts, want = [], {}
    for _ in range(rng.choice([0, 1, 1, 2, 3])):
        if doc and rng.random() < 0.8:
            k = rng.choice(sorted(doc))
            kw, typ = doc[k]
            if typ == 'onoff':
                v = rng.choice(['on', 'off'])
                want[kw] = (v == 'on')
            else:
                v = rng.choice(['2237-523145', '/dev/ipmb-0', 'lanplus', '17', 'a=b', ''])
                want[kw] = v
            parts.append('%s=%s' % (k, v))
        else:
            parts.append('%s=%s' % (rng.choice(['foo', 'serial2', 'Port']), rng.choice(['1', 'x'])))
    return ','.join(parts), want


def gen_options(rng, known, hex_b=False):
    """-> (argv words, oracle dict of what must be in effect)"""
    n = rng.choice([0, 1, 2, 3, 4, 6, 9])
    words, eff = [], {'target': 0x20, 'routing': None, 'host': None, 'port': 623, 'user': '', 'password': '',
                      'priv': 4, 'iface': 'aardvark', 'ifopts_raw': None, 'judge_routing': True, 'valid': True}
    pending_flags = ''
    for _ in range(n):
        o = rng.choice('ttbrrHHpUPLIovJ')
        if o in 'vJ':
            if rng.random() < 0.4:
                pending_flags += o
            else:
                words.append('-' + pending_flags + o)
                pending_flags = ''
            continue
        if o == 't':
            v = rng.choice([rng.randrange(1, 256), rng.randrange(1, 256), 0x20, 0x82, 0x1ff])
            a, ok0, _ = lit(v, rng.choice(KINDS0))
            eff['target'] = v
        elif o == 'b':
            v = rng.randrange(0, 16)
            # literals that int(a) and int(a, 0) both read (the tree decides which one -b uses), and hex
            kind = rng.choice(KINDS_BOTH + ['hex', 'HEX']) if hex_b else rng.choice(KINDS_BOTH)
            a, _, ok10 = lit(v, kind)
            if kind in ('hex', 'HEX'):
                eff.setdefault('hex_opts', []).append('b')
            eff['routing'] = [(0x20, v, 0)]
            eff['judge_routing'] = False     # -b is not named by the property; tie only
        elif o == 'r':
            a, tuples = gen_routing(rng)
            eff['routing'] = tuples
            eff['judge_routing'] = True
        elif o == 'H':
            a = rng.choice(['10.0.0.1', 'bmc.example.org', 'h', '::1', ''])
            eff['host'] = a
        elif o == 'p':
            v = rng.choice([623, 1623, 0x26f, 65535, 1])
            a, _, _ = lit(v, rng.choice(KINDS0))
            eff['port'] = v
        elif o == 'U':
            a = rng.choice(USERS)
            eff['user'] = a
        elif o == 'P':
            a = rng.choice(USERS)
            eff['password'] = a
        elif o == 'L':
            a, lv = rng.choice(LEVELS)
            eff['priv'] = lv
        elif o == 'I':
            a = rng.choice(known)
            eff['iface'] = a
        elif o == 'o':
            a = None      # rendered at the end, when the interface is known
            eff['ifopts_raw'] = 'PENDING'
        form = rng.choice(['sep', 'sep', 'glued'])
        if o == 'o':
            words.append(('OPT_O', pending_flags, form))
            pending_flags = ''
            continue
        if a == '' or form == 'sep':
            words.append('-' + pending_flags + o)
            words.append(a)
        else:
            words.append('-' + pending_flags + o + a)
        pending_flags = ''
    if pending_flags:
        words.append('-' + pending_flags)
    # interface options: every -o gets a fresh string for the FINAL interface; the last one wins
    out = []
    want = {}
    for w in words:
        if isinstance(w, tuple):
            s, want = gen_iface_opts(rng, eff['iface'])
            if s == '' or w[2] == 'sep':
                out += ['-' + w[1] + 'o', s]
            else:
                out.append('-' + w[1] + 'o' + s)
        else:
            out.append(w)
    eff['ifopts'] = want
    return out, eff


def parse_launch(line):
    """driver `launch …` line -> dict"""
    t = line.split(' ')
    d = {'entry': int(t[1])}
    for f in t[2:]:
        k, v = f.split('=', 1)
        d[k] = v
    return d


def _pyval(tok):
    if tok == 'N':
        return None
    if tok == 'L':
        return []
    if tok[0] == 'B':
        return tok == 'B1'
    if tok[0] == 'I':
        return int(tok[1:])
    if tok[0] == 'S':
        return dec(tok[1:])
    if tok[0] == 'R':
        f = [int(x) for x in tok[1:].split(':')]
        if len(f) == 5:      # two hops, the last one without a channel (the bridging statement of main)
            return [(f[0], f[1], f[2]), (f[3], f[4], None)]
        a, b, c = f
        return [(a, b, c)]
    raise ValueError(tok)


def compare_launch(ctx, case, line, o):
    """tie: the Lean model of main vs what the handler was started with; returns True if equal"""
    if o.launch is None:
        ctx.disagree('main', case, line, str(o.exit))
        return False
    m = parse_launch(line)
    L = o.launch
    margs = [] if m['a'] == '.' else [dec(x) for x in m['a'].split(';')]
    mopts = [] if m['o'] == '-' else [(kv.split('=', 1)[0], _pyval(kv.split('=', 1)[1])) for kv in m['o'].split(';')]
    mrout = _pyval(m['r'])
    if isinstance(mrout, str):
        try:
            mrout = [tuple(x) for x in ast.literal_eval(mrout)]
        except Exception:  # noqa
            mrout = 'unparsable'
    msess = None
    if m['s'] != '-':
        h, p, u, pw, lv = m['s'].split('/')
        msess = (_pyval(h), _pyval(p), _pyval(u), _pyval(pw), int(lv))
    model = (m['entry'], margs, _pyval(m['i']), mopts, _pyval(m['t']), mrout, msess)
    code = (L['entry'], L['args'], L['iface'], L['opts'], L['target'], L['routing'], L['session'])
    if model != code:
        ctx.disagree('main/launch', case, repr(model), repr(code))
        return False
    return True


def _options(ctx):
    rng = ctx.rng('options')
    drv = ctx.driver('drv_c20')
    known = _known_ifaces()
    n = 400 if ctx.tier == 'quick' else 6000
    tails = [['bmc', 'info'], ['raw', '6', '1'], ['chassis', 'status'], ['--', 'bmc', 'info']]
    for it in range(n):
        words, eff = gen_options(rng, known, hex_b=True)
        tail = rng.choice(tails)
        argv = words + tail
        case = {'kind': 'options', 'argv': argv}
        o = run_cli(argv)
        line = drv.ask('main ' + encs(argv))
        ctx.case(tuple(argv), nontrivial=bool(words))
        ctx.count('options:n=%d' % min(len(words), 9))
        for w in words:
            if w.startswith('-') and len(w) >= 2:
                ctx.count('opt:-%s' % w[1])
        if not line.startswith('launch '):
            ctx.count('options:' + line.split(' ')[0])
            code = ('exit %d' % o.exit[1]) if o.exit[0] == 'exit' else ('raise %s' % o.exit[1]) if o.exit[0] == 'raise' else 'return'
            if line != code or o.launch is not None:
                ctx.disagree('main', case, line, code)
            elif line == 'raise ValueError' and eff.get('hex_opts'):
                # the model (conversions read off today's main) rejects a hex literal: decimal/hex are numbers
                for x in sorted(set(eff['hex_opts'])):
                    ctx.violate('C20:python-error:option -%s:ValueError' % x,
                                'option -%s rejects its value written in hex with a Python error (ValueError)' % x, case,
                                expected='the value is read as the number it denotes (as -t and -p do)', observed=code)
                continue
            # the generator only produces valid option vectors: not being launched is itself wrong
            ctx.violate('C20:option:not-launched', 'a valid option vector does not reach the handler', case,
                        expected='handler started', observed=code)
            continue
        ctx.count('options:launch')
        compare_launch(ctx, case, line, o)
        if o.launch is None:
            continue
        L = o.launch
        # ---- property: the options take effect exactly as given (oracle = what was generated)
        checks = [('t', 'target', L['target'], eff['target']), ('I', 'iface', L['iface'], eff['iface']),
                  ('o', 'ifopts', dict(L['opts']), eff['ifopts'])]
        if eff['judge_routing']:
            checks.append(('r', 'routing', L['routing'], eff['routing']))
        if eff['host'] is not None:
            checks.append(('H', 'session', L['session'],
                           (eff['host'], eff['port'], eff['user'], eff['password'], eff['priv'])))
        for opt, what, got, want in checks:
            if got != want:
                ctx.violate('C20:option:-%s' % opt, 'option -%s (%s) does not take effect as given' % (opt, what), case,
                            expected=repr(want), observed=repr(got))
        # the requests carry the target
        if o.targets and any(t != (L['target'], L['routing']) for t in o.targets):
            ctx.violate('C20:option:target-on-wire', 'a request is addressed to another target than configured', case,
                        expected=repr((L['target'], L['routing'])), observed=repr(o.targets[:3]))
        if eff['host'] is not None and o.iface is not None and o.iface.session is not None:
            s = o.iface.session
            got = (s['host'], s['port'], s['user'], s['password'], s['priv'])
            want = (eff['host'], eff['port'], eff['user'], eff['password'], eff['priv'])
            if got != want:
                ctx.violate('C20:option:session', 'the session the interface is asked to establish differs from the options',
                            case, expected=repr(want), observed=repr(got))
        if it < 3:
            ctx.sample({'argv': argv, 'model': line[:160]})
    # directed: model-only corners (tie): -t 0, bad numbers, unknown interface, bad priv, -h, -V, --long, missing arg
    directed = [
        ['-t', '0', 'bmc', 'info'], ['-t', 'zz', 'bmc', 'info'], ['-t', '010', 'bmc', 'info'], ['-b', '0x1', 'bmc', 'info'],
        ['-b', '07', 'bmc', 'info'], ['-I', 'bogus', 'bmc', 'info'], ['-H', 'h', '-L', 'root', 'bmc', 'info'],
        ['-L', 'root', 'bmc', 'info'], ['-h'], ['-V'], ['-v', '-h', '-t', 'zz'], ['-t', 'zz', '-h'], ['--help'], ['--'],
        ['-t'], ['-x', 'bmc', 'info'], ['-vx'], [], ['-'], ['-', 'bmc', 'info'], ['bmc'], ['bmc', 'inf'], ['-o', 'serial', 'bmc', 'info'],
        ['-o', 'serial=1,pullups', 'bmc', 'info'], ['-o', 'pullups=maybe,power=on', 'bmc', 'info'], ['-I', 'ipmbdev', '-o', 'x=1,port=/dev/i', 'bmc', 'info'],
        ['-o', '', 'bmc', 'info'], ['-U', 'u', '-P', 'p', 'bmc', 'info'], ['-p', '1', 'bmc', 'info'], ['-Hh', '-p', '0x10', '-Uu', '-Pp', '-Luser', 'bmc', 'info'],
        ['-J', 'chassis', 'status'], ['-vJt', '0x30', 'chassis', 'status'], ['-t', '0x30', '-t', '0x31', 'bmc', 'info'], ['-r', '[(1,2,3)]', '-b', '4', 'bmc', 'info'],
        ['-b', '4', '-r', '[(1,2,3)]', 'bmc', 'info'], ['-I', 'rmcp', '-H', '', 'bmc', 'info'],
    ]
    for argv in directed:
        o = run_cli(argv)
        line = drv.ask('main ' + encs(argv))
        case = {'kind': 'options', 'argv': argv}
        ctx.case(('directed',) + tuple(argv), nontrivial=True)
        ctx.count('directed:' + line.split(' ')[0])
        if line.startswith('launch '):
            compare_launch(ctx, case, line, o)
        else:
            code = ('exit %d' % o.exit[1]) if o.exit[0] == 'exit' else ('raise %s' % o.exit[1]) if o.exit[0] == 'raise' else 'return'
            if line != code or o.launch is not None:
                ctx.disagree('main', case, line, code)



# ----------------------------------------------------------------------------------- histories
# Several main() runs in ONE process.  Each run is judged on its own: by the option oracle (what was
# generated must be in effect) and by independence (it must do exactly what the same run does in a process
# that has run nothing before).  Histories are executed in pristine child processes (harness/sim/pristine.py),
# so that what the check sees is what the replay (a new process running the whole history) sees.

def _j(x):
    return json.loads(json.dumps(x))


def obs_dict(o):
    return _j({'exit': list(o.exit), 'launch': o.launch, 'created': o.created,
               'session': o.iface.session if o.iface is not None else None,
               'events': o.iface.events if o.iface is not None else None,
               'requests': o.requests, 'targets': o.targets, 'stdout': o.stdout})


def _faults_of(run):
    return dict((int(k), tuple(f)) for k, f in run.get('faults', [])) or None


def exec_runs(runs):
    """run main() once per entry of `runs` in THIS process, one after the other"""
    return [obs_dict(run_cli(r['argv'], r.get('profile', 'full'), _faults_of(r))) for r in runs]


NO_SESSION = {'host': None, 'port': None, 'user': None, 'password': None, 'priv': 4, 'auth_type': 0}
INDEPENDENT_FIELDS = (('session', 'session parameters handed to the interface'), ('launch', 'target / routing / interface / '
                      'interface options / session the handler is started with'), ('requests', 'requests'),
                      ('targets', 'target of the requests'), ('exit', 'exit status'), ('events', 'open / session / close calls'),
                      ('stdout', 'output'))


def option_findings(eff, ob):
    """the option oracle of one run (what was generated must be in effect) -> [(signature, what, expected, observed)]"""
    out = []
    eff = _j(eff)
    L = ob['launch']
    if L is None:
        return [('C20:option:not-launched', 'a valid option vector does not reach the handler', 'handler started',
                 str(ob['exit']))]
    checks = [('t', 'target', L['target'], eff['target']), ('I', 'iface', L['iface'], eff['iface']),
              ('o', 'ifopts', dict((k, v) for k, v in L['opts']), eff['ifopts'])]
    if eff['judge_routing']:
        checks.append(('r', 'routing', L['routing'], eff['routing']))
    want_s = None
    if eff['host'] is not None:
        want_s = [eff['host'], eff['port'], eff['user'], eff['password'], eff['priv']]
        checks.append(('H', 'session', L['session'], want_s))
    else:
        checks.append(('H', 'session', L['session'], None))
    for opt, what, got, want in checks:
        if got != want:
            out.append(('C20:option:-%s' % opt, 'option -%s (%s) does not take effect as given' % (opt, what),
                        repr(want), repr(got)))
    if ob['targets'] and any(t != [L['target'], L['routing']] for t in ob['targets']):
        out.append(('C20:option:target-on-wire', 'a request is addressed to another target than configured',
                    repr([L['target'], L['routing']]), repr(ob['targets'][:3])))
    if ob['session'] is not None:
        s_ = ob['session']
        got = [s_['host'], s_['port'], s_['user'], s_['password'], s_['priv']]
        want = want_s if want_s is not None else [NO_SESSION[k] for k in ('host', 'port', 'user', 'password', 'priv')]
        if got != want:
            out.append(('C20:option:session', 'the session the interface is asked to establish differs from the options',
                        repr(want), repr(got)))
    return out


def history_findings(runs, obs, alone):
    """-> [(run index, signature, what, expected, observed, needs_history)]"""
    out = []
    for k, (r, ob) in enumerate(zip(runs, obs)):
        if r.get('eff') is not None:
            own = option_findings(r['eff'], ob)
            own_alone = set(f[0] for f in option_findings(r['eff'], alone[k])) if alone is not None else set()
            for sig, what, exp, got in own:
                out.append((k, sig, what, exp, got, sig not in own_alone))
        if alone is not None:
            for field, text in INDEPENDENT_FIELDS:
                if ob[field] != alone[k][field]:
                    out.append((k, 'C20:independence:' + field,
                                'the %s of a run depend on the runs made before it in the same process' % text,
                                json.dumps(alone[k][field])[:300], json.dumps(ob[field])[:300], True))
                    break
    return out


def _eff_plain(eff):
    e = dict(eff)
    e['routing'] = None if e['routing'] is None else [list(t) for t in e['routing']]
    return e


SESSION_WORDS = [['-H', '10.0.0.1'], ['-p', '1623'], ['-U', 'admin'], ['-P', 'secret'], ['-L', 'user']]


def gen_histories(ctx, rng, known):
    out = []
    tails = [['bmc', 'info'], ['raw', '6', '1'], ['chassis', 'status']]

    def eff_of(**kw):
        e = {'target': 0x20, 'routing': None, 'host': None, 'port': 623, 'user': '', 'password': '', 'priv': 4,
             'iface': 'aardvark', 'ifopts_raw': None, 'judge_routing': True, 'valid': True, 'ifopts': {}}
        e.update(kw)
        return e

    def run(words, eff, tail=None, faults=None):
        return {'argv': list(words) + list(tail or rng.choice(tails)), 'profile': 'full',
                'faults': sorted((k, list(v)) for k, v in (faults or {}).items()), 'eff': _eff_plain(eff)}
    plain = lambda: run([], eff_of())    # noqa: E731
    full_ses = (['-H', '10.0.0.1', '-p', '1623', '-U', 'admin', '-P', 'secret', '-L', 'user'],
                dict(host='10.0.0.1', port=1623, user='admin', password='secret', priv=2))
    single = [
        ('t', ['-t', '0x82'], dict(target=0x82)),
        ('b', ['-b', '7'], dict(routing=[(0x20, 7, 0)], judge_routing=False)),
        ('r', ['-r', '[(0x81,0x20,7),(0x20,0x82,None)]'], dict(routing=[(0x81, 0x20, 7), (0x20, 0x82, None)])),
        ('I', ['-I', 'rmcp'], dict(iface='rmcp')),
        ('o', ['-o', 'serial=2237-523145,pullups=on'], dict(ifopts={'serial_number': '2237-523145', 'enable_i2c_pullups': True})),
        ('Io', ['-I', 'ipmitool', '-o', 'interface_type=lanplus,cipher=17'],
         dict(iface='ipmitool', ifopts={'interface_type': 'lanplus', 'cipher': '17'})),
        ('H', ['-H', 'bmc.example.org'], dict(host='bmc.example.org')),
        ('HpUPL',) + full_ses,
        ('v', ['-v'], {}), ('J', ['-J'], {}),
    ]
    if 'rmcp' not in known or 'ipmitool' not in known:
        single = [x for x in single if x[0] not in ('I', 'Io')]
    for name, words, kw in single:
        w = run(words, eff_of(**kw))
        out.append(('with-%s>without' % name, [w, plain()]))
        out.append(('without>with-%s' % name, [plain(), dict(w)]))
        out.append(('with-%s>without>with>without' % name, [dict(w), plain(), dict(w), plain()]))
    # every session option: given together with -H in one run, left out (only -H) in the other
    for i in range(1, len(SESSION_WORDS)):
        w1 = [x for pair in SESSION_WORDS for x in pair]
        w2 = [x for j, pair in enumerate(SESSION_WORDS) if j != i for x in pair]
        e1 = dict(full_ses[1])
        e2 = dict(e1)
        e2[('host', 'port', 'user', 'password', 'priv')[i]] = (None, 623, '', '', 4)[i]
        a, b = run(w1, eff_of(**e1)), run(w2, eff_of(**e2))
        out.append(('session-all>without-%s' % SESSION_WORDS[i][0], [a, b]))
        out.append(('session-without-%s>all' % SESSION_WORDS[i][0], [dict(b), dict(a)]))
    for lv, n in (('user', 2), ('operator', 3)):
        a = run(['-H', 'h1', '-L', lv], eff_of(host='h1', priv=n))
        b = run(['-H', 'h2'], eff_of(host='h2'))
        out.append(('level-%s>default-level' % lv, [a, b, plain()]))
    a = run(['-H', 'h1', '-U', 'u1', '-P', 'p1'], eff_of(host='h1', user='u1', password='p1'))
    b = run(['-H', 'h2', '-p', '0x26f'], eff_of(host='h2', port=0x26f))
    out.append(('credentials>other-host-without', [a, b, dict(a), plain()]))
    # a run that fails (BMC error / timeout / unknown command / bad option) before good runs
    for bad in (run([], eff_of(), ['bmc', 'info'], {0: ('cc', 0xc1)}), run([], eff_of(), ['chassis', 'status'], {0: ('timeout',)}),
                dict(run(['-t', 'zz'], eff_of(), ['bmc', 'info']), eff=None), dict(run([], eff_of(), ['bmc', 'inf']), eff=None),
                dict(run(['-H', 'h', '-L', 'root'], eff_of(), ['bmc', 'info']), eff=None),
                dict(run(['-I', 'bogus', '-t', '0x30'], eff_of(), ['bmc', 'info']), eff=None)):
        w = run(full_ses[0] + ['-t', '0x72'], eff_of(target=0x72, **full_ses[1]))
        out.append(('failing-run-between', [w, bad, plain(), dict(w)]))
        out.append(('failing-run-first', [bad, dict(w), plain()]))
    n = 60 if ctx.tier == 'quick' else 1500
    for _ in range(n):
        runs = []
        for _ in range(rng.choice([2, 2, 3, 3, 4])):
            words, eff = gen_options(rng, known)
            faults = {0: rng.choice([('cc', 0xc1), ('cc', 0xd5), ('timeout',)])} if rng.random() < 0.12 else None
            runs.append(run(words, eff, None, faults))
        out.append(('random', runs))
    return out


_PRISTINE = None
_CTX_CLASS = None


def _preload():
    import pyipmi  # noqa: F401
    import pyipmi.interfaces  # noqa: F401
    import pyipmi.ipmitool  # noqa: F401


def _child_replay(prior, v):
    """in a pristine child: the earlier runs `prior`, then the replay procedure of violation `v`"""
    for r in prior:
        run_cli(r['argv'], r.get('profile', 'full'), _faults_of(r))
    c = _CTX_CLASS('C20', 'quick', 0)
    try:
        with contextlib.redirect_stdout(io.StringIO()):
            return bool(replay(c, v))
    finally:
        c.close()


def _pristine(ctx=None):
    """the fork server; run() creates it before the first main() run of this process"""
    global _PRISTINE, _CTX_CLASS
    if _PRISTINE is None:
        if ctx is not None:
            _CTX_CLASS = ctx.__class__
        try:
            _PRISTINE = pristine.Pristine({'runs': exec_runs, 'replay': _child_replay}, _preload)
        except OSError:
            _PRISTINE = False
    return _PRISTINE or None


def _history_sig(sig):
    return sig if sig.startswith('C20:independence:') else 'C20:history:' + sig[len('C20:'):]


def _strip(runs):
    return [dict((k, v) for k, v in r.items() if k != 'eff') for r in runs]


def _histories(ctx):
    p = _pristine(ctx)
    if p is None:
        ctx.notes.append('no pristine child processes: histories not run')
        return
    rng = ctx.rng('histories')
    drv = ctx.driver('drv_c20')
    nruns = 0
    for label, runs in gen_histories(ctx, rng, _known_ifaces()):
        if ctx.time_left() < 40:
            ctx.notes.append('history stream cut short by the time budget')
            break
        try:
            obs = p.call('runs', _strip(runs))
            alone = [p.call('runs', _strip([r]))[0] for r in runs]
        except pristine.PristineError as e:
            ctx.notes.append('history %s could not be executed: %s' % (label, str(e)[-200:]))
            continue
        case = {'kind': 'history', 'label': label, 'runs': runs}
        ctx.case(('history',) + tuple((tuple(r['argv']), str(r['faults'])) for r in runs))
        ctx.count('history:' + label.split('>')[0].split('-')[0])
        ctx.count('history:runs=%d' % len(runs))
        nruns += len(runs)
        for k, (r, ob) in enumerate(zip(runs, obs)):
            ctx.count('history:exit:' + (ob['exit'][0] if ob['exit'][0] != 'exit' else 'exit%s' % ob['exit'][1]))
            if k > 0:
                before = set(w[:2] for w in runs[k - 1]['argv'] if w.startswith('-') and len(w) >= 2)
                now = set(w[:2] for w in r['argv'] if w.startswith('-') and len(w) >= 2)
                for o_ in sorted(before - now):
                    ctx.count('history:given-then-absent:%s' % o_)
                for o_ in sorted(now - before):
                    ctx.count('history:absent-then-given:%s' % o_)
            # tie: the Lean model of main is a function of the argument vector alone
            line = drv.ask('main ' + encs(r['argv']))
            if line.startswith('launch '):
                fake = Obs()
                fake.exit = tuple(ob['exit'])
                L = ob['launch']
                if L is not None:
                    fake.launch = dict(L, opts=[tuple(x) for x in L['opts']],
                                       routing=None if L['routing'] is None else [tuple(x) for x in L['routing']],
                                       session=None if L['session'] is None else tuple(L['session']))
                compare_launch(ctx, dict(case, run=k), line, fake)
        found = history_findings(runs, obs, alone)
        if not found:
            continue
        k, sig, what, exp, got, needs = found[0]
        if not needs:
            # the run alone shows it as well: not a matter of history
            ctx.violate(sig, what, {'kind': 'history', 'label': 'single run', 'runs': [runs[k]]}, expected=exp, observed=got)
            continue
        runs2, obs2 = shrink_history(p, runs, sig)
        k, sig, what, exp, got, _ = [f for f in history_findings(runs2, obs2[0], obs2[1]) if f[1] == sig][0]
        ctx.violate(_history_sig(sig), 'run %d of %d consecutive main() runs in one process (%s): %s; the same run in a '
                    'process that has run nothing before is right' % (k, len(runs2), ' '.join(runs2[k]['argv']), what),
                    {'kind': 'history', 'label': label, 'runs': runs2}, expected=exp, observed=got)
    ctx.extra['history_runs'] = nruns


def shrink_history(p, runs, sig):
    def evaluate(rs):
        obs = p.call('runs', _strip(rs))
        alone = [p.call('runs', _strip([r]))[0] for r in rs]
        return obs, alone
    best = evaluate(runs)
    progress, budget = True, 24
    while progress and budget > 0:
        progress = False
        for k in range(len(runs) - 1, -1, -1):
            if len(runs) <= 1:
                break
            cand = runs[:k] + runs[k + 1:]
            budget -= 1
            try:
                ev = evaluate(cand)
            except pristine.PristineError:
                continue
            if any(f[1] == sig and f[5] for f in history_findings(cand, ev[0], ev[1])):
                runs, best, progress = cand, ev, True
                break
    return runs, best


def _confirm_single_runs(ctx, first_index):
    """A violation found by a single-run stream was seen in a process that had made many runs before.  Does the
    run alone, in a new process, show it?  If not, the earlier runs it needs are searched for and put into the
    replay (`prior`); the signature then says so."""
    p = _pristine(ctx)
    if p is None:
        return
    settled, dependent = set(), {}
    budget = 12
    for v in ctx.violations[first_index:]:
        case = v['case']
        sig = v['signature']
        if case.get('kind') == 'history' or 'argv' not in case or sig in settled:
            continue
        if dependent.get(sig, 0) >= 3:
            v['signature'] = _history_sig(sig)
            continue
        if budget <= 0:
            break
        budget -= 1
        n = case.pop('_runs_before', None)
        try:
            if p.call('replay', [], v):
                settled.add(sig)
                continue
            prior = None
            if n is not None:
                k = 1
                while prior is None and k <= 2 * max(1, n - 1):
                    cand = _RUNLOG[max(0, n - 1 - k):n - 1]
                    if p.call('replay', cand, v):
                        prior = cand
                    k *= 4
                tries = 0
                while prior and len(prior) > 1 and tries < 40:
                    # drop earlier runs that are not needed: halves first, then one at a time
                    for cand in ([prior[len(prior) // 2:], prior[:len(prior) // 2]] if len(prior) > 3 else []) + \
                            [prior[:j] + prior[j + 1:] for j in range(len(prior))]:
                        tries += 1
                        if tries > 40:
                            break
                        if p.call('replay', cand, v):
                            prior = cand
                            break
                    else:
                        break
        except pristine.PristineError as e:
            ctx.notes.append('confirmation of %s in a new process failed: %s' % (sig, str(e)[-160:]))
            continue
        dependent[sig] = dependent.get(sig, 0) + 1
        v['signature'] = _history_sig(sig)
        if prior:
            case['prior'] = prior
            v['what'] += ' - only after %d earlier main() run(s) in the same process (in the replay); alone, in a new ' \
                         'process, the run is right' % len(prior)
        else:
            v['what'] += ' - NOT reproduced by the run alone in a new process, nor after the runs that preceded it: ' \
                         'it depends on process state the replay does not rebuild'
    for v in ctx.violations:
        v['case'].pop('_runs_before', None)


# ---------------------------------------------------------------------------------------- raw
def _raw(ctx):
    rng = ctx.rng('raw')
    drv = ctx.driver('drv_c20')
    n = 400 if ctx.tier == 'quick' else 5000
    for it in range(n):
        mode = rng.choice(['valid', 'valid', 'valid', 'range', 'bad', 'short'])
        lun = rng.choice([None, 0, 1, 2, 3, rng.randrange(0, 256)])
        netfn = rng.choice([0, 6, 0x0a, 0x2c, 0x3f, rng.randrange(0, 256)])
        bs = [rng.randrange(256) for _ in range(rng.choice([1, 1, 2, 3, 8, 40]))]
        words = []
        if lun is not None:
            words += ['lun', lit(lun, rng.choice(KINDS0))[0]]
        words.append(lit(netfn, rng.choice(KINDS0))[0])
        words += [lit(b, rng.choice(KINDS0))[0] for b in bs]
        if mode == 'range':
            i = rng.randrange(len(bs))
            words[-len(bs) + i] = rng.choice(['256', '0x100', '-1', '1000'])
        elif mode == 'bad':
            i = rng.randrange(len(words))
            if words[i] != 'lun':
                words[i] = rng.choice(BAD_LITS)
        elif mode == 'short':
            words = words[:rng.choice([0, 1, 2])] if lun is None else words[:rng.choice([1, 2, 3])]
        profile = rng.choice(['full', 'full', 'minimal'])
        faults = {0: ('cc', rng.randrange(1, 256))} if rng.random() < 0.2 else None
        argv = ['raw'] + words
        case = {'kind': 'raw', 'argv': argv, 'profile': profile,
                'faults': sorted((k, list(v)) for k, v in (faults or {}).items())}
        o = run_cli(argv, profile, faults)
        m = drv.ask('raw ' + encs(words))
        ctx.case(tuple(argv) + (profile, str(faults)), nontrivial=True)
        ctx.count('raw:' + mode)
        ctx.count('raw:model:' + m.split(' ')[0])
        if m == 'usage':
            if o.requests or o.exit != ('return',):
                ctx.disagree('raw', case, m, str((o.exit, o.requests)))
            continue
        if m.startswith('raise '):
            if not (o.exit[0] == 'raise' and o.exit[1] == m.split(' ')[1]) or o.requests:
                ctx.disagree('raw', case, m, str((o.exit, o.requests)))
            if mode == 'valid':
                ctx.violate('C20:raw:rejected', 'raw rejects a well-formed request', case, expected='request sent',
                            observed=str(o.exit))
            continue
        _, mlun, mnf, mhex = m.split(' ')
        got = o.requests
        if got != [(int(mlun), int(mnf), '' if mhex == '-' else mhex)]:
            ctx.disagree('raw', case, m, str(got))
        # expected reply: the stub's answer to this very request (fresh identical BMC)
        b2 = Bmc20(profile, faults)
        rsp = b2.handle(int(mlun), int(mnf), bytes.fromhex('' if mhex == '-' else mhex))
        printed = dec(drv.ask('hex ' + lean.hexs(rsp)))
        if o.stdout != printed + '\n' or o.exit != ('return',):
            ctx.disagree('raw-output', case, printed, str((o.exit, o.stdout)))
        if mode == 'valid':
            # ---- property: exactly the given LUN, NetFn and bytes; exactly the reply bytes in hex
            want = (lun if lun is not None else 0, netfn, bytes(bs).hex())
            if got != [want]:
                ctx.violate('C20:raw:request', 'raw does not send exactly the given LUN / NetFn / bytes', case,
                            expected=[want], observed=got)
            back = drv.ask('unhex ' + enc(o.stdout.rstrip('\n')))
            if back != 'ok ' + lean.hexs(rsp):
                ctx.violate('C20:raw:output', 'raw does not print exactly the reply bytes in hex', case,
                            expected=lean.hexs(rsp), observed=o.stdout[:200])
            # and the same request as the API call
            a_out, a_reqs, _ = run_api(lambda i: i.raw_command(want[0], netfn, bytes(bs)), profile=profile, faults=faults)
            if a_reqs != got:
                ctx.violate('C20:requests:raw', 'raw issues another request than Ipmi.raw_command', case,
                            expected=a_reqs, observed=got)
        if it < 2:
            ctx.sample({'argv': argv, 'model': m, 'stdout': o.stdout.strip()})


# ------------------------------------------------------------------------------------- lookup
def _lookup(ctx, snap):
    rng = ctx.rng('lookup')
    drv = ctx.driver('drv_c20')
    names = [c['name'] for c in snap['commands']]
    vocab = sorted(set(w for n in names for w in n.split(' '))) + ['x', '', 'info extra', 'bmc info', '-t']
    n = 300 if ctx.tier == 'quick' else 4000
    cases = []
    for i, nm in enumerate(names):
        toks = nm.split(' ')
        cases.append(toks)
        cases.append(toks + ['tail', '-v'])
        cases.append(toks[:-1])
        cases.append([nm])                   # one word containing blanks: ' '.join makes it match
        cases.append([toks[0], ' '.join(toks[1:])] if len(toks) > 1 else [toks[0] + ' '])
    for _ in range(n):
        cases.append([rng.choice(vocab) for _ in range(rng.choice([1, 2, 3, 4]))])
    for args in cases:
        if not args or args[0].startswith('-'):
            continue
        o = run_cli(args, 'minimal')
        m = drv.ask('lookup ' + encs(args))
        ctx.case(('lookup',) + tuple(args), nontrivial=o.launch is not None)
        ctx.count('lookup:' + m.split(' ')[0])
        if m == 'none':
            if o.launch is not None or o.exit != ('exit', 1):
                ctx.disagree('lookup', {'kind': 'lookup', 'argv': args}, m, str((o.launch, o.exit)))
        else:
            t = m.split(' ')
            rest = [] if t[2] == '.' else [dec(x) for x in t[2].split(';')]
            if o.launch is None or (o.launch['entry'], o.launch['args']) != (int(t[1]), rest):
                ctx.disagree('lookup', {'kind': 'lookup', 'argv': args}, m, str((o.launch, o.exit)))


# --------------------------------------------------------------------------------------- ints
def _ints(ctx):
    rng = ctx.rng('ints')
    drv = ctx.driver('drv_c20')
    n = 1500 if ctx.tier == 'quick' else 30000
    alpha = '0011223456789abfxXoObB_+- \t'
    strs = list(BAD_LITS) + ['0', '00', '0_0', '-0', '+0x1f', '0x_1f', '0_x1', ' 0b101 ', '1_000', '0o17', '0O17', '0B1',
                              '0xAbC', '٣', '\x1f7\x1f', '7\xa0', '  7', '7\x00']
    for v in (0, 1, 9, 10, 255, 256, 65535, 2 ** 64):
        for k in KINDS0 + ['lead0']:
            strs.append(lit(v, k)[0])
    for _ in range(n):
        strs.append(''.join(rng.choice(alpha) for _ in range(rng.choice([1, 2, 3, 4, 5, 7]))))
    lines = []
    for s in strs:
        lines.append('int0 ' + enc(s))
        lines.append('int10 ' + enc(s))
    res = drv.ask_many(lines)
    for i, s in enumerate(strs):
        if any(ord(c) > 127 and c.isdigit() for c in s):
            ctx.count('int:unicode-digit-skipped')
            continue
        for j, base in ((0, 0), (1, 10)):
            try:
                want = 'ok %d' % int(s, base)
            except ValueError:
                want = 'ValueError'
            got = res[2 * i + j]
            ctx.case(('int', base, s), nontrivial=want != 'ValueError')
            ctx.count('int%d:%s' % (base, want.split(' ')[0]))
            if got != want:
                ctx.disagree('int', {'kind': 'int', 's': s, 'base': base}, got, want)


# ----------------------------------------------------------------------------- iface options
def _ifopts(ctx):
    import pyipmi.ipmitool as T
    rng = ctx.rng('ifopts')
    drv = ctx.driver('drv_c20')
    n = 300 if ctx.tier == 'quick' else 3000
    for _ in range(n):
        iface = rng.choice(['aardvark', 'ipmitool', 'ipmbdev', 'rmcp', 'mock', 'x'])
        parts = []
        for _ in range(rng.choice([0, 1, 2, 3, 4])):
            k = rng.choice(['serial', 'pullups', 'power', 'fastmode', 'interface_type', 'cipher', 'port', 'foo', ''])
            v = rng.choice(['on', 'off', 'On', '1', 'a=b', '', '/dev/x'])
            parts.append(k + '=' + v if rng.random() < 0.93 else k)
        s = ','.join(parts)
        with _quiet():
            try:
                d = T.parse_interface_options(iface, s if rng.random() < 0.9 else [])
                code = 'ok ' + (';'.join('%s=%s' % (k, show_val(v)) for k, v in d.items()) or '-')
            except ValueError:
                code = 'ValueError'
        m = drv.ask('ifopts %s %s' % (enc(iface), enc(s)))
        m2 = drv.ask('ifopts %s L' % enc(iface))
        ctx.case(('ifopts', iface, s), nontrivial=bool(parts))
        ctx.count('ifopts:' + code.split(' ')[0])
        if m != code and not (code == 'ok -' and m2 == 'ok -' and m == code):
            # the `[]` variant is only generated through the default; compare the string variant
            with _quiet():
                try:
                    d = T.parse_interface_options(iface, s)
                    code = 'ok ' + (';'.join('%s=%s' % (k, show_val(v)) for k, v in d.items()) or '-')
                except ValueError:
                    code = 'ValueError'
            if m != code:
                ctx.disagree('ifopts', {'kind': 'ifopts', 'iface': iface, 's': s}, m, code)


# -------------------------------------------------------- -b <channel> on the real rmcp / ipmitool interfaces
# "Set target channel": with -t T (default 20h) and -b B and no explicit -r the request must reach the controller T
# behind the BMC over channel B.  Reference (IPMI v2.0): IPMB request framing (figure 2 of the IPMB spec / §13.8:
# rsSA, netFn/rsLUN, chk1, rqSA, rqSeq/rqLUN, cmd, data, chk2) and Send Message (§22.7: NetFn App 06h, cmd 34h,
# data byte 1 [3:0] channel number, then the encapsulated request).  The ipmitool interface must hand `-t T -b B`
# to the external ipmitool (its documented options for exactly this).
GET_DEVICE_ID_RSP = [0x00, 0x12, 0x81, 0x01, 0x23, 0x02, 0xbf, 0x98, 0x3a, 0x00, 0x34, 0x12]


def _cks_ok(bs):
    return sum(bs) & 0xff == 0


def ref_parse_ipmb(frame):
    """-> (channels bridged over, rsSA, netfn, lun, cmd, data) of the innermost request | ('malformed', why)"""
    f = list(frame)
    chans = []
    while True:
        if len(f) < 7:
            return ('malformed', 'short frame %s' % bytes(f).hex())
        if not _cks_ok(f[0:3]) or not _cks_ok(f[3:]):
            return ('malformed', 'checksum of %s' % bytes(f).hex())
        rs, netfn, lun, cmd, data = f[0], f[1] >> 2, f[1] & 3, f[5], f[6:-1]
        if netfn == 0x06 and cmd == 0x34 and data:
            chans.append(data[0] & 0x0f)
            f = data[1:]
            continue
        return (chans, rs, netfn, lun, cmd, data)


def rmcp_wire(target, routing, lun, netfn, raw):
    """the Target main() built, encoded by the REAL Rmcp interface (only the datagram write is replaced)"""
    import pyipmi
    from pyipmi.interfaces.rmcp import Rmcp

    class Stop(Exception):
        pass
    got = []
    t = pyipmi.Target(target)
    if routing is not None:
        t.set_routing([tuple(h) for h in routing])
    r = Rmcp()
    r._drain_socket = lambda: None

    def grab(data, *a, **k):
        got.append(bytes(bytearray(data)))
        raise Stop()
    r._send_ipmi_msg = grab
    with _quiet():
        try:
            r.send_and_receive_raw(t, lun, netfn, bytes(bytearray(raw)))
        except Stop:
            pass
        except Exception as e:  # noqa
            return ('raise', type(e).__name__)
    return got[0] if got else ('raise', 'nothing sent')


def run_real_ipmitool(argv):
    """main() unsubstituted with -I ipmitool; only the process launch is replaced -> (exit, [command lines], stdout)"""
    import pyipmi.ipmitool as T
    from pyipmi.interfaces.ipmitool import Ipmitool
    cmds = []

    def fake_run(cmd):
        cmds.append(cmd)
        return (' ' + ' '.join('%02x' % b for b in GET_DEVICE_ID_RSP[1:]) + '\n').encode(), 0
    real = Ipmitool.__dict__['_run_ipmitool']
    real_json = T.json_output
    Ipmitool._run_ipmitool = staticmethod(fake_run)
    T.json_output = False
    try:
        with _quiet() as out:
            sys.argv = ['ipmitool.py'] + list(argv)
            try:
                T.main()
                ex = ('return',)
            except SystemExit as e:
                ex = ('exit', 0 if e.code is None else e.code)
            except BaseException as e:  # noqa
                ex = ('raise', type(e).__name__, str(e)[:200])
            text = out.getvalue()
    finally:
        Ipmitool._run_ipmitool = real
        T.json_output = real_json
    return ex, cmds, text


def _ipmitool_opts(cmd):
    """-t / -b / -T / -B of an ipmitool command line -> dict"""
    t = cmd.split(' ')
    d = {}
    for i, w in enumerate(t[:-1]):
        if w in ('-t', '-b', '-T', '-B'):
            try:
                d[w] = int(t[i + 1], 0)
            except ValueError:
                d[w] = t[i + 1]
    return d


def bridge_findings(case, o=None):
    """the reference's judgement of one -t/-b/-r combination -> [(signature, what, expected, observed)]"""
    words, T_, B, R = case['words'], case['T'], case['B'], case['R']
    tgt = 0x20 if T_ is None else T_
    out = []
    if o is None:
        o = run_cli(words + ['raw', '6', '1'])
    if o.launch is None:
        return [('C20:option:not-launched', 'a valid option vector does not reach the handler', 'handler started',
                 str(o.exit))]
    L = o.launch
    if R is not None:
        want_path = ([h[2] for h in R[:-1]], R[-1][1])
        sig, optname = 'C20:option:-r', '-r'
    elif B is not None:
        want_path = ([B], tgt)
        sig, optname = 'C20:option:-b', '-b'
    else:
        want_path = ([], tgt)
        sig, optname = 'C20:option:-t', '-t'
    want = (want_path[0], want_path[1], 0x06, 0, 0x01, [])
    # --- rmcp: the frame put into the RMCP packet
    fr = rmcp_wire(L['target'], L['routing'], 0, 0x06, [0x01])
    got = ref_parse_ipmb(fr) if isinstance(fr, bytes) else fr
    if got != want:
        out.append((sig, 'option %s does not take effect on the rmcp interface: the request does not reach slave address '
                    '%02Xh over channel(s) %s' % (optname, want_path[1], want_path[0]),
                    'IPMB frame: Send Message over channels %s around a request to rsSA %02Xh, NetFn 06h cmd 01h' % (
                        want_path[0], want_path[1]),
                    '%s = %r' % (fr.hex() if isinstance(fr, bytes) else fr, got)))
    # --- ipmitool: the command line handed to the external tool (2-hop paths only: `-t <addr> -b <channel>`)
    if len(want_path[0]) <= 1:
        ex, cmds, text = run_real_ipmitool(['-I', 'ipmitool', '-H', '10.0.0.1', '-U', 'admin', '-P', 'pw'] + words +
                                           ['raw', '6', '1'])
        d = _ipmitool_opts(cmds[0]) if cmds else None
        wd = {'-t': want_path[1]}
        if want_path[0]:
            wd['-b'] = want_path[0][0]
        okd = d == wd or (not want_path[0] and want_path[1] == 0x20 and d == {})
        if ex != ('return',) or len(cmds) != 1 or not okd or ' raw 0x06 0x01' not in cmds[0]:
            out.append((sig, 'option %s does not take effect on the ipmitool interface: the external ipmitool is not told '
                        'to reach slave address %02Xh%s' % (optname, want_path[1], (' over channel %d' % want_path[0][0])
                                                            if want_path[0] else ''),
                        'one ipmitool run with %s … raw 0x06 0x01' % ' '.join(
                            '%s %s' % (k, v) for k, v in sorted(wd.items())),
                        '%s %r' % (ex, cmds[:2])))
    return out


def gen_bridge_cases(rng, n):
    cases = []
    orders = ['b', 'tb', 'bt', 'tb', 'bt', 'br', 'tbr', 'btr', 't', 'r', '']
    for i in range(n):
        order = orders[i % len(orders)]
        T_ = rng.choice([0x82, 0x72, 0x8e, 0x20, rng.randrange(1, 128) * 2]) if 't' in order else None
        B = rng.choice([0, 7, rng.randrange(1, 16)]) if 'b' in order else None
        R = [(0x81, 0x20, rng.randrange(0, 16)), (0x20, rng.choice([0x82, 0x72, 0x84]), None)] if 'r' in order else None
        words = []
        for c in order:
            form = rng.choice(['sep', 'glued'])
            if c == 't':
                a = lit(T_, rng.choice(['dec', 'hex', 'HEX']))[0]
            elif c == 'b':
                a = lit(B, rng.choice(['dec', 'hex']))[0]
            else:
                a = repr(R)
            words += ['-' + c, a] if form == 'sep' else ['-' + c + a]
        cases.append({'kind': 'bridge', 'words': words, 'argv': words + ['raw', '6', '1'], 'T': T_, 'B': B,
                      'R': None if R is None else [list(h) for h in R]})
    return cases


def _bridge(ctx):
    rng = ctx.rng('bridge')
    drv = ctx.driver('drv_c20')
    n = 44 if ctx.tier == 'quick' else 440
    directed = [{'kind': 'bridge', 'words': ['-t', '0x82', '-b', '7'], 'argv': ['-t', '0x82', '-b', '7', 'raw', '6', '1'],
                 'T': 0x82, 'B': 7, 'R': None}]
    for case in directed + gen_bridge_cases(rng, n):
        if case['R'] is not None:
            case['R'] = [tuple(h) for h in case['R']]
        o = run_cli(case['argv'])
        line = drv.ask('main ' + encs(case['argv']))
        ctx.case(('bridge',) + tuple(case['argv']), nontrivial=case['B'] is not None)
        ctx.count('bridge:%s' % ''.join(w[1] for w in case['words'] if w.startswith('-') and len(w) >= 2 and w[1] in 'tbr'))
        jcase = dict(case, R=None if case['R'] is None else [list(h) for h in case['R']])
        if line.startswith('launch '):
            compare_launch(ctx, jcase, line, o)
        else:
            ctx.disagree('main', jcase, line, str(o.exit))
        for sig, what, exp, got in bridge_findings(case, o):
            ctx.violate(sig, what, jcase, expected=exp, observed=got)


# ------------------------------------------------------------ aardvark interface options on the adapter
# usage(): pullups=<on|off> "Enable/disable pullups", power=<on|off> "Enable/disable target power", fastmode=<on|off>.
# main() unsubstituted with -I aardvark; only the pyaardvark module (the USB adapter) is a recording fake with a BMC
# at 20h on the bus that answers Get Device ID.
AARDVARK_ATTR = {'pullups': 'i2c_pullups', 'power': 'target_power', 'fastmode': 'i2c_bitrate'}


class _FakeAdapter(object):
    def __init__(self):
        object.__setattr__(self, 'writes', [])
        object.__setattr__(self, 'pending', None)

    def __setattr__(self, name, value):
        self.writes.append((name, value))
        object.__setattr__(self, name, value)

    def enable_i2c_slave(self, addr):
        pass

    def close(self):
        pass

    def i2c_master_write(self, i2c_addr, data):
        d = list(bytearray(data))        # netFn/rsLUN, chk1, rqSA, rqSeq/rqLUN, cmd, data, chk2
        rs_sa = i2c_addr << 1
        netfn, rs_lun = d[0] >> 2, d[0] & 3
        rq_sa, seq, rq_lun, cmd = d[2], d[3] >> 2, d[3] & 3, d[4]
        body = GET_DEVICE_ID_RSP if (netfn, cmd) == (6, 1) else [0xc1]
        h = [rq_sa, ((netfn | 1) << 2) | rq_lun]
        h.append((-sum(h)) & 0xff)
        t = [rs_sa, (seq << 2) | rs_lun, cmd] + body
        t.append((-sum(t)) & 0xff)
        object.__setattr__(self, 'pending', (rq_sa >> 1, bytes(bytearray(h[1:] + t))))

    def poll(self, timeout):
        return [1] if self.pending else []

    def i2c_slave_read(self):
        p = self.pending
        object.__setattr__(self, 'pending', None)
        return p


class _FakePyaardvark(object):
    def __init__(self):
        self.dev = None

    def open(self, port=None, serial_number=None):
        self.dev = _FakeAdapter()
        return self.dev


def run_real_aardvark(argv):
    import pyipmi.ipmitool as T
    import pyipmi.interfaces.aardvark as A
    fake = _FakePyaardvark()
    real, real_json = A.pyaardvark, T.json_output
    A.pyaardvark = fake
    T.json_output = False
    try:
        with _quiet() as out:
            sys.argv = ['ipmitool.py'] + list(argv)
            try:
                T.main()
                ex = ('return',)
            except SystemExit as e:
                ex = ('exit', 0 if e.code is None else e.code)
            except BaseException as e:  # noqa
                ex = ('raise', type(e).__name__, str(e)[:200])
            text = out.getvalue()
    finally:
        A.pyaardvark = real
        T.json_output = real_json
    return ex, (list(fake.dev.writes) if fake.dev is not None else None), text


def aardvark_case(vals, order):
    """vals: option -> 'on' | 'off' | None"""
    s = ','.join('%s=%s' % (k, vals[k]) for k in order if vals[k] is not None)
    argv = ['-I', 'aardvark'] + (['-o', s] if s else []) + ['raw', '6', '1']
    return {'kind': 'aardvark', 'argv': argv, 'vals': dict(vals)}


def aardvark_findings(case, run=None):
    ex, writes, text = run or run_real_aardvark(case['argv'])
    out = []
    if ex != ('return',) or writes is None or text.strip() != ' '.join('%02x' % b for b in GET_DEVICE_ID_RSP):
        first = next((k for k in ('pullups', 'power', 'fastmode') if case['vals'][k] is not None), 'none')
        return [('C20:ifopt:aardvark:%s=%s:run' % (first, case['vals'].get(first)),
                 'a run with documented aardvark interface options does not complete / print the reply',
                 'return, reply of Get Device ID printed', '%s %r' % (ex, text[-120:]))]
    for k in ('pullups', 'power', 'fastmode'):
        v = case['vals'][k]
        got = [x for n, x in writes if n == AARDVARK_ATTR[k]]
        if k == 'fastmode':
            want = None if v is None else [400 if v == 'on' else 100]
            got = got[-1:]
        else:
            want = [] if v is None else [v == 'on']
        if want is not None and got != want:
            out.append(('C20:ifopt:aardvark:%s=%s' % (k, v),
                        'aardvark interface option %s=%s does not take effect: the adapter is not written as given' % (k, v),
                        '%s written: %r' % (AARDVARK_ATTR[k], want), 'adapter writes %r' % (writes,)))
    return out


def _aardvark(ctx):
    rng = ctx.rng('aardvark')
    drv = ctx.driver('drv_c20')
    tok = {None: 'N', 'on': '1', 'off': '0'}
    for p in (None, 'on', 'off'):
        for w in (None, 'on', 'off'):
            for f in (None, 'on', 'off'):
                order = ['pullups', 'power', 'fastmode']
                rng.shuffle(order)
                case = aardvark_case({'pullups': p, 'power': w, 'fastmode': f}, order)
                run = run_real_aardvark(case['argv'])
                ctx.case(('aardvark',) + tuple(case['argv']), nontrivial=(p, w, f) != (None, None, None))
                ctx.count('aardvark:pullups=%s' % p)
                ctx.count('aardvark:power=%s' % w)
                ctx.count('aardvark:fastmode=%s' % f)
                model = drv.ask('aardvark %s %s %s' % (tok[p], tok[w], tok[f]))
                code = 'no-adapter' if run[1] is None else ' '.join('%s=%d' % (n, int(x)) for n, x in run[1])
                if model != code:
                    ctx.disagree('aardvark-open', case, model, code)
                for sig, what, exp, got in aardvark_findings(case, run):
                    ctx.violate(sig, what, case, expected=exp, observed=got)


# ---------------------------------------------------------------------------------------- run
def _safe_snapshot(ctx):
    """the translator's snapshot; if the source left its grammar (already recorded as a broken tie by
    the runner) a reduced one from the live table, so that the real code is still exercised"""
    if _snap is not None:
        return _snap
    try:
        return tcli.snapshot()
    except lean.TieBroken as e:
        ctx.notes.append('translator failed (%s): table facts reduced to the live entry names; the driver is the '
                         'last model that built' % e)
        return {'commands': [{'name': n, 'handler': '?', 'refs': []} for n in live_table()], 'api': [],
                'reduced': True}


def _probe(ctx):
    """the executable hypotheses of the Props theorems, evaluated by the driver on today's source"""
    line = ctx.driver('drv_c20').ask('probe')
    d = dict(t.split('=', 1) for t in line.split(' '))
    d['catch'] = dict((dec(a), b) for a, b in (e.split(':') for e in d['catch'].split(';'))) if d['catch'] != '-' else {}
    reads = ctx.driver('drv_c20').ask('sensorreads')
    d['sensorReads'] = ' '.join('%s:%s' % (dec(t.split(':')[0]), t.split(':', 1)[1]) if ':' in t else t
                                for t in reads.split(' '))
    ctx.extra['source_variant'] = d
    holds = {
        'all_errors_exit_nonzero / main_reports_every_failure: exitsCover': d['escaping'] == '-',
        'main_reports_every_failure: closeInside': d['closeInside'] == '1',
        'numeric_arguments_accept_hex: base10Args = []': d['int10'] == '-' and d['optint10'] == '-',
        'channel_option_takes_effect: MainShape.bridge (bridging statement after the option loop)': d.get('bridge') == '1',
        'aardvark_options_take_effect: pullupsNotNone, powerNotNone': d.get('pullupsNN') == '1' and d.get('powerNN') == '1',
        'portstate_no_python_error: linkNoneGuard': d['link'] == '1',
        'sdr_show_no_python_error: idStringGuard, entityGuard': d['idstr'] == '1' and d['entity'] == '1',
        'sdr_show_state_no_python_error: stateNoneGuard': d['state'] == '1',
        'sensor_reads_today: full branch of sdr show / showall passes owner_lun, the others no LUN, default 0':
            reads == ('%s:1:D %s:2:D %s:1:O %s:2:D %s:1:O %s:2:D default=0' % tuple(
                enc(c) for c in ('sdr list', 'sdr list', 'sdr show', 'sdr show', 'sdr showall', 'sdr showall'))),
        # evaluated twice: by the driver (Model.catchesConversion on Gen.Cli.handlers) and here on the class names
        'sensor_values_no_python_error: catchesConversion (ValueError, ArithmeticError, DecodingError or wider)':
            d['conv'] == '1' and bool(d['catch']) and all(_catches_conversion(v.split('+')) for v in d['catch'].values()),
    }
    ctx.extra['theorem_hypotheses_on_this_source'] = holds
    py_conv = bool(d['catch']) and all(_catches_conversion(v.split('+')) for v in d['catch'].values())
    if (d['conv'] == '1') != py_conv:
        ctx.disagree('probe:catchesConversion', {}, d['conv'], '%s on %s' % (py_conv, d['catch']))
    for k, v in holds.items():
        ctx.count('hypothesis:%s:%s' % (k.split(':')[0], 'holds' if v else 'FAILS'))
    return d


def _catches_conversion(classes):
    """the except classes between convert_sensor_raw_to_value and main cover what the conversion of a reading /
    threshold of a conforming full sensor record raises: ValueError (ln, log, sqrt), ZeroDivisionError (1/x),
    pyipmi.errors.DecodingError (`lin` of a non-linear sensor, 70h..7Fh)"""
    c = set(classes)
    if c & {'Exception', 'BaseException'}:
        return True
    return 'ValueError' in c and bool(c & {'ArithmeticError', 'ZeroDivisionError'}) and 'DecodingError' in c


def _family(sig):
    """signatures that are the same kind of defect seen through different entries"""
    t = sig.split(':')
    if sig.startswith('C20:python-error:') and len(t) >= 4:
        if t[3] == 'ValueError':
            return 'python-error:literal'
        what = t[2].split(' ')[0]
        return 'python-error:%s:%s' % ('option' if what == 'option' else 'picmg' if what == 'picmg' else
                                       'sdr' if what == 'sdr' else 'other', t[3])
    return sig


def _one_of_each_first(ctx):
    """the runner prints the first eight distinct signatures: put one violation of every kind of defect first"""
    seen, first, rest = set(), [], []
    for v in ctx.violations:
        f = _family(v['signature'])
        if f in seen:
            rest.append(v)
        else:
            seen.add(f)
            first.append(v)
    ctx.violations[:] = first + rest


def run(ctx):
    _pristine(ctx)           # forked now: this process has not run main() yet
    snap = _safe_snapshot(ctx)
    _histories(ctx)
    first = len(ctx.violations)
    plain_violate = ctx.violate

    def violate(signature, what, case, expected=None, observed=None):
        plain_violate(signature, what, dict(case, _runs_before=len(_RUNLOG)), expected=expected, observed=observed)
    ctx.violate = violate
    try:
        unresolved_names = _table_facts(ctx, snap)
        _probe(ctx)
        _lin_tie(ctx)
        _ints(ctx)
        _lookup(ctx, snap)
        _ifopts(ctx)
        _options(ctx)
        _bridge(ctx)
        _aardvark(ctx)
        _raw(ctx)
        _entries(ctx, snap, unresolved_names)
    finally:
        ctx.violate = plain_violate
        _confirm_single_runs(ctx, first)
        _one_of_each_first(ctx)
        try:
            os.remove(_hpm_small())         # scratch file; the replay writes it again
        except OSError:
            pass
    ctx.extra['table_entries'] = len(snap['commands'])
    ctx.extra['api_methods'] = len(snap['api'])
    ctx.extra['observations'] = dict((k, v) for k, v in ctx.dist.items() if str(k).startswith('obs:'))


def search(ctx):
    """A tie broke and run() produced no concrete violation: promote disagreements the property decides."""
    # Props/C20.table_is_intended (today's table = the intended one) / table_resolves stopped building: the failing
    # input is the entry whose method reference does not resolve.  run()'s _table_facts reports it (then search is not
    # called at all); this is the same oracle on a fresh snapshot for the case that run() ended before it got there.
    if any(k == 'build' and ('table_is_intended' in d or 'table_resolves' in d or 'chassis_power_codes' in d)
           for k, d in ctx.broken) or not ctx.lean_ok:
        try:
            snap = _safe_snapshot(ctx)
            for i, j, name, meth, exc in python_unresolved(snap):
                argv = name.split(' ') + _witness_args(name)
                o = run_cli(argv)
                ctx.violate('C20:table_resolves:%s:%s' % (name, meth),
                            'entry %r calls ipmi.%s, which %s' % (
                                name, meth, 'does not exist on pyipmi.Ipmi' if exc == 'AttributeError'
                                else 'cannot be called with the arguments the handler passes'),
                            {'kind': 'resolve', 'argv': argv, 'entry': name, 'method': meth, 'ref': j},
                            expected='the call resolves (no %s)' % exc, observed=str(o.exit))
        except Exception as e:  # noqa
            ctx.notes.append('search: table oracle could not run: %s' % type(e).__name__)
    for d in ctx.disagreements:
        c = d.get('case') or {}
        if d['what'] in ('raw', 'raw-output') and c.get('argv'):
            ctx.violate('C20:raw:model', 'raw differs from its proved model (request / output / exit)', c,
                        expected=d['model'], observed=d['code'])
            d['explained_by'] = 'raw'
        elif d['what'] in ('main', 'main/launch') and c.get('argv'):
            ctx.violate('C20:main:model', 'option parsing / dispatch differs from its proved model', c,
                        expected=d['model'], observed=d['code'])
            d['explained_by'] = 'main'
        elif d['what'] == 'exit' and c.get('argv'):
            ctx.violate('C20:exit:model', 'exit status / message differs from the except clauses', c,
                        expected=d['model'], observed=d['code'])
            d['explained_by'] = 'exit'
        elif d['what'] == 'sensor-read' and c.get('argv'):
            ctx.violate('C20:handler:sensor-read', 'a printing handler sends Get Sensor Reading to another (LUN, number) than '
                        'the model of its get_sensor_reading calls', c, expected=d['model'], observed=d['code'])
            d['explained_by'] = 'handler'
        elif d['what'] in ('handler', 'literal') and c.get('argv'):
            ctx.violate('C20:handler:model', 'a handler differs from its model (int() conversions / optional API results)',
                        c, expected=d['model'], observed=d['code'])
            d['explained_by'] = 'handler'
        elif d['what'] == 'lookup' and c.get('argv'):
            ctx.violate('C20:lookup:model', 'command lookup differs from first-matching-prefix', c,
                        expected=d['model'], observed=d['code'])
            d['explained_by'] = 'lookup'


def replay(ctx, v):
    _hpm_small()            # the image file an `hpm` argument vector names
    case = v['case']
    kind = case.get('kind')
    argv = case.get('argv', [])
    faults = dict((int(k), tuple(f)) for k, f in case.get('faults', []))
    profile = case.get('profile', 'full')
    sig = v['signature']
    if kind == 'history':
        runs = case['runs']
        p = _pristine(ctx)      # forked before this process runs anything: every run alone, for the independence oracle
        alone = [p.call('runs', _strip([r]))[0] for r in runs] if p is not None else None
        obs = exec_runs(_strip(runs))
        found = history_findings(runs, obs, alone)
        bad = dict((f[0], f) for f in reversed(found))
        for k, (r, ob) in enumerate(zip(runs, obs)):
            print('run %d: %r faults=%s' % (k, r['argv'], r.get('faults')))
            print('    exit %s, session %s' % (ob['exit'], ob['session']))
            print('    launched with %s' % (json.dumps(ob['launch']),))
            print('    requests %s' % (ob['requests'][:6],))
            if k in bad:
                print('    WRONG: %s: %s' % (bad[k][1], bad[k][2]))
                print('      expected %s' % bad[k][3])
                print('      observed %s' % bad[k][4])
        return bool(found)
    if case.get('prior'):
        print('%d earlier main() run(s) in this process:' % len(case['prior']))
        for r in case['prior']:
            print('    %r faults=%s' % (r['argv'], r.get('faults')))
            run_cli(r['argv'], r.get('profile', 'full'), _faults_of(r))
        if sig.startswith('C20:history:'):
            sig = 'C20:' + sig[len('C20:history:'):]
            v = dict(v, signature=sig, case=dict((k, x) for k, x in case.items() if k != 'prior'))
            case = v['case']
    o = run_cli(argv, profile, faults or None)
    print('argv: %r  profile=%s faults=%s' % (argv, profile, faults))
    print('  exit: %s' % (o.exit,))
    print('  launched: %s' % (json.dumps(o.launch) if o.launch else None))
    print('  requests: %s' % o.requests[:10])
    print('  stdout tail: %r' % o.stdout[-160:])
    print('  expected: %s' % (v.get('expected'),))
    c2 = ctx.__class__('C20', 'quick', 0)
    snap = _safe_snapshot(c2)
    names = [c['name'] for c in snap['commands']]
    if kind == 'resolve':
        hit = [u for u in python_unresolved(snap) if (u[2], u[3]) == (case['entry'], case['method'])]
        print('  resolution of ipmi.%s in %r: %s' % (case['method'], case['entry'], hit[0][4] if hit else 'ok'))
        return bool(hit) or (o.exit[0] == 'raise' and o.exit[1] in PY_ERR_OF_RESOLUTION)
    if kind in ('entry', 'fault'):
        name = case['entry']
        if name not in names:
            print('  entry %r is no longer in the table' % name)
            return True
        if sig == 'C20:requests:picmg channel power':
            return not (len(o.requests) == 1 and o.requests[0][1] == 0x2c and o.requests[0][2].startswith('240002'))
        specs = entry_specs()
        shapes, api = specs[name]
        words = argv[len(name.split(' ')):]
        vals = []
        for w in words:
            try:
                vals.append(int(w, 0))
            except ValueError:
                try:
                    vals.append(int(w))
                except ValueError:
                    pass
        c2._drivers = ctx._drivers
        un = set(u[2] for u in python_unresolved(snap))
        c2.driver('drv_c20')
        ctx._drivers = c2._drivers
        o2 = judge_entry_run(c2, name, names.index(name), argv, api(vals) if api else None, profile, faults or None, un,
                             kind)
        for x in c2.violations:
            print('  ' + x['what'])
        if sig in ('C20:handler:sensor-read', 'C20:handler:model') and not faults:
            # model-based signatures: does the run still differ from the model of the handlers?
            c2.disagreements = []
            tie_sensor_reads(c2, name, vals, argv, profile, o2)
            if sig == 'C20:handler:model':
                tie_python_error(c2, name, vals, argv, profile, o2)
            for d in c2.disagreements:
                print('  model: %s\n  code:  %s' % (d['model'], d['code']))
            return bool(c2.disagreements)
        return any(x['signature'] == sig for x in c2.violations)
    if kind == 'chassis':
        c2._drivers = ctx._drivers
        c2.driver('drv_c20')
        ctx._drivers = c2._drivers
        _table_facts(c2, snap)
        return any(x['signature'] == sig for x in c2.violations)
    if kind == 'bridge':
        c = dict(case, R=None if case.get('R') is None else [tuple(h) for h in case['R']])
        found = bridge_findings(c, o)
        for f in found:
            print('  WRONG: %s\n    expected %s\n    observed %s' % (f[1], f[2], f[3]))
        return any(f[0] == sig for f in found)
    if kind == 'aardvark':
        found = aardvark_findings(case)
        print('  real Aardvark interface over a recording adapter: %r' % (run_real_aardvark(argv)[1],))
        for f in found:
            print('  WRONG: %s\n    expected %s\n    observed %s' % (f[1], f[2], f[3]))
        return any(f[0] == sig for f in found)
    if kind in ('options', 'raw', 'lookup'):
        drv = ctx.driver('drv_c20')
        if kind == 'raw':
            m = drv.ask('raw ' + encs(argv[1:]))
        else:
            m = drv.ask('main ' + encs(argv))
        print('  model: %s' % m)
        exp = v.get('expected')
        obs_now = {
            'C20:raw:request': lambda: repr(o.requests) != repr([tuple(x) for x in exp]) if isinstance(exp, list) else True,
        }
        if sig in obs_now:
            return obs_now[sig]()
        if sig == 'C20:option:not-launched':
            return o.launch is None
        if sig.startswith('C20:python-error:option '):
            return o.exit[0] == 'raise' and o.exit[1] == sig.split(':')[-1]
        if sig.startswith('C20:option:-') or sig in ('C20:option:session', 'C20:option:target-on-wire'):
            L = o.launch or {}
            got = {'t': L.get('target'), 'I': L.get('iface'), 'o': dict(L.get('opts', [])), 'r': L.get('routing'),
                   'H': L.get('session')}.get(sig[-1])
            if sig == 'C20:option:session':
                s = o.iface.session if o.iface and o.iface.session else {}
                got = (s.get('host'), s.get('port'), s.get('user'), s.get('password'), s.get('priv'))
            if sig == 'C20:option:target-on-wire':
                return bool(o.targets) and any(t != (L.get('target'), L.get('routing')) for t in o.targets)
            print('  in effect now: %r' % (got,))
            return repr(got) != exp
        if sig == 'C20:raw:output':
            back = drv.ask('unhex ' + enc(o.stdout.rstrip('\n')))
            return back != 'ok ' + str(exp)
        # model-based signatures: still differing from the model?
        if kind == 'raw':
            if m == 'usage':
                return bool(o.requests) or o.exit != ('return',)
            if m.startswith('raise '):
                return not (o.exit[0] == 'raise' and o.exit[1] == m.split(' ')[1])
            _, mlun, mnf, mhex = m.split(' ')
            if o.requests != [(int(mlun), int(mnf), '' if mhex == '-' else mhex)]:
                return True
            rsp = Bmc20(profile, faults or None).handle(int(mlun), int(mnf), bytes.fromhex('' if mhex == '-' else mhex))
            return o.stdout != dec(drv.ask('hex ' + lean.hexs(rsp))) + '\n'
        if m.startswith('launch '):
            c2.disagreements = []
            return not compare_launch(c2, case, m, o)
        code = ('exit %d' % o.exit[1]) if o.exit[0] == 'exit' else ('raise %s' % o.exit[1]) if o.exit[0] == 'raise' else 'return'
        return m != code
    print('  (no replay procedure for kind %r)' % kind)
    return True
