"""C02 — Decoding arbitrary bytes is total and strict."""
from .. import codec_common as cc
from ..lib import lean
from ..translate import registry

ID = 'C02'
TARGETS = ['PyIpmi.Props.C02', 'drv_codec']
LEVEL = 'proof'
RULE = ('for every class with a field layout: all byte strings of length <= 1, strings of length 2 (quick: seeded '
        'sample; thorough: all 65 536), every truncation and 1..3-byte extension of valid encodings, random strings '
        'up to layout length + 8, and all 255 non-OK completion codes followed by random bytes; the real decoder and '
        'the Lean model are compared on outcome class, decoded values and stop flag, and the real result is judged '
        'against the property (ok => re-encode = input; only DecodingError; cc stop).  Distinct by (class, bytes); '
        'non-trivial = non-empty input.')
ASSUMPTIONS = [
    'model of msgs/message.py + utils.ByteBuffer tied by this correspondence run; layouts regenerated from the live registry',
    '"never hangs": the model is a total structurally recursive function over the same loops; the real decoder is '
    'observed to return on every generated input (no timeout machinery is used)',
    'when the translator fails closed (a field class overrides encode/decode/create or leaves the vocabulary) the '
    'layouts are read structurally (base class + declared length, codec_common.structural_snapshot) and the real '
    'decoder is still judged against the property on all generated inputs; only the model comparison is dropped',
]
TRUSTED = ['harness/translate/registry.py', 'harness/codec_common.py']

_snap = None
_structural = False     # the translator failed closed: layouts read structurally, real code judged without the model


def _structural_snapshot(ctx):
    global _snap, _structural
    _snap, why = cc.structural_snapshot()
    _structural = True
    ctx.notes.append('translator failed closed (%s): the real decoder is judged on inputs built from the declared '
                     'layouts, without model comparison' % '; '.join(why[:3]))


def translate(ctx):
    global _snap
    try:
        _snap = registry.generate()
    except lean.TieBroken:
        _structural_snapshot(ctx)
        raise


def _inputs(fields, rng, tier, has_cc):
    out = [('len0', b'')]
    out += [('len1', bytes([b])) for b in range(256)]
    if tier == 'thorough':
        out += [('len2', bytes([a, b])) for a in range(256) for b in range(256)]
    else:
        out += [('len2', bytes([rng.randrange(256), rng.randrange(256)])) for _ in range(48)]
        out += [('len2', bytes([0, b])) for b in (0, 1, 0x7f, 0x80, 0xff)]
    valids = []
    n_opt = sum(1 for f in fields if f.wrap == 'optional')
    for mode, k in (('max', n_opt), ('boundary', None), ('random', None), ('random', n_opt), ('zero', 0)):
        valids.append(cc.assignment(fields, rng, mode, k))
    return out, valids


def _judge(ctx, idx, cls, info, kind, data, model):
    fields = info['fields']
    name = info['name']
    case = {'class': name, 'kind': kind, 'data': lean.hexs(data)}
    real = cc.decode_real(cls, fields, data)
    has_cc = fields[0].prim[0] == 'cc' and fields[0].wrap == 'plain'
    if real[0] == 'ok':
        vals = real[1]
        stopped = has_cc and vals[0][0] == 'int' and vals[0][1] != 0
        code_s = 'ok %d %s' % (1 if stopped else 0, ' '.join(cc.show(v) for v in vals))
        ctx.count('outcome:ok-stopped' if stopped else 'outcome:ok')
        # ---- property on the real code
        if stopped:
            dfl = [cc.canon_dflt(f.dflt) for f in fields]
            if vals[0][1] != data[0] or vals[1:] != dfl[1:]:
                ctx.violate('C02:cc-stop:%s' % name,
                            'non-OK completion code: %s interprets bytes after the code or reports another code' % name,
                            case, expected=[cc.show(v) for v in [('int', data[0])] + dfl[1:]],
                            observed=[cc.show(v) for v in vals])
        else:
            from pyipmi.msgs.message import encode_message
            try:
                again = bytes(bytearray(encode_message(real[2])))
            except Exception as e:  # noqa
                again = type(e).__name__
            if again != data:
                ctx.violate('C02:strict:%s' % name,
                            'decoding %s succeeds but re-encoding does not reproduce the input' % name, case,
                            expected=lean.hexs(data),
                            observed=again if isinstance(again, str) else lean.hexs(again))
    else:
        code_s = cc.model_tag(real[0])
        ctx.count('outcome:' + real[0])
        if real[0] != 'DecodingError':
            ctx.violate('C02:other-exception:%s:%s' % (name, real[0]),
                        'decoding %s fails with %s instead of DecodingError' % (name, real[0]), case,
                        expected='ok or DecodingError', observed=real[0])
        elif has_cc and len(data) > 0 and data[0] != 0:
            ctx.violate('C02:cc-stop-raises:%s' % name,
                        'a non-OK completion code makes decoding %s fail' % name, case,
                        expected='ok', observed=real[0])
    # ---- tie
    if model is not None and model.strip() != code_s.strip():
        if not (model.startswith('py:') and code_s.startswith('py:')):
            ctx.disagree('decode', case, model, code_s)


def _judge_reuse(ctx, cls, info, before, data):
    """decode_message decodes INTO a message object: decoding `data` into an object that already holds the
    result of decoding `before` must give the same as decoding into a fresh object (nothing left over)."""
    from pyipmi.msgs.message import decode_message, encode_message
    name = info['name']
    case = {'class': name, 'kind': 'reused-object', 'before': lean.hexs(before), 'data': lean.hexs(data)}
    fresh = cc.decode_real(cls, info['fields'], data)
    try:
        obj = cls()
        decode_message(obj, bytes(before))
    except Exception:  # noqa
        return
    try:
        decode_message(obj, bytes(data))
        used = ('ok', cc.get_values(obj, info['fields']), obj)
    except Exception as e:  # noqa
        used = (type(e).__name__,)
    # judged by what the property states: same outcome kind as a fresh decode, and the re-encoding below
    # (the attribute of an inactive Conditional may keep its earlier value: it is not part of the message)
    if fresh[0] != used[0]:
        ctx.violate('C02:strict-reused-object:%s' % name,
                    'decoding into a %s object that was decoded into before ends differently from decoding into a '
                    'fresh one' % name, case, expected=fresh[0], observed=used[0])
        return
    if used[0] == 'ok':
        fields = info['fields']
        has_cc = fields[0].prim[0] == 'cc' and fields[0].wrap == 'plain'
        stopped = has_cc and used[1][0][0] == 'int' and used[1][0][1] != 0
        if not stopped:
            try:
                again = bytes(bytearray(encode_message(obj)))
            except Exception as e:  # noqa
                again = type(e).__name__
            if again != data:
                ctx.violate('C02:strict-reused-object:%s' % name,
                            're-encoding a %s object decoded twice does not reproduce the last input' % name, case,
                            expected=lean.hexs(data), observed=again if isinstance(again, str) else lean.hexs(again))


def run(ctx):
    if _snap is None:
        try:
            snap = registry.snapshot()
        except lean.TieBroken as e:
            ctx.broken.append(('translator', str(e)))
            _structural_snapshot(ctx)
            snap = _snap
    else:
        snap = _snap
    drv = None
    if not _structural:
        drv = ctx.driver('drv_codec')
        if int(drv.ask('count')) != len(snap):
            ctx.disagree('registry-size', {}, drv.ask('count'), str(len(snap)))
            drv = None      # the property is still judged on the real decoder below
    rng = ctx.rng('c02')
    from pyipmi.msgs.message import encode_message  # noqa
    for idx, (cls, info) in enumerate(snap):
        if info['malformed'] or not info['fields']:
            continue
        fields = info['fields']
        has_cc = fields[0].prim[0] == 'cc'
        inputs, valids = _inputs(fields, rng, ctx.tier, has_cc)
        longest = 0
        for vals in valids:
            r = cc.encode_real(cls, fields, vals)
            if r[0] != 'ok':
                continue
            data = r[1]
            longest = max(longest, len(data))
            inputs.append(('valid', data))
            for k in range(len(data)):
                inputs.append(('truncation', data[:k]))
            for ext in (1, 2, 3):
                inputs.append(('extension', data + bytes(rng.randrange(256) for _ in range(ext))))
        # valid encodings written from the LAYOUT (not by the library's encoder): every field at the boundary
        # patterns of its width, every optional tail present
        for label, _vals, data in cc.boundary_encodings(fields, ctx.rng('c02-boundary/%s' % info['name'])):
            longest = max(longest, len(data))
            inputs.append(('boundary', data))
        for _ in range(24 if ctx.tier == 'quick' else 400):
            n = rng.randrange(0, longest + 9)
            inputs.append(('random', bytes(rng.randrange(256) for _ in range(n))))
        if has_cc:
            for c in range(1, 256):
                n = rng.randrange(0, longest + 4)
                inputs.append(('nonok-cc', bytes([c]) + bytes(rng.randrange(256) for _ in range(n))))
        if drv is not None:
            models = drv.ask_many(['dec %d %s' % (idx, lean.hexs(d)) for _, d in inputs])
        else:
            models = [None] * len(inputs)
        for (kind, data), m in zip(inputs, models):
            ctx.case((info['name'], data), nontrivial=len(data) > 0)
            ctx.count('input:' + kind)
            _judge(ctx, idx, cls, info, kind, data, m)
        # the same inputs decoded into an object that was decoded into before (longer message first)
        vs = sorted(set(d for k, d in inputs if k == 'valid'), key=lambda d: (-len(d), d))
        bs = [d for k, d in inputs if k == 'boundary']
        if bs:      # one all-ones and one all-zero full-length layout encoding take part in the reuse pairs
            vs = sorted(set(vs + [max(bs, key=lambda d: (len(d), d)), max(bs, key=lambda d: (len(d), [255 - x for x in d]))]),
                        key=lambda d: (-len(d), d))
        for i, before in enumerate(vs[:6]):
            for data in (vs[i + 1:] + vs[:i])[:8]:
                ctx.case((info['name'], 'reuse', before, data), nontrivial=len(data) > 0)
                ctx.count('input:reused-object')
                _judge_reuse(ctx, cls, info, before, data)
        if idx % 50 == 0:
            ctx.sample({'class': info['name'], 'data': lean.hexs(inputs[-1][1]), 'model': models[-1]})
        ctx.count('classes_with_fields')
        if ctx.tier == 'thorough' and ctx.time_left() < 30:
            ctx.notes.append('time budget reached at class index %d of %d' % (idx, len(snap)))
            break
    ctx.extra['classes'] = len(snap)


def search(ctx):
    """Every property clause is judged directly on the real decoder in `run`; a remaining
    code/model disagreement that broke no clause has no failing input."""
    return


def replay(ctx, v):
    try:
        snap = registry.snapshot()
    except lean.TieBroken as e:
        print('translator fails closed on this tree (%s): layouts read structurally' % e)
        snap, _ = cc.structural_snapshot()
    case = v['case']
    by_name = dict((info['name'], (i, cls, info)) for i, (cls, info) in enumerate(snap))
    if case.get('class') not in by_name:
        print('class %s no longer registered' % case.get('class'))
        return True
    idx, cls, info = by_name[case['class']]
    c2 = ctx.__class__('C02', 'quick', 0)
    data = lean.unhex(case['data'])
    if case.get('kind') == 'reused-object':
        print('class %s: decode %s, then decode %s into the same object' % (info['name'], case['before'], case['data']))
        _judge_reuse(c2, cls, info, lean.unhex(case['before']), data)
        for x in c2.violations:
            print('  %s: expected %s, observed %s' % (x['what'], x['expected'], x['observed']))
        return bool(c2.violations)
    real = cc.decode_real(cls, info['fields'], data)
    print('class %s data %s' % (info['name'], case['data']))
    print('  real decoder: %s' % (' '.join(cc.show(x) for x in real[1]) if real[0] == 'ok' else real[0]))
    _judge(c2, idx, cls, info, case.get('kind', ''), data, None)
    for x in c2.violations:
        print('  ' + x['what'])
    return bool(c2.violations)
