"""C19 — ipmitool back-end passes requests/credentials verbatim, reads replies faithfully.

Tie (DESIGN §5 C19): the REAL builders' strings are executed by the REAL `_run_ipmitool`
(`Popen(shell=True)` -> /bin/sh) with `IPMITOOL_PATH` pointing at a stub that prints its argument
vector NUL-separated.  Three things are compared on every case:
  * the argument vector the stub received  vs  the argument vector the property demands
    (Spec.Ipmitool.*Argv in Lean, evaluated by the driver; a Python twin is cross-checked) — the
    property oracle; a difference is a violation with a replay;
  * the real builder's command string  vs  Model.Ipmitool.build* — correspondence of the model;
  * Spec.Sh.words(command string)  vs  what the real shell did — validation of the shell model
    the theorems are stated over.
The reply side: synthesized ipmitool output (Spec.Ipmitool.printRaw / ccLine / timeoutLine and
noise) is fed to the real `send_and_receive_raw`; compared with Model.recv and with the property
(bytes unchanged behind 00, completion code, specific errors); plus end-to-end runs through the real
shell with a stub that writes data to stdout and messages to stderr as ipmitool does.

All strings are generated here; nothing is taken from the environment.  While the shell runs, the
working directory and PATH are scratch directories under /verif/.work (a command line broken by an
unescaped quote can create files named after its words or try to run them) and descriptor 2 is
parked in a scratch file.
"""
import os
import shutil
import sys
from concurrent.futures import ThreadPoolExecutor

from ..lib import lean, repo
from ..sim import pristine
from ..translate import ipmitool as tr

ID = 'C19'
TARGETS = ['PyIpmi.Props.C19', 'drv_c19']
LEVEL = 'proof'
RULE = ('HISTORIES: 2-4 calls (rmcp_ping / is_ipmc_accessible / send_and_receive_raw, with the session\'s credentials, '
        'auth type, host/port or privilege level changed in place or the session established again in between; failed '
        'pings; the same Target object used twice; ONE Target object used, then CHANGED IN PLACE - target.ipmb_address = …, '
        'target.set_routing([...]) / set_routing("[...]") / set_routing_information([...]), routing dropped again; address '
        'changes, routing depth 1>2>3>3>1>2, address>routing>address, two such objects interleaved - and used again, judged '
        'against the argv the CURRENT state of the target demands; evidence history:target-object-changed-in-place:*) on ONE '
        'Ipmitool object, for the 4 interface types x no-auth / plain / '
        'shell-special credentials, directed (every ordered pair of call kinds, every change between two calls) + seeded; '
        'every call runs through the real /bin/sh and is judged on its own against the argument vector its settings demand '
        'and compared with the Lean builder model; 3-6 canned replies (data, rsp= lines, time-outs, connection errors) read '
        'by one long-lived object, each judged on its own.  Every history is executed in a pristine child process and a '
        'finding is re-tried as a single call on a new object (signature C19:history:* when only the history shows it).  '
        'SINGLE CALLS: shell runs through the real /bin/sh with an argv-printing stub: every printable ASCII character alone, '
        'every ordered pair of the 24 shell specials, sampled long and non-ASCII strings, each as user and as '
        'password, over lan/lanplus raw commands and rmcp_ping (thorough: every ordered pair of printable ASCII); '
        'directed + seeded option cases (4 interface types, hosts, ports, 3 levels, ciphers None/0/\'0\'/n, no-auth, '
        'targets None/0/addr, routings of depth 0..4, LUN 0..3, netfn 0..63, 1..40 raw bytes; rmcp_ping under every '
        'privilege level x cipher None/0/\'0\'/3/\'17\'/254 x lan/lanplus/open x credentials / none / option-like '
        'credentials, judged against -L / -C of the property text, -L may be absent only for ipmitool\'s default '
        'ADMINISTRATOR).  Reply side: every '
        'length 0..80 in ipmitool\'s 16-per-line format, other wrappings/CRLF, every completion code 1..255 as a '
        'rsp= line, timeout/connection/device/long-password lines, seeded noise, return codes.  A case is distinct by '
        'its full input; it is non-trivial unless it repeats the baseline admin/secret command.')
ASSUMPTIONS = [
    'dash (/bin/sh of this sandbox) stands for POSIX sh; Spec.Sh is validated against it on every generated command line (one-sided where POSIX leaves `$` unspecified)',
    'subprocess.Popen(cmd, shell=True) is `/bin/sh -c cmd`; strings containing NUL cannot be passed at all (hypothesis NoNul)',
    'ipmitool\'s output format and its use of stderr for error lines are taken from its sources (Spec/IpmitoolPrint.lean), not from a running ipmitool',
    'py3dec_unic_bytes_fix (raw_unicode_escape) is modelled as the identity on code points: generated outputs contain no backslash-u escapes; int(x, 16) is modelled for ASCII input',
    'control flow of the builders / parser is hand-modelled (Model/Ipmitool.lean); string constants are regenerated from the source each run and the shape of every anchored method is checked by AST',
    'ipmitool(1): "-L <privlvl> ... Default is ADMINISTRATOR" - a presence ping that leaves -L out at level ADMINISTRATOR is '
    'accepted as carrying the configured level (Spec.Ipmitool.levelArgvD, Props.C19.ping_effective_level_cipher); no such '
    'allowance for the cipher suite (ipmitool\'s built-in default differs between versions) or for raw requests',
    'histories: what rmcp_ping / is_ipmc_accessible return is not judged (the property names the command line and the '
    'reply of a raw request); the canned output a call of a history receives is " 00" / exit status 0 unless the step says otherwise',
    'host, port, serial device and interface options are interpolated unquoted by the code under test; the property quantifies over all strings only for user and password, so hosts/devices are drawn from the host-name / path alphabet',
]
TRUSTED = ['harness/translate/ipmitool.py', 'harness/sim/pristine.py (fork server: histories run in a process that has not used the back-end)', 'harness/props/c19.py (argv stub, ipmitool simulator stub, Python twin of Spec.Ipmitool.*Argv)']

SPECIALS = ['$', '`', '"', '\\', '!', '*', '?', '~', '#', '&', '|', ';', '<', '>', '(', ')', '{', '}', "'",
            ' ', '\t', '\n', '[', '=']
DQ_SPECIAL = set('$`"\\')

_snap = None


def translate(ctx):
    global _snap
    _snap = tr.generate()


# ---------------------------------------------------------------------------------------------
# protocol helpers

def enc(s):
    return ','.join(str(ord(c)) for c in s) or '-'


def dec(t):
    return '' if t == '-' else ''.join(chr(int(x)) for x in t.split(','))


def cps(s):
    return [ord(c) for c in s]


def from_cps(l):
    return ''.join(chr(c) for c in l)


def tag_of(e):
    n = type(e).__name__
    return 'IpmiTimeoutError' if n == 'IpmiTimeoutError' else 'py:' + n


def tgt_token(t):
    """case target -> driver token.  t: None | ['a', addr] | ['r', addr, [[rq, rs, ch], …]]"""
    if t is None:
        return 'N'
    if t[0] == 'a':
        return 'A%d' % t[1]
    return 'R%d:%s' % (t[1], ';'.join('%d.%d.%d' % tuple(h) for h in t[2]))


def cipher_token(c):
    if c is None:
        return 'N'
    return ('T' if c else 'F') + enc('%s' % (c,))


def auth_token(a):
    if a is None:
        return 'N'
    return 'P%s/%s' % (enc(a[0]), enc(a[1]))


# ---------------------------------------------------------------------------------------------
# the real code

class Work(object):
    """Scratch directory, stubs, and the process-wide settings used while shells run."""

    def __init__(self):
        self.dir = os.path.join(lean.WORK, 'c19-%d' % os.getpid())
        shutil.rmtree(self.dir, ignore_errors=True)
        os.makedirs(os.path.join(self.dir, 'cwd'))
        os.makedirs(os.path.join(self.dir, 'nopath'))
        self.stub = os.path.join(self.dir, 'argv_stub')
        with open(self.stub, 'w') as f:
            # prints its argument vector NUL-separated, then one letter on stderr
            f.write('#!/bin/sh\nprintf \'%s\\0\' "$0" "$@"\nprintf E >&2\n')
        os.chmod(self.stub, 0o755)
        self.sim = os.path.join(self.dir, 'ipmitool_sim')
        with open(self.sim, 'w') as f:
            # behaves like `ipmitool raw`: canned data on stdout, canned messages on stderr, exit status
            f.write('#!/bin/sh\nd=%s\nwhile IFS= read -r l; do printf \'%%s\\n\' "$l"; done < "$d/sim_out"\n'
                    'while IFS= read -r l; do printf \'%%s\\n\' "$l" >&2; done < "$d/sim_err"\n'
                    'read -r rc < "$d/sim_rc"\nexit "$rc"\n' % self.dir)
        os.chmod(self.sim, 0o755)
        self._saved = None

    def __enter__(self):
        sys.stderr.flush()
        self._saved = (os.getcwd(), dict(os.environ), os.dup(2))
        os.chdir(os.path.join(self.dir, 'cwd'))
        os.environ.clear()
        os.environ.update({'PATH': os.path.join(self.dir, 'nopath'), 'HOME': '/nonexistent-home',
                           'LC_ALL': 'C.UTF-8', repo.GUARD: '1'})
        fd = os.open(os.path.join(self.dir, 'stderr'), os.O_WRONLY | os.O_CREAT | os.O_APPEND, 0o600)
        os.dup2(fd, 2)
        os.close(fd)
        return self

    def __exit__(self, *a):
        cwd, env, fd2 = self._saved
        os.dup2(fd2, 2)
        os.close(fd2)
        os.environ.clear()
        os.environ.update(env)
        os.chdir(cwd)

    def cleanup(self):
        shutil.rmtree(self.dir, ignore_errors=True)


def real_target(t):
    from pyipmi import Target
    if t is None:
        return None
    if t[0] == 'a':
        return Target(t[1])
    tg = Target(t[1] or None)
    tg.set_routing([tuple(h) for h in t[2]])
    return tg


def retarget(tg, old, new, via=None):
    """Bring the EXISTING Target object `tg` (in state `old`) into state `new` the way applications do it: assignment
    to `ipmb_address`, `set_routing` / `set_routing_information` (list of tuples, or the string form set_routing
    accepts), `routing = None` when the routing is dropped again.  `old` / `new`: ['a', addr] | ['r', addr, hops]."""
    if new is None or old is None:
        raise ValueError('a named Target object cannot become None')
    if new[0] == 'a':
        if old[0] == 'r':
            tg.routing = None
        tg.ipmb_address = new[1]
        return
    if (old[1] or None) != (new[1] or None):
        tg.ipmb_address = new[1] or None
    hops = [tuple(h) for h in new[2]]
    if via == 'string':
        tg.set_routing(repr(hops))
    elif via == 'set_routing_information':
        tg.set_routing_information(hops)
    else:
        tg.set_routing(hops)


def make_iface(case, path):
    """Instantiate the real interface + session for `case` (dict)."""
    from pyipmi.interfaces.ipmitool import Ipmitool
    from pyipmi import Session
    i = Ipmitool(interface_type=case['iface'], cipher=case.get('cipher'))
    i.IPMITOOL_PATH = path
    s = Session()
    s.interface = i
    if 'port' in case and case['port'] is not None:
        s.set_session_type_rmcp(case['host'], case['port'])
    else:
        s.set_session_type_rmcp(case.get('host', '10.0.1.1'))
    s.set_session_type_serial(case.get('serial_port', '/dev/ttyS0'), case.get('baud', 115200))
    s._priv_level = case.get('level', 4)
    if case.get('auth') is not None:
        s.set_auth_type_user(case['auth'][0], case['auth'][1])
    i.establish_session(s)
    return i


def run_real(case, path):
    """Drive the real code for one case through the real shell.  Returns
    {'cmd': str|None, 'raised': tag|None, 'argv': [str]|None, 'stderr_captured': bool, 'rc': int}."""
    res = {'cmd': None, 'raised': None, 'argv': None, 'stderr_captured': None, 'rc': None}
    try:
        i = make_iface(case, path)
    except Exception as e:  # noqa
        res['raised'] = 'construct:' + tag_of(e)
        return res
    real_run = i._run_ipmitool      # the real staticmethod

    def recording(cmd):
        res['cmd'] = cmd
        out, rc = real_run(cmd)
        res['rc'] = rc
        res['stderr_captured'] = out.endswith(b'E')
        body = out[:-1] if out.endswith(b'E') else out
        parts = body.split(b'\0')
        res['argv'] = [os.fsdecode(p) for p in parts[:-1]] if len(parts) > 1 and parts[-1] == b'' else None
        res['raw_out'] = out[:200]
        raise _Done()
    i._run_ipmitool = recording
    try:
        if case['op'] == 'ping':
            i.rmcp_ping()
        else:
            i.send_and_receive_raw(real_target(case.get('target')), case['lun'], case['netfn'],
                                   bytes(bytearray(case['raw'])))
    except _Done:
        pass
    except Exception as e:  # noqa
        res['raised'] = tag_of(e)
    return res


class _Done(Exception):
    pass


def build_real(case, path='ipmitool'):
    """Only the command string (no shell)."""
    try:
        i = make_iface(case, path)
    except Exception as e:  # noqa
        return 'construct:' + tag_of(e)
    got = {}

    def rec(cmd):
        got['cmd'] = cmd
        raise _Done()
    i._run_ipmitool = rec
    try:
        if case['op'] == 'ping':
            i.rmcp_ping()
        else:
            i.send_and_receive_raw(real_target(case.get('target')), case['lun'], case['netfn'],
                                   bytes(bytearray(case['raw'])))
    except _Done:
        return 'ok ' + enc(got['cmd'])
    except Exception as e:  # noqa
        return tag_of(e)
    return 'py:no-command'


def probe_variant():
    """Which variant of the four repaired places does the tree under test contain?"""
    base = {'op': 'raw', 'iface': 'lan', 'host': 'h', 'auth': ('a"b$c`d\\e', 'p'), 'target': None,
            'lun': 0, 'netfn': 6, 'raw': [1]}
    s = build_real(base)
    escape = s.startswith('ok ') and '-U "a\\"b\\$c\\`d\\\\e"' in dec(s[3:])
    c = dict(base, cipher=0, auth=('u', 'p'))
    s = build_real(c)
    cnn = s.startswith('ok ') and ' -C 0 ' in dec(s[3:])
    d = dict(base, auth=('u', 'p'), target=['r', 0x20, [[0x81, 0x20, 0]]])
    s = build_real(d)
    depth1 = s.startswith('ok ')
    # fixes/C19-5: does rmcp_ping pass the privilege level (unless ADMINISTRATOR) and the cipher?
    s = build_real(dict(base, op='ping', auth=('u', 'p'), level=2, cipher=17))
    s4 = build_real(dict(base, op='ping', auth=('u', 'p'), level=4, cipher=None))
    ping_opts = s.startswith('ok ') and ' -L USER -C 17 ' in dec(s[3:]) and s4.startswith('ok ') and \
        ' -L ' not in dec(s4[3:]) and ' -C ' not in dec(s4[3:])
    return '%d%d%d%d' % (escape, cnn, depth1, ping_opts)


# ---------------------------------------------------------------------------------------------
# driver lines for a case

def model_line(case, var, path):
    t = tgt_token(case.get('target'))
    if case['op'] == 'ping':
        return 'ping %s %s %s %s %s %d %s %s' % (var, enc(path), enc(case['iface']), enc('%s' % (case['host'],)),
                                                 enc('%s' % (case.get('port', 623),)), case.get('level', 4),
                                                 cipher_token(case.get('cipher')), auth_token(case.get('auth')))
    raw = lean.hexs(case['raw'])
    if case['iface'] in ('lan', 'lanplus'):
        return 'lan %s %s %s %s %s %d %s %s %s %d %d %s' % (
            var, enc(path), enc(case['iface']), enc('%s' % (case['host'],)), enc('%s' % (case.get('port', 623),)),
            case.get('level', 4), cipher_token(case.get('cipher')), auth_token(case.get('auth')), t,
            case['lun'], case['netfn'], raw)
    if case['iface'] == 'open':
        return 'open %s %s %s %s %d %d %s' % (var, enc(path), enc(case['iface']), t, case['lun'], case['netfn'], raw)
    return 'serial %s %s %s %s %s %s %d %d %s' % (
        var, enc(path), enc(case['iface']), enc('%s' % (case.get('serial_port', '/dev/ttyS0'),)),
        enc('%s' % (case.get('baud', 115200),)), t, case['lun'], case['netfn'], raw)


def spec_line(case, path):
    m = model_line(case, 'xxx', path).split(' ')
    return 'x' + m[0] + ' ' + ' '.join(m[2:])


def parse_argv(resp):
    if not resp.startswith('ok '):
        return None
    toks = resp.split(' ')
    n = int(toks[1])
    return [dec(t) for t in toks[2:2 + n]]


def parse_words(resp):
    """-> ('ok', argv, redirs) | (verdict,)"""
    if not resp.startswith('ok '):
        return (resp,)
    toks = resp.split(' ')
    n = int(toks[1])
    argv = [dec(t) for t in toks[2:2 + n]]
    r = toks.index('R', 2 + n)
    redirs = [tuple(int(x) for x in t.split(':')) for t in toks[r + 1:]]
    return ('ok', argv, redirs)


# ---------------------------------------------------------------------------------------------
# Python twin of Spec.Ipmitool.*Argv (ipmitool(1)); cross-checked against the Lean one

LEVEL_NAMES = {2: 'USER', 3: 'OPERATOR', 4: 'ADMINISTRATOR'}


def twin_target(t):
    if t is None:
        return []
    if t[0] == 'a':
        return ['-t', '0x%02x' % t[1]] if t[1] else []
    hops = t[2]
    if len(hops) == 1:
        return []
    if len(hops) == 2:
        return ['-t', '0x%02x' % hops[1][1], '-b', '%d' % hops[0][2]]
    if len(hops) == 3:
        return ['-T', '0x%02x' % hops[1][1], '-B', '%d' % hops[0][2], '-t', '0x%02x' % hops[2][1],
                '-b', '%d' % hops[1][2]]
    return None


def twin_argv(case, path):
    if case['op'] == 'ping':
        # property text: "… interface type, host, port, privilege level, cipher … appear as the corresponding
        # options" for every start of the program.  This is the spelled-out form; ping_alternative() is the other
        # admitted one (ipmitool(1): -L defaults to ADMINISTRATOR).
        if case.get('level', 4) not in LEVEL_NAMES:
            return None
        a = case.get('auth')
        c = case.get('cipher')
        return [path, '-I', case['iface'], '-H', '%s' % case['host'], '-p', '%s' % case.get('port', 623),
                '-L', LEVEL_NAMES[case.get('level', 4)]] + \
            (['-C', '%s' % (c,)] if c is not None else []) + \
            (['-U', a[0], '-P', a[1]] if a is not None else ['-A', 'NONE']) + ['session', 'info', 'all']
    tg = twin_target(case.get('target'))
    if tg is None:
        return None
    rawv = ['-l', '%d' % case['lun'], 'raw'] + ['0x%02x' % b for b in [case['netfn']] + list(case['raw'])]
    if case['iface'] in ('lan', 'lanplus'):
        if case.get('level', 4) not in LEVEL_NAMES:
            return None
        a = case.get('auth')
        c = case.get('cipher')
        return [path, '-I', case['iface'], '-H', '%s' % case['host'], '-p', '%s' % case.get('port', 623),
                '-L', LEVEL_NAMES[case.get('level', 4)]] + \
            (['-C', '%s' % (c,)] if c is not None else []) + \
            (['-U', a[0], '-P', a[1]] if a is not None else ['-P', '']) + tg + rawv
    if case['iface'] == 'open':
        return [path, '-I', case['iface']] + tg + rawv
    return [path, '-I', case['iface'], '-D', '%s:%s' % (case.get('serial_port', '/dev/ttyS0'),
                                                         case.get('baud', 115200))] + tg + rawv


_NUMERIC_AFTER = ('-p', '-C', '-t', '-b', '-T', '-B', '-l')


def normalise(argv):
    """ipmitool reads numeric operands with strtol(…, 0): compare them as numbers."""
    if argv is None:
        return None
    out, after_raw = [], False
    for k, a in enumerate(argv):
        num = after_raw or (k > 0 and argv[k - 1] in _NUMERIC_AFTER and 'raw' not in argv[:k])
        if num:
            try:
                a = ('#', int(a.strip(), 0))
            except ValueError:
                pass
        if a == 'raw' and not after_raw and k > 0 and argv[k - 1] not in ('-U', '-P', '-H', '-I', '-D', '-L'):
            after_raw = True
        out.append(a)
    return out


def ping_alternative(case, expected):
    """ipmitool(1): "-L <privlvl> … Default is ADMINISTRATOR" - a presence ping at that level may leave the option
    out: the started program runs at the configured level either way (Lean: Spec.Ipmitool.levelArgvD,
    Props.C19.ping_effective_level_cipher).  -> the vector without `-L ADMINISTRATOR`, or None."""
    if case.get('op') == 'ping' and expected is not None and case.get('level', 4) == 4 \
            and expected[7:9] == ['-L', 'ADMINISTRATOR']:
        return expected[:7] + expected[9:]
    return None


def pick_expected(case, expected, got):
    """the admitted vector to judge `got` against: the one without -L when the program was started without it"""
    alt = ping_alternative(case, expected)
    if alt is not None and got.get('argv') is not None and got['argv'][7:8] != ['-L']:
        return alt
    return expected


def _matches(got, expected):
    return (not got.get('raised')) and got.get('argv') is not None and normalise(got['argv']) == normalise(expected)


def signature(case, expected, got, rerun=None):
    """Stable identity of a violation (README: specific enough to tell defects apart).
    `rerun(case)` executes a variant of the case on the real code (used to find out whether the
    credentials are to blame: does the failure go away with the inert credentials u / p?)."""
    a = case.get('auth')
    if a is not None and rerun is not None and not all(c.isalnum() for c in a[0] + a[1]):
        plain = dict(case, auth=('u', 'p'))
        got_plain = rerun(plain)
        exp_plain = twin_argv(plain, expected[0])
        if exp_plain is not None:
            exp_plain = pick_expected(plain, exp_plain, got_plain)
        if exp_plain is not None and _matches(got_plain, exp_plain):
            txt = a[0] + a[1]
            if any(c in DQ_SPECIAL for c in txt):
                return 'C19:credentials-not-verbatim:double-quote-special'
            odd = [c for c in txt if not c.isalnum()]
            return 'C19:credentials-not-verbatim:U+%04X' % ord(odd[0])
        case, got, expected = plain, got_plain, exp_plain
    if got.get('raised'):
        t = case.get('target')
        if t is not None and t[0] == 'r' and len(t[2]) == 1:
            return 'C19:target:routing-depth-1-raises'
        return 'C19:build-raises:%s' % got['raised']
    argv = got.get('argv')
    if argv is None:
        return 'C19:argv:none'
    ne, na = normalise(expected), normalise(argv)
    for k in range(max(len(ne), len(na))):
        e = ne[k] if k < len(ne) else None
        g = na[k] if k < len(na) else None
        if e != g:
            prev = [x for x in ne[:k + 1] if isinstance(x, str) and (x.startswith('-') or x == 'raw')]
            opt = prev[-1] if prev else 'argv0'
            pre = 'C19:ping:argv' if case.get('op') == 'ping' and (e in ('-L', '-C') or opt in ('-L', '-C')) \
                else 'C19:argv'
            if isinstance(e, str) and e.startswith('-') and e not in [x for x in na if isinstance(x, str)]:
                return '%s:%s:missing' % (pre, e)
            return '%s:%s:differs' % (pre, opt)
    return 'C19:argv:differs'


# ---------------------------------------------------------------------------------------------
# generators

HOSTS = ['10.0.1.1', 'bmc-7.example.org', 'fe80::1%eth0', '::1', 'localhost', 'a', '192.168.255.254']
BASE = {'op': 'raw', 'iface': 'lan', 'host': '10.0.1.1', 'auth': ('admin', 'secret'), 'target': ['a', 0x20],
        'lun': 0, 'netfn': 6, 'raw': [1]}


def cred_strings(ctx, rng):
    """(label, string) for the credential sweep."""
    out = []
    for c in range(32, 127):
        out.append(('single', chr(c)))
    for a in SPECIALS:
        for b in SPECIALS:
            out.append(('pair', a + b))
    if ctx.tier == 'thorough':
        for a in range(32, 127):
            for b in range(32, 127):
                out.append(('pair-all', chr(a) + chr(b)))
    out.append(('empty', ''))
    directed = ['ad$HOME', 'p`echo X`"q', 'a\\\\b', '$(echo x)', '${HOME}', '\\', '\\\\', '"', '""', '\\"', '$', '$$',
                "it's", 'a b', ' a', 'a ', '-U', '--', '-', '2>&1', '>x', '#x', '~', '~root', '*', 'a\nb', '\n',
                '\\\n', 'a\\\nb', '\t', 'a\rb', '%s', '%d%n', '{0}', 'é€', 'āĂ', 'пароль', '密码', '\U0001f511',
                '\x7f', '\x01', '\x1b[0m', '\udc81\udcfe', 'x' * 300]
    for d in directed:
        out.append(('directed', d))
    alpha = SPECIALS + list('abc012') + ['é', 'ā', 'π', '€']
    n = 80 if ctx.tier == 'quick' else 1500
    for _ in range(n):
        k = rng.choice([3, 4, 5, 8, 16, 40, 120])
        out.append(('sampled', ''.join(rng.choice(alpha) for _ in range(k))))
    return out


def rand_target(rng):
    r = rng.random()
    if r < 0.12:
        return None
    if r < 0.2:
        return ['a', 0]
    if r < 0.4:
        return ['a', rng.choice([0x20, 0x82, 1, 15, 16, 0xff, rng.randrange(1, 256)])]
    depth = rng.choice([1, 2, 2, 3, 3])
    hops = [[rng.choice([0x81, 0x20, rng.randrange(256)]), rng.choice([0x20, 0x82, 0x72, 0, 15, 16, rng.randrange(256)]),
             rng.choice([0, 7, 15, rng.randrange(16)])] for _ in range(depth)]
    return ['r', rng.choice([0, 0, 0x20]), hops]


def rand_host(rng):
    if rng.random() < 0.6:
        return rng.choice(HOSTS)
    return ''.join(rng.choice('abcdefghijklmnopqrstuvwxyzABCXYZ0123456789.-:_') for _ in range(rng.randrange(1, 30)))


def option_cases(ctx, rng):
    cases = []
    # directed: every interface type x every target kind
    targets = [None, ['a', 0], ['a', 0x20], ['a', 0xb0], ['a', 5],
               ['r', 0, [[0x81, 0x20, 0]]], ['r', 0x20, [[0x20, 0x82, 0]]],
               ['r', 0, [[0x81, 0x20, 7], [0x20, 0x82, 0]]],
               ['r', 0, [[0x81, 0x20, 0], [0x20, 0x82, 7], [0x20, 0x72, 0]]],
               ['r', 0x20, [[0x81, 0x20, 15], [0x20, 0x0e, 3], [0x20, 0xfe, 9]]],
               ['r', 0, []], ['r', 0x20, [[1, 2, 3]] * 4]]
    for iface in ('lan', 'lanplus', 'open', 'serial-terminal'):
        for t in targets:
            cases.append(dict(BASE, iface=iface, target=t, lun=len(cases) % 4, netfn=(7 * len(cases) + 1) % 64))
    for c in (None, 0, '0', 3, '17', 254, 1):
        for iface in ('lan', 'lanplus'):
            cases.append(dict(BASE, iface=iface, cipher=c))
    for lv in (2, 3, 4):
        cases.append(dict(BASE, level=lv))
        cases.append(dict(BASE, level=lv, iface='lanplus', auth=None))
    for h in HOSTS:
        cases.append(dict(BASE, host=h, port=rng.choice([623, 1, 65535, '623', 6230])))
    for lun in range(4):
        for netfn in (0, 1, 6, 0x2c, 0x3f, 10 + lun):
            cases.append(dict(BASE, lun=lun, netfn=netfn, raw=[lun + 1, netfn]))
    for n in (1, 2, 15, 16, 17, 39, 40):
        cases.append(dict(BASE, raw=[(37 * k + n) % 256 for k in range(n)]))
    cases.append(dict(BASE, raw=[0, 0xff, 0x0f, 0x10, 0x9, 0xa]))
    for iface in ('lan', 'lanplus', 'open'):
        cases.append(dict(BASE, op='ping', iface=iface))
        cases.append(dict(BASE, op='ping', iface=iface, auth=None))
    cases.append(dict(BASE, op='ping', iface='serial-terminal'))
    # the presence ping under every privilege level x cipher x interface x with / without credentials
    for iface in ('lan', 'lanplus', 'open'):
        for lv in (2, 3, 4):
            for c in (None, 0, '0', 3, '17', 254):
                for a in (('admin', 'secret'), None, ('-L', '-C 3')):
                    if (lv, c, a) != (4, None, ('admin', 'secret')):
                        cases.append(dict(BASE, op='ping', iface=iface, level=lv, cipher=c, auth=a))
    for sp, bd in (('/dev/tty2', 115200), ('/dev/ttyUSB0', 9600), ('/dev/serial/by-id/usb-x_1-if00', '38400')):
        cases.append(dict(BASE, iface='serial-terminal', serial_port=sp, baud=bd))
    n = 120 if ctx.tier == 'quick' else 3000
    for _ in range(n):
        iface = rng.choice(['lan', 'lanplus', 'lan', 'lanplus', 'open', 'serial-terminal'])
        c = dict(op='raw' if rng.random() < 0.8 else 'ping', iface=iface, host=rand_host(rng), port=rng.choice([623, 623, rng.randrange(1, 65536)]),
                 level=rng.choice([2, 3, 4]), cipher=rng.choice([None, None, 0, '0', 3, 17, '17', 254]),
                 auth=rng.choice([None, ('admin', 'secret'), ('root', 'pw 1'), ('', ''), ('Admin_2', 'x.y-z')]),
                 target=rand_target(rng), lun=rng.randrange(4), netfn=rng.randrange(64),
                 raw=[rng.randrange(256) for _ in range(rng.choice([1, 1, 2, 3, 8, 16, 17, 40]))],
                 serial_port=rng.choice(['/dev/ttyS0', '/dev/tty2']), baud=rng.choice([9600, 115200]))
        cases.append(c)
    return cases


def credential_cases(ctx, rng):
    cases = []
    k = 0
    for label, s in cred_strings(ctx, rng):
        k += 1
        op = 'ping' if k % 5 == 0 else 'raw'
        iface = 'lanplus' if k % 3 == 0 else 'lan'
        if label == 'pair-all':
            # thorough sweep: the pair as user and its mirror image as password in one run
            cases.append((label, dict(BASE, op=op, iface=iface, auth=(s, s[::-1]))))
            continue
        cases.append((label + ':user', dict(BASE, op=op, iface=iface, auth=(s, 'secret'))))
        cases.append((label + ':password', dict(BASE, op=op, iface=iface, auth=('admin', s))))
        if label in ('directed', 'empty'):
            cases.append((label + ':both', dict(BASE, op=op, iface=iface, auth=(s, s))))
    return cases


# ---------------------------------------------------------------------------------------------
# one shell case: real shell vs property vs shell model

def jcase(case):
    """JSON form of a case (strings as code-point lists: they may hold anything)."""
    j = dict(case)
    if j.get('auth') is not None:
        j['auth'] = [cps(j['auth'][0]), cps(j['auth'][1])]
    j['auth_repr'] = None if case.get('auth') is None else [ascii(case['auth'][0]), ascii(case['auth'][1])]
    return j


def unjcase(j):
    c = dict(j)
    c.pop('auth_repr', None)
    if c.get('auth') is not None:
        c['auth'] = (from_cps(c['auth'][0]), from_cps(c['auth'][1]))
    return c


def judge_shell(ctx, case, got, expected, words, model_cmd, label, quiet=False, work=None):
    """Compare one executed case with the property and the models.  Returns True if violated."""
    violated = False
    # --- property: the program received exactly the demanded argument vector
    if expected is None:
        # the property does not define a command for this input: none may be started
        if got['argv'] is not None or got['cmd'] is not None:
            ctx.violate('C19:command-started-for-unsupported-target', 'a command was started for a target the '
                        'back-end cannot address', jcase(case), expected='an exception', observed=got['cmd'])
            violated = True
    else:
        expected = pick_expected(case, expected, got)
        ok = got['argv'] is not None and normalise(got['argv']) == normalise(expected) and not got['raised']
        if not ok:
            def rerun(c):
                with work:
                    return run_real(c, work.stub)
            sig = signature(case, expected, got, rerun if work is not None else None)
            what = 'the program did not receive the configured strings/options as its argument vector'
            if got['raised']:
                what = 'building the command raised %s' % got['raised']
            ctx.violate(sig, what, jcase(case), expected=[ascii(x) for x in expected],
                        observed={'argv': None if got['argv'] is None else [ascii(x) for x in got['argv']],
                                  'raised': got['raised'], 'rc': got['rc'],
                                  'cmd': None if got['cmd'] is None else ascii(got['cmd'])})
            violated = True
    if quiet:
        return violated
    # --- correspondence: builder model
    code_s = ('ok ' + enc(got['cmd'])) if got['cmd'] is not None else (got['raised'] or 'py:no-command')
    if model_cmd is not None and model_cmd != code_s:
        ctx.disagree('builder', jcase(case), model_cmd[:300], code_s[:300])
    # --- validation of the shell model against the real shell
    if words is not None and got['cmd'] is not None:
        w = parse_words(words)
        if w[0] == 'ok':
            ctx.count('sh-model:ok')
            want_err = (2, 1) in w[2] or (_snap or {}).get('popen_stderr') == 'merged'
            if got['argv'] != w[1] or got['stderr_captured'] != want_err:
                ctx.disagree('sh-model', {'cmd': cps(got['cmd']), 'cmd_repr': ascii(got['cmd'])},
                             'argv=%s stderr->stdout=%s' % ([ascii(x) for x in w[1]], want_err),
                             'argv=%s stderr->stdout=%s' % (None if got['argv'] is None else [ascii(x) for x in got['argv']],
                                                            got['stderr_captured']))
        else:
            same = expected is not None and got['argv'] is not None and got['argv'] == expected
            ctx.count('sh-model:%s:%s' % (w[0], 'real-shell-kept-it' if same else 'real-shell-changed-it'))
    return violated


def run_shell_cases(ctx, work, labelled_cases, var):
    drv = ctx.driver('drv_c19') if _driver_ok(ctx) else None
    cases = [c for _, c in labelled_cases]
    with work:
        with ThreadPoolExecutor(max_workers=8) as ex:
            results = list(ex.map(lambda c: run_real(c, work.stub), cases))
    exp_lean = words = models = [None] * len(cases)
    if drv is not None:
        exp_lean = drv.ask_many([spec_line(c, work.stub) for c in cases])
        models = drv.ask_many([model_line(c, var, work.stub) for c in cases])
        words = drv.ask_many([('words ' + enc(r['cmd'])) if r['cmd'] is not None else 'ping' for r in results])
    for (label, case), got, el, wd, md in zip(labelled_cases, results, exp_lean, words, models):
        twin = twin_argv(case, work.stub)
        expected = twin
        if case['op'] == 'ping' and case['iface'] == 'serial-terminal':
            expected = el = None            # no presence ping over a serial line: no command at all
        if el is not None:
            la = parse_argv(el)
            if la != twin:
                ctx.disagree('spec-twin', jcase(case), el[:300], repr(twin)[:300])
            expected = la
        a = case.get('auth')
        base = a == ('admin', 'secret') and case == dict(BASE, auth=a)
        ctx.case(('sh', case['op'], case['iface'], repr(sorted(jcase(case).items(), key=str))), nontrivial=not base)
        ctx.count('shell:' + label)
        ctx.count('op:%s/%s' % (case['op'], case['iface']))
        judge_shell(ctx, case, got, expected, wd if got['cmd'] is not None else None, md, label, work=work)
    return results


def _driver_ok(ctx):
    try:
        return ctx.driver('drv_c19').ask('ping') == 'pong'
    except lean.LeanError:
        return False


# ---------------------------------------------------------------------------------------------
# reply side

CC_TEXT = {0xc0: 'Node busy', 0xc1: 'Invalid command', 0xc2: 'Invalid command on LUN', 0xc3: 'Timeout',
           0xc4: 'Out of space', 0xc5: 'Reservation cancelled or invalid', 0xc6: 'Request data truncated',
           0xc7: 'Request data length invalid', 0xc8: 'Request data field length limit exceeded',
           0xc9: 'Parameter out of range', 0xca: 'Cannot return number of requested data bytes',
           0xcb: 'Requested sensor, data, or record not found', 0xcc: 'Invalid data field in request',
           0xcd: 'Command illegal for specified sensor or record type', 0xce: 'Command response could not be provided',
           0xcf: 'Cannot execute duplicated request', 0xd0: 'SDR Repository in update mode',
           0xd1: 'Device firmeware in update mode', 0xd2: 'BMC initialization in progress',
           0xd3: 'Destination unavailable', 0xd4: 'Insufficient privilege level',
           0xd5: 'Command not supported in present state', 0xd6: 'Cannot execute command, command disabled',
           0xff: 'Unspecified error'}


def cc_text(cc):
    return CC_TEXT.get(cc, 'Unknown (0x%02X)' % cc)


def py_print(bs, width=16, eol='\n', lead=' '):
    """Twin of Spec.Ipmitool.printRaw (width 16, LF) with other wrappings for the wider sweep."""
    s = ''
    for i, b in enumerate(bs):
        if i % width == 0 and i != 0:
            s += eol
        s += lead + '%02x' % b
    return s + eol


def real_recv(output, rc, iface='lan'):
    i = make_iface(dict(BASE, iface=iface), 'ipmitool')
    i._run_ipmitool = lambda cmd: (output, rc)
    try:
        return 'ok ' + lean.hexs(i.send_and_receive_raw(real_target(['a', 0x20]), 0, 6, b'\x01'))
    except Exception as e:  # noqa
        return tag_of(e)


def reply_cases(ctx, rng):
    """(label, output str (latin-1), rc, expected per property or None)"""
    out = []
    for n in range(0, 81):
        bs = [(n * 7 + 13 * k) % 256 for k in range(n)]
        out.append(('print16', py_print(bs), 0, 'ok ' + lean.hexs([0] + bs)))
    for n in (1, 5, 16, 17, 32, 33, 80):
        bs = [rng.randrange(256) for _ in range(n)]
        for width in (1, 8, 16, 20):
            for eol in ('\n', '\r\n'):
                out.append(('print-wrap', py_print(bs, width, eol), 0, 'ok ' + lean.hexs([0] + bs)))
    for bs in ([0] * 20, [0xff] * 17, list(range(256))[:80], [0x0a, 0x0d, 0x20, 0x66, 0xfa, 0x11]):
        out.append(('print16', py_print(bs), 0, 'ok ' + lean.hexs([0] + bs)))
    for cc in range(1, 256):
        ch, nf, lun, cmd = rng.randrange(16), rng.randrange(64), rng.randrange(4), rng.randrange(256)
        line = 'Unable to send RAW command (channel=0x%x netfn=0x%x lun=0x%x cmd=0x%x rsp=0x%x): %s\n' % (
            ch, nf, lun, cmd, cc, cc_text(cc))
        out.append(('cc-line', line, 1, 'ok %02x' % cc))
    for _ in range(40):
        ch, nf, lun, cmd = rng.randrange(16), rng.randrange(64), rng.randrange(4), rng.randrange(256)
        out.append(('timeout-line', 'Unable to send RAW command (channel=0x%x netfn=0x%x lun=0x%x cmd=0x%x)\n' % (
            ch, nf, lun, cmd), 1, 'IpmiTimeoutError'))
    for s in ('Error: Unable to establish IPMI v2 / RMCP+ session\n', 'Error: Unable to establish LAN session\n',
              'Error: Unable to establish IPMI v1.5 / RMCP session\n'):
        out.append(('connection', s, 1, 'py:IpmiConnectionError'))
    out.append(('long-password', 'lanplus: password is longer than 20 bytes.\n', 1, 'py:IpmiLongPasswordError'))
    out.append(('device', 'Could not open device at /dev/ipmi0 or /dev/ipmi/0 or /dev/ipmidev/0: No such file or directory\n',
                1, 'py:RuntimeError'))
    # failure transcripts of more than one line, as ipmitool really prints them (lib/ipmi_main.c, src/plugins/lan*/):
    # diagnostic lines (not hex, without the word 'failed') before the decisive line
    diag = ['Get Auth Capabilities error', 'Error issuing Get Channel Authentication Capabilities request',
            '> RAKP 2 HMAC is invalid', 'Activate Session error:\tInvalid user name',
            'Authentication type NONE not supported', 'No response from remote controller',
            'Invalid user name', 'Set Session Privilege Level to ADMINISTRATOR error', 'Error: no response from RAKP 1 message',
            'IPMI LAN send command error', 'Password: ']
    for k in range(1, 4):
        for _ in range(8):
            pre = ''.join(rng.choice(diag) + rng.choice(['\n', '\r\n']) for _ in range(k))
            s_ = rng.choice(['Error: Unable to establish IPMI v2 / RMCP+ session\n', 'Error: Unable to establish LAN session\n',
                             'Error: Unable to establish IPMI v1.5 / RMCP session\n'])
            out.append(('multiline-connection', pre + s_, 1, 'py:IpmiConnectionError'))
            ch, nf, lun, cmd = rng.randrange(16), rng.randrange(64), rng.randrange(4), rng.randrange(256)
            out.append(('multiline-timeout', pre + 'Unable to send RAW command (channel=0x%x netfn=0x%x lun=0x%x cmd=0x%x)\n' % (
                ch, nf, lun, cmd), 1, 'IpmiTimeoutError'))
            cc = rng.randrange(1, 256)
            out.append(('multiline-cc', pre + 'Unable to send RAW command (channel=0x%x netfn=0x%x lun=0x%x cmd=0x%x rsp=0x%x): %s\n' % (
                ch, nf, lun, cmd, cc, cc_text(cc)), 1, None))   # tie only: ipmitool prints the rsp= line on its own
            out.append(('multiline-long-password', pre + 'lanplus: password is longer than 20 bytes.\n', 1,
                        'py:IpmiLongPasswordError'))
    out.append(('rc', '', 1, 'py:RuntimeError'))
    out.append(('rc', '', 127, 'py:RuntimeError'))
    out.append(('rc', ' 01 02\n', 3, 'py:RuntimeError'))
    out.append(('suppressed', 'Get HPM.x Capabilities request failed, compcode = c9\n 12 34\n', 0, 'ok 001234'))
    # seeded noise: only model-vs-code (the property says nothing about garbage)
    alpha = list('0123456789abcdefABCDEFxX_+- \t\r') + ['\n'] * 4 + list('ghUrsp=cmd()failed:.')
    pieces = ['Unable to send RAW command (', 'rsp=0x', 'cmd=0x', ')', 'failed', 'Unable to establish', '\n', ' 1f',
              ' 0x20', ' +3', ' 1_0', ' 100', ' -1', 'rsp=0x1ff)', 'rsp=0xc1) rsp=0xc2)', 'cmd=0x1)', 'cmd=0x1a) x',
              'Could not open device', 'password is longer than', '\r', '  ', ' _1', ' 0x', ' 0X1F', '\x0b', '\x1c',
              '\xa0', '\x85', ' g', ' ff ']
    n = 400 if ctx.tier == 'quick' else 6000
    for _ in range(n):
        k = rng.randrange(1, 9)
        s = ''.join(rng.choice(pieces) if rng.random() < 0.6 else ''.join(rng.choice(alpha) for _ in range(rng.randrange(1, 6)))
                    for _ in range(k))
        out.append(('noise', s, rng.choice([0, 0, 1, 2]), None))
    return out


def run_reply(ctx, var):
    rng = ctx.rng('reply')
    cases = reply_cases(ctx, rng)
    drv = ctx.driver('drv_c19') if _driver_ok(ctx) else None
    models = [None] * len(cases)
    if drv is not None:
        models = drv.ask_many(['recv %d %s' % (rc, enc(o)) for _, o, rc, _ in cases])
        # Spec twins: printRaw / ccLine / timeoutLine of the driver vs the Python renderings used above
        for n in (0, 1, 16, 17, 33, 80):
            bs = [(n + 3 * k) % 256 for k in range(n)]
            if dec(drv.ask('print ' + lean.hexs(bs))) != py_print(bs):
                ctx.disagree('spec-twin:print', {'bytes': bs}, dec(drv.ask('print ' + lean.hexs(bs))), py_print(bs))
        for (ch, nf, lun, cmd, cc) in ((0, 6, 0, 1, 0xc3), (15, 0x2c, 3, 255, 1), (7, 63, 2, 16, 0x80)):
            want = 'Unable to send RAW command (channel=0x%x netfn=0x%x lun=0x%x cmd=0x%x rsp=0x%x): %s' % (
                ch, nf, lun, cmd, cc, cc_text(cc))
            gotl = dec(drv.ask('ccline %d %d %d %d %d %s' % (ch, nf, lun, cmd, cc, enc(cc_text(cc)))))
            if gotl != want:
                ctx.disagree('spec-twin:ccline', {}, gotl, want)
            want = 'Unable to send RAW command (channel=0x%x netfn=0x%x lun=0x%x cmd=0x%x)' % (ch, nf, lun, cmd)
            gotl = dec(drv.ask('toline %d %d %d %d' % (ch, nf, lun, cmd)))
            if gotl != want:
                ctx.disagree('spec-twin:toline', {}, gotl, want)
    for (label, o, rc, want), md in zip(cases, models):
        code = real_recv(o.encode('latin-1'), rc)
        ctx.case(('reply', o, rc), nontrivial=bool(o))
        ctx.count('reply:' + label)
        ctx.count('reply-outcome:' + code.split(' ')[0])
        case = {'kind': 'reply', 'output': cps(o), 'output_repr': ascii(o)[:300], 'rc': rc, 'label': label}
        if md is not None and md != code:
            ctx.disagree('recv', case, md, code)
        if want is not None and code != want:
            ctx.violate('C19:reply:%s' % label, 'send_and_receive_raw does not return what the property demands for '
                        'this ipmitool output', case, expected=want, observed=code)
    ctx.sample({'reply': ascii(cases[17][1]), 'rc': 0, 'code': real_recv(cases[17][1].encode('latin-1'), 0)})


def sim_run(work, iface, stdout, stderr, rc):
    """End to end: real send_and_receive_raw -> real /bin/sh -> simulator stub."""
    for name, txt in (('sim_out', stdout), ('sim_err', stderr), ('sim_rc', '%d\n' % rc)):
        with open(os.path.join(work.dir, name), 'w') as f:
            f.write(txt)
    i = make_iface(dict(BASE, iface=iface), work.sim)
    with work:
        try:
            return 'ok ' + lean.hexs(i.send_and_receive_raw(real_target(['a', 0x20]), 0, 6, b'\x01'))
        except Exception as e:  # noqa
            return tag_of(e)


def e2e_cases():
    bs = list(range(0x30, 0x30 + 19))
    return [('data', py_print(bs), '', 0, 'ok ' + lean.hexs([0] + bs)),
            ('empty', '\n', '', 0, 'ok 00'),
            ('cc', '', 'Unable to send RAW command (channel=0x0 netfn=0x6 lun=0x0 cmd=0x1 rsp=0xc9): Parameter out of range\n',
             1, 'ok c9'),
            ('timeout', '', 'Unable to send RAW command (channel=0x0 netfn=0x6 lun=0x0 cmd=0x1)\n', 1, 'IpmiTimeoutError'),
            ('connection', '', 'Error: Unable to establish IPMI v2 / RMCP+ session\n', 1, 'py:IpmiConnectionError')]


def run_e2e(ctx, work):
    for iface in ('lan', 'lanplus', 'open', 'serial-terminal'):
        for label, so, se, rc, want in e2e_cases():
            if iface == 'serial-terminal' and label == 'connection':
                continue
            code = sim_run(work, iface, so, se, rc)
            ctx.case(('e2e', iface, label))
            ctx.count('e2e:%s' % iface)
            if code != want:
                sig = 'C19:%s:stderr-not-captured' % iface if se and code == 'py:RuntimeError' else \
                    'C19:e2e:%s:%s' % (iface, label)
                ctx.violate(sig, 'through the real shell, with ipmitool\'s messages on stderr as ipmitool writes them, '
                            'the %s interface does not map this reply as the property demands' % iface,
                            {'kind': 'e2e', 'iface': iface, 'stdout': so, 'stderr': se, 'rc': rc, 'label': label},
                            expected=want, observed=code)


# ---------------------------------------------------------------------------------------------
# histories: several calls on ONE Ipmitool object (settings changed in between), each call judged
# on its own.  Executed in a pristine child process (harness/sim/pristine.py).

LEVEL_WORDS = {2: 'user', 3: 'operator', 4: 'administrator'}
DEFAULT_SETTINGS = {'host': '10.0.1.1', 'port': 623, 'level': 4, 'auth': None, 'serial_port': '/dev/ttyS0',
                    'baud': 115200}


def _jauth(a):
    return None if a is None else [cps(a[0]), cps(a[1])]


def _auth(j):
    return None if j is None else (from_cps(j[0]), from_cps(j[1]))


def exec_history(case):
    """Run the steps of `case` on one Ipmitool object in THIS process.  Every command line the object
    builds is executed by the real /bin/sh with the argv-printing stub; the call then gets the step's
    canned ipmitool output.  -> {'stub': path, 'steps': [None | {cmd, argv, rc, stderr_captured, raised, ret}]}"""
    work = Work()
    try:
        from pyipmi.interfaces.ipmitool import Ipmitool
        from pyipmi import Session

        def new_session(cfg, iface):
            ses = Session()
            ses.interface = iface
            ses.set_session_type_rmcp(cfg['host'], cfg['port'])
            ses.set_session_type_serial(cfg['serial_port'], cfg['baud'])
            ses.set_priv_level(LEVEL_WORDS[cfg['level']])
            if cfg['auth'] is not None:
                a = _auth(cfg['auth'])
                ses.set_auth_type_user(a[0], a[1])
            return ses

        cfg = dict(DEFAULT_SETTINGS, **case.get('session', {}))
        out = []
        try:
            i = Ipmitool(interface_type=case['iface'], cipher=case.get('cipher'))
        except Exception as e:  # noqa
            return {'stub': work.stub, 'steps': [], 'construct': tag_of(e)}
        i.IPMITOOL_PATH = work.stub
        ses = new_session(cfg, i)
        i.establish_session(ses)
        real_run = i._run_ipmitool
        cur = {}

        def recording(cmd):
            rec = cur['rec']
            rec['cmd'] = cmd
            o, rc = real_run(cmd)
            rec['rc'] = rc
            rec['stderr_captured'] = o.endswith(b'E')
            body = o[:-1] if o.endswith(b'E') else o
            parts = body.split(b'\0')
            rec['argv'] = [os.fsdecode(x) for x in parts[:-1]] if len(parts) > 1 and parts[-1] == b'' else None
            rec['commands'] = rec.get('commands', 0) + 1
            return cur['reply']
        i._run_ipmitool = recording
        targets, objs = {}, {}
        with work:
            for st in case['steps']:
                do = st['do']
                if do == 'set':
                    if 'auth' in st:
                        cfg['auth'] = st['auth']
                        if st['auth'] is None:
                            ses.auth_type = Session.AUTH_TYPE_NONE
                        else:
                            a = _auth(st['auth'])
                            ses.set_auth_type_user(a[0], a[1])
                    if 'host' in st or 'port' in st:
                        cfg['host'], cfg['port'] = st.get('host', cfg['host']), st.get('port', cfg['port'])
                        ses.set_session_type_rmcp(cfg['host'], cfg['port'])
                    if 'level' in st:
                        cfg['level'] = st['level']
                        ses.set_priv_level(LEVEL_WORDS[st['level']])
                    out.append(None)
                    continue
                if do == 'establish':
                    if st.get('fresh'):
                        ses = new_session(cfg, i)
                    i.establish_session(ses)
                    out.append(None)
                    continue
                rec = {'cmd': None, 'argv': None, 'rc': None, 'stderr_captured': None, 'raised': None, 'ret': None}
                cur['rec'] = rec
                rp = st.get('reply')
                cur['reply'] = (b' 00\n', 0) if rp is None else (from_cps(rp['output']).encode('latin-1'), rp['rc'])
                try:
                    if do == 'ping':
                        if rp is None:
                            cur['reply'] = (b'', st.get('rc', 0))
                        i.rmcp_ping()
                        rec['ret'] = 'returned'
                    elif do == 'accessible':
                        if rp is None:
                            cur['reply'] = (b'', st.get('rc', 0))
                        rec['ret'] = 'accessible=%s' % i.is_ipmc_accessible(None)
                    else:
                        if st.get('obj') is not None:
                            # a NAMED Target object: created in the state of its first step, afterwards MUTATED in place
                            # (ipmb_address assignment, set_routing / set_routing_information) into the state the step
                            # names - the request must carry the options of the state the object has NOW
                            if st['obj'] not in objs:
                                objs[st['obj']] = [real_target(st.get('target')), st.get('target')]
                            else:
                                o_ = objs[st['obj']]
                                retarget(o_[0], o_[1], st.get('target'), st.get('via'))
                                o_[1] = st.get('target')
                            tg = objs[st['obj']][0]
                        else:
                            key = tgt_token(st.get('target'))
                            if key not in targets:       # the same Target object serves every request to that target
                                targets[key] = real_target(st.get('target'))
                            tg = targets[key]
                        rec['ret'] = 'ok ' + lean.hexs(i.send_and_receive_raw(tg, st['lun'], st['netfn'],
                                                                             bytes(bytearray(st['raw']))))
                except Exception as e:  # noqa
                    rec['raised'] = tag_of(e)
                out.append(rec)
        return {'stub': work.stub, 'steps': out}
    finally:
        work.cleanup()


def effective_cases(case):
    """the single-call case every call step amounts to (settings in force at that moment); None for other steps"""
    cfg = dict(DEFAULT_SETTINGS, **case.get('session', {}))
    out = []
    for st in case['steps']:
        if st['do'] == 'set':
            for k in ('auth', 'host', 'port', 'level'):
                if k in st:
                    cfg[k] = st[k]
            out.append(None)
        elif st['do'] == 'establish':
            out.append(None)
        else:
            c = {'op': 'ping' if st['do'] in ('ping', 'accessible') else 'raw', 'iface': case['iface'],
                 'host': cfg['host'], 'port': cfg['port'], 'level': cfg['level'], 'auth': _auth(cfg['auth']),
                 'serial_port': cfg['serial_port'], 'baud': cfg['baud']}
            if case.get('cipher') is not None:
                c['cipher'] = case['cipher']
            if c['op'] == 'raw':
                c.update(target=st.get('target'), lun=st['lun'], netfn=st['netfn'], raw=st['raw'])
            out.append((c, dict(cfg)))
    return out


class _Collect(object):
    def __init__(self, ctx=None):
        self.ctx = ctx
        self.violations = []

    def violate(self, signature, what, case, expected=None, observed=None):
        self.violations.append({'signature': signature, 'what': what, 'case': case, 'expected': expected,
                                'observed': observed})

    def disagree(self, *a, **k):
        if self.ctx is not None:
            self.ctx.disagree(*a, **k)

    def count(self, *a, **k):
        if self.ctx is not None:
            self.ctx.count(*a, **k)


def expected_argv(eff, stub):
    if eff['op'] == 'ping' and eff['iface'] == 'serial-terminal':
        return None
    return twin_argv(eff, stub)


def history_findings(case, res, ctx=None, drv=None, var=None):
    """Property oracle, step by step.  -> [(step, signature, what, expected, observed)]"""
    found = []
    effs = effective_cases(case)
    stub = res['stub']
    calls = [(k, effs[k][0], res['steps'][k]) for k in range(min(len(effs), len(res['steps']))) if effs[k] is not None]
    el = md = wd = [None] * len(calls)
    if drv is not None:
        el = drv.ask_many([spec_line(e, stub) for _, e, _ in calls])
        md = drv.ask_many([model_line(e, var, stub) for _, e, _ in calls])
        wd = drv.ask_many([('words ' + enc(g['cmd'])) if g['cmd'] is not None else 'ping' for _, _, g in calls])
    for (k, eff, got), e_l, m_d, w_d in zip(calls, el, md, wd):
        expected = expected_argv(eff, stub)
        if expected is not None and e_l is not None:
            la = parse_argv(e_l)
            if la != expected and ctx is not None:
                ctx.disagree('spec-twin', jcase(eff), e_l[:300], repr(expected)[:300])
            expected = la
        st = case['steps'][k]
        g = dict(got)
        own_error = None
        if st['do'] != 'raw' or st.get('reply') is not None:
            # what the call raises is decided by the canned reply, not by the command line
            own_error, g['raised'] = g['raised'], None
            if g['cmd'] is None and own_error is not None and expected is not None:
                g['raised'] = own_error          # raised before any command was started
        col = _Collect(ctx)
        have_cmd = g['cmd'] is not None
        judge_shell(col, eff, g, expected, w_d if have_cmd else None, m_d if have_cmd else None, 'history',
                    quiet=(drv is None))
        for v in col.violations[:1]:
            found.append((k, v['signature'], v['what'], v['expected'], v['observed']))
        if got.get('commands', 0) > 1:
            found.append((k, 'C19:more-than-one-command', 'one call started the program %d times' % got['commands'],
                          1, got['commands']))
        rp = st.get('reply')
        if rp is not None and st['do'] == 'raw':
            ret = got['raised'] or got['ret']
            if rp.get('want') is not None and ret != rp['want']:
                found.append((k, 'C19:reply:%s' % rp['label'], 'send_and_receive_raw does not return what the property '
                              'demands for this ipmitool output', rp['want'], ret))
            if drv is not None:
                m = drv.ask('recv %d %s' % (rp['rc'], enc(from_cps(rp['output']))))
                if m != ret and ctx is not None:
                    ctx.disagree('recv-history', dict(case, step=k), m, ret)
    return found


def _step_text(st):
    if st['do'] == 'set':
        parts = []
        if 'auth' in st:
            parts.append('auth=%s' % ('NONE' if st['auth'] is None else [ascii(x) for x in _auth(st['auth'])]))
        parts += ['%s=%s' % (k, st[k]) for k in ('host', 'port', 'level') if k in st]
        return 'session settings changed: ' + ', '.join(parts)
    if st['do'] == 'establish':
        return 'establish_session(%s)' % ('a new Session with the same settings' if st.get('fresh') else 'the same Session')
    if st['do'] == 'raw':
        rp = st.get('reply')
        obj = ''
        if st.get('obj') is not None:
            obj = 'Target object %r, created in / changed in place (%s) to the state ' % (
                st['obj'], {'string': 'set_routing("[...]")', None: 'ipmb_address = … / set_routing'}.get(st.get('via'), st.get('via')))
        return 'send_and_receive_raw(%starget %s, lun %d, netfn %d, %d bytes)%s' % (
            obj, tgt_token(st.get('target')), st['lun'], st['netfn'], len(st['raw']),
            '' if rp is None else ' answered with %s rc=%d' % (ascii(from_cps(rp['output']))[:80], rp['rc']))
    return {'ping': 'rmcp_ping()', 'accessible': 'is_ipmc_accessible()'}[st['do']] + \
        (' (program exits with %d)' % st['rc'] if st.get('rc') else '')


HIST_TARGETS = [None, ['a', 0x20], ['a', 0x82], ['r', 0, [[0x81, 0x20, 7], [0x20, 0x82, 0]]],
                ['r', 0, [[0x81, 0x20, 0], [0x20, 0x82, 7], [0x20, 0x72, 0]]]]
HIST_AUTHS = [None, ('admin', 'secret'), ('root', 'pw 1'), ('', ''), ('a"b$c`d\\e', '$HOME `id`'), ('admin', 'other')]


def _raw_step(rng, target=None, reply=None):
    st = {'do': 'raw', 'target': target if target is not None else rng.choice(HIST_TARGETS), 'lun': rng.randrange(4),
          'netfn': rng.randrange(64), 'raw': [rng.randrange(256) for _ in range(rng.choice([1, 2, 5]))]}
    if reply is not None:
        st['reply'] = reply
    return st


# routings by depth (two of each): shelf manager only; blade behind it; AMC behind a carrier / MCH (README examples)
ROUTES = {1: [[[0x81, 0x20, 0]], [[0x81, 0x10, 7]]],
          2: [[[0x81, 0x20, 7], [0x20, 0x84, 0]], [[0x81, 0x20, 0], [0x20, 0x82, 0]]],
          3: [[[0x81, 0x20, 0], [0x20, 0x82, 7], [0x20, 0x72, 0]], [[0x81, 0x20, 0], [0x20, 0x8e, 7], [0x20, 0x80, 0]]]}


def _tstate(t):
    return 'address' if t[0] == 'a' else 'routing-depth-%d' % len(t[2])


def _obj_step(rng, obj, target, via=None):
    """a raw request through the NAMED Target object `obj`: its first step creates it in state `target`, every later
    one changes the existing object in place into `target` (see retarget) before the request"""
    st = _raw_step(rng, target)
    st['obj'] = obj
    if via is not None:
        st['via'] = via
    return st


def gen_histories(ctx, rng):
    """(label, case)"""
    out = []

    def add(label, iface, auth, steps, cipher=None, **ses):
        c = {'kind': 'history', 'iface': iface, 'cipher': cipher,
             'session': dict({'auth': _jauth(auth)}, **ses), 'steps': steps}
        out.append((label, c))
    ping, acc = {'do': 'ping'}, {'do': 'accessible'}
    for iface in ('lan', 'lanplus', 'open', 'serial-terminal'):
        for auth in (None, ('admin', 'secret'), ('a"b$c`d\\e', 'p w')):
            r = lambda: _raw_step(rng)      # noqa: E731
            add('ping>raw', iface, auth, [ping, r()])
            add('raw>ping', iface, auth, [r(), ping])
            add('accessible>raw>ping>raw', iface, auth, [acc, r(), ping, r()])
            add('raw>raw', iface, auth, [r(), r(), r()])
            add('failed-ping>raw>ping', iface, auth, [dict(ping, rc=1), r(), dict(acc, rc=1), ping])
            for other in (None, ('admin', 'secret'), ('admin', 'other'), ('root', 'secret')):
                if other == auth:
                    continue
                chg = {'do': 'set', 'auth': _jauth(other)}
                add('raw>auth-changed>raw', iface, auth, [r(), chg, r()])
                add('ping>auth-changed>raw>ping', iface, auth, [ping, chg, r(), ping])
                add('raw>auth-changed>established-again>ping>raw', iface, auth,
                    [r(), chg, {'do': 'establish', 'fresh': bool(rng.randrange(2))}, ping, r()])
            add('ping>established-again>raw', iface, auth, [ping, {'do': 'establish', 'fresh': True}, r()])
            add('raw>established-again>ping', iface, auth, [r(), {'do': 'establish', 'fresh': False}, ping])
            add('raw>host-port-changed>raw>ping', iface, auth,
                [r(), {'do': 'set', 'host': 'bmc-7.example.org', 'port': 6230}, r(), ping])
            add('raw>level-changed>raw', iface, auth, [r(), {'do': 'set', 'level': 2}, r(), {'do': 'set', 'level': 3}, r()],
                cipher=rng.choice([None, 3, '17']))
            t = rng.choice(HIST_TARGETS[3:])
            add('same-target-object-twice', iface, auth, [_raw_step(rng, t), _raw_step(rng, ['a', 0x20]), _raw_step(rng, t)])
            # ONE Target object, used, then CHANGED IN PLACE (Target is mutable: ipmb_address, set_routing,
            # set_routing_information), used again: every request carries the options of the state the object has at
            # that moment.  Address changes; routing depth 1 -> 2 -> 3 -> 3 (other AMC) -> 1 -> 2; the README idiom (plain
            # address first, routing set afterwards) and back to a plain address
            vias = [None, 'set_routing_information', 'string']
            rng.shuffle(vias)
            add('target-object-readdressed', iface, auth,
                [_obj_step(rng, 'T', ['a', 0x20]), _obj_step(rng, 'T', ['a', 0x82]),
                 _obj_step(rng, 'T', ['a', rng.choice([0x72, 0x74, 0xb0, 1, 0xff])]), _obj_step(rng, 'T', ['a', 0x20])])
            add('target-object-rerouted', iface, auth,
                [_obj_step(rng, 'T', ['r', 0, ROUTES[1][0]]), _obj_step(rng, 'T', ['r', 0, ROUTES[2][0]], vias[0]),
                 _obj_step(rng, 'T', ['r', 0, ROUTES[3][0]], vias[1]), _obj_step(rng, 'T', ['r', 0, ROUTES[3][1]], vias[2]),
                 _obj_step(rng, 'T', ['r', 0, ROUTES[1][1]], vias[0]), _obj_step(rng, 'T', ['r', 0, ROUTES[2][1]], vias[1])])
            add('target-object-addressed-then-routed', iface, auth,
                [_obj_step(rng, 'T', ['a', 0x20]), _obj_step(rng, 'T', ['r', 0x20, ROUTES[2][0]], vias[2]),
                 _obj_step(rng, 'U', ['a', 0x74]), _obj_step(rng, 'T', ['r', 0x82, ROUTES[3][0]], vias[0]),
                 _obj_step(rng, 'T', ['a', 0x82]), _obj_step(rng, 'U', ['a', 0x76])])
    n = 60 if ctx.tier == 'quick' else 1500
    for it in range(n):
        iface = rng.choice(['lan', 'lanplus', 'lan', 'lanplus', 'open', 'serial-terminal'])
        steps = []
        ncalls = rng.choice([2, 2, 3, 3, 4])
        objmode = rng.random() < 0.35        # most requests of this history go through named, re-used Target objects
        while sum(1 for s_ in steps if s_['do'] in ('ping', 'accessible', 'raw')) < ncalls:
            x = rng.random()
            if x < (0.08 if objmode else 0.34):
                steps.append(_raw_step(rng))
            elif x < 0.4:
                # one of two named Target objects, changed in place to a new state before each further use
                t = rand_target(rng) if rng.random() < 0.5 else rng.choice(HIST_TARGETS[1:])
                while t is None or (t[0] == 'r' and len(t[2]) > 3):
                    t = rand_target(rng)
                steps.append(_obj_step(rng, rng.choice(['T', 'T', 'T', 'U']), t,
                                       rng.choice([None, None, 'set_routing_information', 'string'])))
            elif x < 0.6:
                steps.append(dict(ping, rc=rng.choice([0, 0, 0, 1])))
            elif x < 0.7:
                steps.append(dict(acc, rc=rng.choice([0, 0, 1])))
            elif x < 0.85:
                chg = {'do': 'set'}
                y = rng.random()
                if y < 0.6:
                    chg['auth'] = _jauth(rng.choice(HIST_AUTHS))
                elif y < 0.8:
                    chg['host'], chg['port'] = rand_host(rng), rng.choice([623, 1, 65535])
                else:
                    chg['level'] = rng.choice([2, 3, 4])
                steps.append(chg)
            else:
                steps.append({'do': 'establish', 'fresh': bool(rng.randrange(2))})
        add('random', iface, rng.choice(HIST_AUTHS), steps, cipher=rng.choice([None, None, 0, '0', 3, 254]),
            host=rand_host(rng), port=rng.choice([623, 623, 7001]), level=rng.choice([2, 3, 4]))
    # reply side: one long-lived object reads a sequence of replies, each judged on its own
    rcases = [c for c in reply_cases(ctx, ctx.rng('history-replies')) if c[0] != 'noise']
    judged = [c for c in rcases if c[3] is not None]
    for it in range(24 if ctx.tier == 'quick' else 400):
        iface = ('lan', 'lanplus', 'open', 'serial-terminal')[it % 4]
        steps = []
        for _ in range(rng.choice([3, 4, 6])):
            label, o, rc, want = rng.choice(judged) if rng.random() < 0.9 else rng.choice(rcases)
            if iface == 'serial-terminal' and 'connection' in label:
                continue
            steps.append(_raw_step(rng, ['a', 0x20], {'label': label, 'output': cps(o), 'rc': rc, 'want': want}))
        if rng.random() < 0.3:
            steps.insert(rng.randrange(len(steps) + 1), dict(ping, rc=rng.choice([0, 1])))
        add('replies', iface, ('admin', 'secret'), steps)
    return out


def _history_sig(sig):
    return 'C19:history:' + sig[len('C19:'):]


_PRISTINE = None


def _preload():
    import pyipmi  # noqa: F401
    import pyipmi.interfaces.ipmitool  # noqa: F401


_CTX_CLASS = None


def _pristine(ctx=None):
    global _PRISTINE, _CTX_CLASS
    if _PRISTINE is None:
        if ctx is not None:
            _CTX_CLASS = ctx.__class__
        try:
            _PRISTINE = pristine.Pristine({'history': exec_history, 'replay': _child_replay}, _preload)
        except OSError:
            _PRISTINE = False
    return _PRISTINE or None


def _alone(case, k):
    """the failing call alone, on a new object that carries the settings in force at that step"""
    cfg = effective_cases(case)[k][1]
    return dict(case, session=cfg, steps=[case['steps'][k]])


def run_histories(ctx, var):
    p = _pristine()
    drv = ctx.driver('drv_c19') if _driver_ok(ctx) else None
    rng = ctx.rng('history')
    ncalls = 0
    for label, case in gen_histories(ctx, rng):
        if ctx.time_left() < 15:
            ctx.notes.append('history stream cut short by the time budget')
            break
        try:
            res = p.call('history', case) if p is not None else exec_history(case)
        except pristine.PristineError as e:
            ctx.notes.append('history %s could not be executed: %s' % (label, str(e)[-200:]))
            continue
        steps = case['steps']
        ctx.case(('history', case['iface'], repr(case['cipher']), repr(sorted(case['session'].items())), repr(steps)))
        ctx.count('history:' + label)
        ctx.count('history:iface=' + case['iface'])
        calls = [s_['do'] for s_ in steps if s_['do'] in ('ping', 'accessible', 'raw')]
        ncalls += len(calls)
        ctx.count('history:calls=%d' % len(calls))
        for a, b in zip(calls, calls[1:]):
            ctx.count('history:%s-then-%s' % (a, b))
        seen_obj = {}
        for s_ in steps:
            if s_.get('obj') is not None:
                if s_['obj'] in seen_obj:
                    ctx.count('history:target-object-changed-in-place:%s:%s->%s' % (
                        case['iface'], _tstate(seen_obj[s_['obj']]), _tstate(s_['target'])))
                seen_obj[s_['obj']] = s_['target']
        found = history_findings(case, res, ctx, drv, var)
        if not found:
            continue
        k, sig, what, exp, obs = found[0]
        alone = None
        if p is not None and res.get('steps'):
            try:
                ac = _alone(case, k)
                alone = [f for f in history_findings(ac, p.call('history', ac)) if f[1] == sig]
            except pristine.PristineError:
                alone = None
        if alone:
            ac = dict(_alone(case, k), label='single call')
            ctx.violate(sig, what, ac, expected=alone[0][3], observed=alone[0][4])
            continue
        case, res = shrink_history(p, case, res, sig)
        k, sig, what, exp, obs = [f for f in history_findings(case, res) if f[1] == sig][0]
        ctx.violate(_history_sig(sig),
                    'step %d of a history on one Ipmitool object (%s): %s; the same call on a new object with the same '
                    'settings is right' % (k, _step_text(case['steps'][k]), what), dict(case, label=label),
                    expected=exp, observed=obs)
    ctx.extra['history_calls'] = ncalls


def shrink_history(p, case, res, sig):
    steps = list(case['steps'])
    progress, budget = True, 30
    while p is not None and progress and budget > 0:
        progress = False
        for k in range(len(steps) - 1, -1, -1):
            if len(steps) <= 1:
                break
            cand = dict(case, steps=steps[:k] + steps[k + 1:])
            budget -= 1
            try:
                r2 = p.call('history', cand)
            except pristine.PristineError:
                continue
            if any(f[1] == sig for f in history_findings(cand, r2)):
                steps, res, progress = cand['steps'], r2, True
                break
    return dict(case, steps=steps), res


# ---------------------------------------------------------------------------------------------

def run(ctx):
    _pristine(ctx)       # forked now: this process has not used the back-end yet
    work = Work()
    first = 0
    try:
        var = probe_variant()
        ctx.extra['variant(escape,cipherNotNone,depth1,pingOpts)'] = var
        rng = ctx.rng('c19')
        # 0. histories on one object (in pristine child processes)
        run_histories(ctx, var)
        first = len(ctx.violations)
        # 1. credentials through the real shell
        creds = credential_cases(ctx, rng)
        run_shell_cases(ctx, work, creds, var)
        # 2. options through the real shell
        opts = [('option', c) for c in option_cases(ctx, rng)]
        res = run_shell_cases(ctx, work, opts, var)
        for (_, c), r in list(zip(opts, res))[:3] + list(zip(creds[200:202], [None, None])):
            if r is not None:
                ctx.sample({'case': jcase(c), 'cmd': r['cmd'], 'argv': r['argv']})
        # 3. reply side
        run_reply(ctx, var)
        run_e2e(ctx, work)
        leftovers = sorted(os.listdir(os.path.join(work.dir, 'cwd')))
        if leftovers:
            ctx.notes.append('command lines broken by unescaped credentials created %d files in the scratch cwd, e.g. %s'
                             % (len(leftovers), [ascii(x) for x in leftovers[:4]]))
    finally:
        work.cleanup()
        _confirm_single_calls(ctx, first)


def _child_replay(v):
    c = _CTX_CLASS('C19', 'quick', 0)
    try:
        import contextlib
        import io
        with contextlib.redirect_stdout(io.StringIO()):
            return bool(replay(c, v))
    finally:
        c.close()


def _confirm_single_calls(ctx, first_index):
    """The single-call streams make thousands of calls in this process (eight threads).  A violation they report is
    re-run alone in a pristine child: when it does not show there it depends on what other calls left behind in the
    process, and its signature says so (the history stream, run first, is where such state gets a replay)."""
    p = _pristine(ctx)
    if p is None:
        return
    settled, dependent, budget = set(), {}, 12
    for v in ctx.violations[first_index:]:
        sig = v['signature']
        if v['case'].get('kind') == 'history' or sig in settled:
            continue
        if dependent.get(sig, 0) < 3:
            if budget <= 0:
                break
            budget -= 1
            try:
                if p.call('replay', v):
                    settled.add(sig)
                    continue
            except pristine.PristineError as e:
                ctx.notes.append('confirmation of %s in a new process failed: %s' % (sig, str(e)[-160:]))
                continue
            dependent[sig] = dependent.get(sig, 0) + 1
            v['what'] += ' - NOT reproduced by this call alone in a new process: it depends on calls made earlier in ' \
                         'the same process (see the C19:history:* findings for a replay)'
        v['signature'] = _history_sig(sig)


def search(ctx):
    """A tie broke and `run` found no property violation: the property oracles already ran on the
    real code over the whole generated domain, so there is nothing further to try cheaply; a builder
    disagreement whose argv is right is explained as such."""
    for d in ctx.disagreements:
        if d['what'] == 'builder':
            ctx.notes.append('builder model and code differ but the program received the demanded argv')


def replay(ctx, v):
    case = v['case']
    work = Work()
    try:
        if case.get('kind') == 'history':
            res = exec_history(case)
            found = history_findings(case, res)
            bad = dict((f[0], f) for f in reversed(found))
            effs = effective_cases(case)
            print('one Ipmitool(interface_type=%r, cipher=%r) object, session %s' % (
                case['iface'], case.get('cipher'), dict(case['session'], auth=None if case['session'].get('auth') is None
                                                       else [ascii(x) for x in _auth(case['session']['auth'])])))
            for k, st in enumerate(case['steps']):
                print('step %d: %s' % (k, _step_text(st)))
                got = res['steps'][k] if k < len(res['steps']) else None
                if got is None:
                    continue
                exp = pick_expected(effs[k][0], expected_argv(effs[k][0], res['stub']), got)
                print('    program got  : %s%s' % (None if got['argv'] is None else [ascii(x) for x in got['argv'][1:]],
                                                  '' if not got['raised'] else '  raised ' + got['raised']))
                print('    must receive : %s' % (None if exp is None else [ascii(x) for x in exp[1:]]))
                if st.get('reply') is not None:
                    print('    returned %s, property demands %s' % (got['raised'] or got['ret'], st['reply'].get('want')))
                if k in bad:
                    print('    WRONG: %s' % bad[k][1])
            return bool(found)
        if case.get('kind') == 'reply':
            o = from_cps(case['output'])
            code = real_recv(o.encode('latin-1'), case['rc'])
            print('ipmitool output %s rc=%d' % (ascii(o)[:200], case['rc']))
            print('  send_and_receive_raw: %s' % code)
            print('  property demands:     %s' % v.get('expected'))
            return code != v.get('expected')
        if case.get('kind') == 'e2e':
            code = sim_run(work, case['iface'], case['stdout'], case['stderr'], case['rc'])
            print('interface %s; ipmitool writes stdout=%s stderr=%s exit=%d' % (
                case['iface'], ascii(case['stdout']), ascii(case['stderr']), case['rc']))
            print('  send_and_receive_raw: %s' % code)
            print('  property demands:     %s' % v.get('expected'))
            return code != v.get('expected')
        c = unjcase(case)
        with work:
            got = run_real(c, work.stub)
        expected = pick_expected(c, twin_argv(c, work.stub), got)
        print('case: %s' % {k: (ascii(x) if isinstance(x, str) else x) for k, x in c.items()})
        print('  command line : %s' % (ascii(got['cmd']) if got['cmd'] is not None else '(none: %s)' % got['raised']))
        print('  program got  : %s (sh exit status %s)' % (
            None if got['argv'] is None else [ascii(x) for x in got['argv']], got['rc']))
        print('  must receive : %s' % (None if expected is None else [ascii(x) for x in expected]))
        c2 = ctx.__class__('C19', 'quick', 0)
        return judge_shell(c2, c, got, expected, None, None, 'replay', quiet=True, work=work)
    finally:
        work.cleanup()
