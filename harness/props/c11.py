"""C11 - SDR retrieval is exact, complete and survives reservation loss."""
import json

from ..lib import lean
from ..sim import dev11
from ..translate import loops11

ID = 'C11'
TARGETS = ['PyIpmi.Props.C11', 'drv_c11']
LEVEL = 'proof'
RULE = ('a case = (reference SDR device: repository and device-SDR store of 0..40 records of 5..260 bytes with arbitrary '
        'distinct ids incl. 0000h (first) and FFFEh, per-read limit 1..255 signalled by CAh, reservation checked on partial '
        'reads only or on every read, starting reservation counters, reservation cancelled before chosen request indices, '
        'C3h/CEh at chosen request indices) x one operation of the real Ipmi object (get_repository_sdr / get_device_sdr '
        'with or without a caller reservation, sdr_repository_entries / device_sdr_entries, get_repository_sdr_list / '
        'get_device_sdr_list) run through the real codec against the byte-level device, time.sleep substituted.  Compared '
        'with the Lean model: outcome, record bytes / next id, the complete request/response trace; the Python device is '
        'compared byte by byte with the Lean reference device on every trace.  Independently every case is judged by the '
        'property: a returned record is the stored one with its successor id; a returned list is all records once in '
        'order; any other end is RetryError/CompletionCodeError; a Get answered C5h is followed by the Reserve of the same '
        'store and no Reserve of the other store is ever issued; reads that fit the budget (limit >= 5, iterations <= 19, <= 2 cancellations, no transients) complete.  '
        'Directed: lengths 5,6,24,25,26,64,255..260 x limits 3,4,5,8,12,16,19,20,21,255; a cancellation / transient / burst of 3 and of 4 transients (chunk budget) before '
        'every request index of the fault-free run, pairs and triples of cancellations.  Distinct by (device, operation); '
        'non-trivial = at least three exchanges.  HISTORIES on ONE Ipmi object over BOTH stores against one device: store '
        'A read or listed, then store B read or listed with a cancellation / a C3h|CEh before EVERY request index, then '
        'back to A with a cancellation at every index (all four get/list combinations, both orders); random sequences '
        'of 2..5 operations alternating between the stores with cancellations and transients.  Every step is judged by '
        'the same oracles against the device as it stands when the step starts, and must equal - outcome and trace - the '
        'same operation by a fresh Ipmi object on a fresh device in that state, which is what the Lean model computes '
        '(no state between calls); a violation a fresh object does not show is reported as ...:after-earlier-operations '
        'with the shrunk history.')
ASSUMPTIONS = [
    'the device is the Lean reference device (Spec/SdrDevice.lean, IPMI v2.0 33.11/33.12/35.3/35.4): exactly the requested '
    'bytes or CAh above its limit, C5h for a missing/stale reservation, CBh for an unknown record, C9h out of range; its '
    'Python twin (harness/sim/dev11.py) is re-validated against it on every trace',
    'control flow of get_sdr_data_helper / get_sdr_chunk_helper / the chunk readers / the entries generators is modelled by '
    'hand (Model/SdrXfer.lean, Model/Retry.lean) and tied by this correspondence run; constants, loop tests, header layout and '
    'call sites are re-read from the source by harness/translate/loops11.py on every run',
    'record parsing (SdrCommon.from_data) is not part of the model: generated records use types the library does not parse '
    'beyond the common header; C16 covers parsing',
    'Python lists have no iteration bound: the model gives the listing fuel = number of records + 1 (theorem fuel_suffices)',
    'history steps pass no caller reservation (each starts with its own Reserve), so the reservation an earlier step left '
    'valid in the device cannot matter and a step is comparable with a fresh device in the same state',
    'request fields wider than the codec fields are truncated by the codec (ids 16 bit, offset/count 8 bit); the theorems assume '
    'record ids < 65536',
    'whether the reservation id obtained by a renewal is used for the FOLLOWING chunks and records is not demanded by this '
    'property (a Get answered C5h must be followed by the Reserve of the same store and the read must complete - both hold '
    'either way: the dropped id costs one rejected request and one more Reserve per partial read, within the chunk budget); it is '
    'C13\'s clause "always use the most recently obtained reservation" (C13:data_helper:stale-reservation-after-renewal, '
    'fixes/C13-2).  The model has the flag (Variant.staleRes), the check probes it on the real code and compares every request '
    'including its reservation field; every theorem of Props/C11.lean holds for both values',
]
TRUSTED = ['harness/translate/loops11.py', 'harness/sim/dev11.py', 'harness/props/c11.py (generators, oracle)']

NETFN = {'r': dev11.NETFN_STORAGE, 'd': dev11.NETFN_SENSOR}
GETCMD = {'r': dev11.CMD_GET_SDR, 'd': dev11.CMD_GET_DEVICE_SDR}
STORE_NAME = {'r': 'repository', 'd': 'device'}
API = {('get', 'r'): 'get_repository_sdr', ('get', 'd'): 'get_device_sdr',
       ('entries', 'r'): 'sdr_repository_entries', ('entries', 'd'): 'device_sdr_entries',
       ('list', 'r'): 'get_repository_sdr_list', ('list', 'd'): 'get_device_sdr_list'}
# record types SdrCommon.from_data does not parse beyond the 5-byte header
PLAIN_TYPES = [0x08, 0x09, 0x0A, 0x10, 0x14, 0x04, 0x7F, 0xC1, 0xFF, 0x00]
DIRECTED_LEN = [5, 6, 24, 25, 26, 64, 255, 256, 257, 258, 259, 260]
DIRECTED_LIMIT = [3, 4, 5, 8, 12, 16, 19, 20, 21, 255]

_gen = None


def translate(ctx):
    global _gen
    _gen = loops11.generate()


# ---- device description <-> twin / driver --------------------------------------------------

def make_dev(repo=(), dev=(), limit=255, strict=False, cancels=(), transients=(), res0=(0, 0)):
    return {'repo': [lean.hexs(r) for r in repo], 'dev': [lean.hexs(r) for r in dev], 'limit': limit,
            'strict': bool(strict), 'cancels': sorted(set(cancels)), 'transients': [list(t) for t in transients],
            'res0': list(res0)}


def twin(d):
    return dev11.SdrDevice(repo=[lean.unhex(h) for h in d['repo']], dev=[lean.unhex(h) for h in d['dev']],
                           limit=d['limit'], strict=d['strict'], cancels=d['cancels'],
                           transients=[tuple(t) for t in d['transients']], res0=tuple(d['res0']))


def recs_of(d, store):
    return [lean.unhex(h) for h in d['repo' if store == 'r' else 'dev']]


def show_trace(log):
    return ','.join('%d:%d:%s>%s' % (nf, cmd, lean.hexs(q), lean.hexs(a)) for nf, cmd, q, a in log) or '-'


def _rec_bytes(s):
    return bytes(bytearray(s.data.array))


def real_op(ipmi, op):
    kind, store = op[0], op[1]
    if kind == 'get':
        fn = ipmi.get_repository_sdr if store == 'r' else ipmi.get_device_sdr
        s = fn(int(op[2]), None if op[3] is None else int(op[3]))
        return 'ok %d %s' % (s.next_id, lean.hexs(_rec_bytes(s)))
    if kind == 'entries':
        g = ipmi.sdr_repository_entries() if store == 'r' else ipmi.device_sdr_entries()
        l = list(g)
    else:
        l = ipmi.get_repository_sdr_list() if store == 'r' else ipmi.get_device_sdr_list()
    return 'ok ' + (','.join(lean.hexs(_rec_bytes(s)) for s in l) or '-')


def run_real(d, op, cap=20000):
    device = twin(d)
    ipmi, _ = dev11.make_ipmi(device.handle, cap=cap)
    with dev11.no_sleep():
        tag, val = dev11.outcome_of(lambda: real_op(ipmi, op))
    return (val if tag == 'ok' else tag), device


def model_line(d, op, variant):
    if op[0] == 'get':
        return 'get %s %s %d %s' % (op[1], variant, int(op[2]), '-' if op[3] is None else int(op[3]))
    n = len(d['repo' if op[1] == 'r' else 'dev'])
    return 'list %s %s %d' % (op[1], variant, n + 1)


# ---- the property, judged on the real run (written from the property text) ---------------------

def rec_id(r):
    return r[0] | r[1] << 8


def wf_store(recs):
    ids = [rec_id(r) for r in recs]
    return (all(len(r) >= 5 and r[4] + 5 == len(r) for r in recs) and len(set(ids)) == len(ids)
            and 0xFFFF not in ids and all(i != 0 for i in ids[1:]))


def wf(d):
    return (wf_store(recs_of(d, 'r')) and wf_store(recs_of(d, 'd'))
            and all(c in (0xC3, 0xCE) for _, c in d['transients']))


def lookup(recs, rid):
    if not recs:
        return None
    if rid == 0:
        i = 0
    else:
        i = next((k for k, r in enumerate(recs) if rec_id(r) == rid), None)
        if i is None:
            return None
    return recs[i], (rec_id(recs[i + 1]) if i + 1 < len(recs) else 0xFFFF)


def reads_needed(limit, n):
    """Loop iterations of a shrinking-chunk reader for an n-byte record: 20-byte requests, 4 bytes
    shorter after every refusal, header (5 bytes) already read.  None = request size exhausted."""
    m, off, it = 20, 5, 0
    while True:
        it += 1
        l = min(m, n - off)
        if l > limit:
            m -= 4
            if m <= 0:
                return None
            continue
        off += l
        if off >= n:
            return it


def fits(limit, rec):
    k = reads_needed(limit, len(rec))
    return limit >= 5 and k is not None and k <= 19


def fallthrough_image(rec, limit):
    """what a reader that appends the previous chunk again after a refusal would return"""
    data, last, m = rec[:5], rec[:5], 20
    for _ in range(19):
        l = min(m, len(rec) - len(data))
        if l > limit:
            m -= 4
            if m <= 0:
                return None
            data += last
        else:
            last = rec[len(data):len(data) + l]
            data += last
        if len(data) >= len(rec):
            return data
    return None


def judge(d, op, out, log):
    """-> list of (signature, what, expected, observed)"""
    if not wf(d):
        return []
    bad = []
    kind, store = op[0], op[1]
    api = API[(kind, store)]
    recs = recs_of(d, store)
    quiet = not d['transients'] and len(d['cancels']) <= 2
    # 1. renewal with the same store's Reserve command
    for i, (nf, cmd, q, a) in enumerate(log):
        if cmd in (dev11.CMD_GET_SDR, dev11.CMD_GET_DEVICE_SDR) and a == b'\xC5':
            nxt = log[i + 1] if i + 1 < len(log) else None
            if nxt is None or (nxt[0], nxt[1]) != (nf, dev11.CMD_RESERVE):
                which = 'repository' if nf == dev11.NETFN_STORAGE else 'device'
                bad.append(('C11:%s:renew-wrong-store' % which,
                            'a Get answered C5h (reservation cancelled) is not followed by the Reserve command of the same store',
                            'request %d: netfn %d cmd %d' % (i + 1, nf, dev11.CMD_RESERVE),
                            'request %d: %s' % (i + 1, 'none' if nxt is None else 'netfn %d cmd %d' % (nxt[0], nxt[1]))))
                break
    if not bad:
        for i, (nf, cmd, q, a) in enumerate(log):
            if cmd == dev11.CMD_RESERVE and nf in (dev11.NETFN_STORAGE, dev11.NETFN_SENSOR) and nf != NETFN[store]:
                bad.append(('C11:%s:reserves-other-store' % api,
                            '%s (a read of the %s store) issued the Reserve command of the other store' % (api, STORE_NAME[store]),
                            'request %d: netfn %d cmd %d' % (i, NETFN[store], dev11.CMD_RESERVE),
                            'request %d: netfn %d cmd %d' % (i, nf, cmd)))
                break
    ok = out.startswith('ok ')
    if not ok and out != 'RetryError' and not out.startswith('CompletionCodeError:'):
        bad.append(('C11:%s:unexpected-exception:%s' % (api, out.split(':')[-1][:40]),
                    '%s ended with %s (neither a result nor RetryError / CompletionCodeError)' % (api, out),
                    'result, RetryError or CompletionCodeError', out))
    if kind == 'get':
        rid = int(op[2])
        if rid >= 0x10000:
            return bad
        hit = lookup(recs, rid)
        if ok:
            _, nxt, hx = out.split(' ')
            got = lean.unhex(hx)
            if hit is None or got != hit[0] or int(nxt) != hit[1]:
                sig = 'C11:%s:record-altered' % api
                if hit is not None and got != hit[0] and got == fallthrough_image(hit[0], d['limit']):
                    sig = 'C11:data_helper:stale-chunk-after-0xCA'
                elif hit is not None and got == hit[0]:
                    sig = 'C11:%s:next-id' % api
                bad.append((sig, '%s returned something other than the stored record and its successor id' % api,
                            'absent (CBh)' if hit is None else 'next=%d %s' % (hit[1], lean.hexs(hit[0])), out[3:]))
        elif hit is not None and quiet and fits(d['limit'], hit[0]):
            bad.append(('C11:%s:read-does-not-complete' % api,
                        '%s raised %s although limit %d and %d bytes fit the budget (%s iterations), %d cancellation(s), no '
                        'transient' % (api, out, d['limit'], len(hit[0]), reads_needed(d['limit'], len(hit[0])), len(d['cancels'])),
                        'ok next=%d %s' % (hit[1], lean.hexs(hit[0])), out))
    else:
        if ok:
            got = [] if out == 'ok -' else [lean.unhex(h) for h in out[3:].split(',')]
            if got != recs:
                sub = 'list-incomplete' if len(got) < len(recs) and all(g in recs for g in got) else 'list-differs'
                if any(g not in recs for g in got):
                    sub = 'list-record-altered'
                sig = 'C11:%s:%s' % (api, sub)
                if any(g != r and g == fallthrough_image(r, d['limit']) for g, r in zip(got, recs)):
                    sig = 'C11:data_helper:stale-chunk-after-0xCA'
                bad.append((sig,
                            '%s did not return every record exactly once in repository order' % api,
                            '%d records: %s' % (len(recs), ','.join(lean.hexs(r)[:12] for r in recs)[:300]),
                            '%d records: %s' % (len(got), ','.join(lean.hexs(r)[:12] for r in got)[:300])))
        elif recs and quiet and all(fits(d['limit'], r) for r in recs):
            bad.append(('C11:%s:list-does-not-complete' % api,
                        '%s raised %s although every record fits the budget at limit %d, %d cancellation(s), no transient' % (
                            api, out, d['limit'], len(d['cancels'])), 'ok, %d records' % len(recs), out))
    return bad


class _Found(object):
    """keeps the smallest failing case per signature"""

    def __init__(self):
        self.best = {}

    def add(self, sig, what, case, expected, observed, size):
        if sig not in self.best or size < self.best[sig][0]:
            self.best[sig] = (size, what, case, expected, observed)

    def flush(self, ctx):
        for sig, (_, what, case, expected, observed) in sorted(self.best.items()):
            ctx.violate(sig, what, case, expected=expected, observed=observed)


def _first_diff(a, b):
    xa, xb = a.split(','), b.split(',')
    for i, (p, q) in enumerate(zip(xa, xb)):
        if p != q:
            return 'exchange %d: model %s / code %s' % (i, p[:90], q[:90])
    return 'length: model %d / code %d exchanges' % (len(xa), len(xb))


def one_case(ctx, drv, found, d, op, variant, compare=True):
    out, device = run_real(d, op)
    log = device.log
    case = {'dev': d, 'op': op}
    size = (len(d['repo']) + len(d['dev']), sum(len(h) for h in d['repo'] + d['dev']), len(d['cancels']) + len(d['transients']))
    for sig, what, exp, obs in judge(d, op, out, log):
        found.add(sig, what, case, exp, obs, size)
    ctx.case((json.dumps(d, sort_keys=True), tuple(op)), nontrivial=len(log) >= 3)
    if compare and drv is not None:
        cfgl = 'cfg ' + device.cfg_tokens_initial
        frames = ','.join('%d:%d:%s' % (nf, cmd, lean.hexs(q)) for nf, cmd, q, _ in log) or '-'
        ans = drv.ask_many([cfgl, 'replay ' + frames, model_line(d, op, variant)])
        if ans[0] != 'ok':
            ctx.disagree('driver refused the device', case, ans[0], cfgl[:200])
            return out, log
        mine = ','.join(lean.hexs(a) for _, _, _, a in log) or '-'
        if ans[1] != mine:
            ctx.disagree('python device twin differs from the Lean reference device', case, ans[1][:300], mine[:300])
        parts = ans[2].split(' | ')
        code_trace = show_trace(log)
        if len(parts) != 2:
            ctx.disagree('driver', case, ans[2][:200], out[:200])
        elif parts[0] != out:
            ctx.disagree('%s outcome' % API[(op[0], op[1])], case, parts[0][:300], out[:300])
        elif parts[1] != code_trace:
            ctx.disagree('%s trace' % API[(op[0], op[1])], case, _first_diff(parts[1], code_trace), out[:120])
    return out, log


# ---- histories: several operations on ONE Ipmi object over BOTH stores --------------------------
#
# A history is a fault-free device description `base` plus steps {'op', 'cancels', 'transients'}
# whose fault indices count from the step's own first request.  All steps run on one Ipmi object
# against one device twin.  Every step is judged by `judge` (record exact / list complete / renewal
# with the same store's Reserve command) against the device as it stands when the step starts, and
# must behave exactly like the same operation on a fresh Ipmi object against a fresh device in that
# state - which is what the Lean model, having no state between calls, computes (the fresh run is
# compared with the model by `one_case`).  Steps pass no caller reservation, so each starts with its
# own Reserve and the reservation left by an earlier step cannot matter.

def run_history(base, steps, cap=20000):
    device = twin(dict(base, cancels=[], transients=[]))
    ipmi, iface = dev11.make_ipmi(device.handle, cap=cap)
    res = []
    with dev11.no_sleep():
        for st in steps:
            start = len(device.log)
            device.cancels = set(start + int(c) for c in st.get('cancels') or [])
            device.transients = [(start + int(i), int(c)) for i, c in st.get('transients') or []]
            res0 = [device.res[dev11.REPO], device.res[dev11.DEV]]
            iface.calls = 0
            op = st['op']
            tag, val = dev11.outcome_of(lambda: real_op(ipmi, op))
            res.append((res0, val if tag == 'ok' else tag, device.log[start:]))
    return res


def step_dev(base, st, res0, nreq):
    """the device a step starts from, as a single-case description (faults the step never reached dropped)"""
    return dict(base, cancels=sorted(int(c) for c in st.get('cancels') or [] if int(c) < nreq),
                transients=[[int(i), int(c)] for i, c in st.get('transients') or [] if int(i) < nreq], res0=list(res0))


def _step_sigs(base, steps, k, r):
    res0, out, log = r
    return judge(step_dev(base, steps[k], res0, len(log)), steps[k]['op'], out, log)


def _history_shows(base, steps, sig):
    res = run_history(base, steps)
    return any(x[0] == sig for x in _step_sigs(base, steps, len(steps) - 1, res[-1]))


def shrink_history(base, steps, k, sig):
    steps = list(steps[:k + 1])
    i = 0
    while i < len(steps) - 1:
        cand = steps[:i] + steps[i + 1:]
        if _history_shows(base, cand, sig):
            steps = cand
        else:
            i += 1
    # the earlier steps that are needed do not need their faults
    for j in range(len(steps) - 1):
        if steps[j].get('cancels') or steps[j].get('transients'):
            cand = steps[:j] + [{'op': steps[j]['op']}] + steps[j + 1:]
            if _history_shows(base, cand, sig):
                steps = cand
    return steps


def history_case(ctx, drv, found, base, steps, variant, tag):
    res = run_history(base, steps)
    ctx.count('history:' + tag)
    ctx.count('history-steps', len(steps))
    for k, r in enumerate(res):
        res0, out, log = r
        op = steps[k]['op']
        d = step_dev(base, steps[k], res0, len(log))
        ctx.case(('history', json.dumps(base, sort_keys=True), json.dumps(steps[:k + 1])), nontrivial=k >= 1)
        ctx.count('history-op:%s%s' % (API[(op[0], op[1])], '+fault' if d['cancels'] or d['transients'] else ''))
        if k >= 1:
            ctx.count('history-store-change' if steps[k - 1]['op'][1] != op[1] else 'history-same-store')
        # the same operation on a fresh object / device in this state (judged and compared with the Lean model)
        out_f, log_f = one_case(ctx, drv, found, d, op, variant)
        if (out, log) != (out_f, log_f):
            ctx.disagree('%s as operation %d of a history differs from the same operation on a fresh Ipmi object '
                         '(the model has no state between calls)' % (API[(op[0], op[1])], k),
                         {'base': base, 'steps': steps[:k + 1], 'step': k},
                         (out_f[:200], _first_diff(show_trace(log_f), show_trace(log))), out[:200])
        for sig, what, exp, obs in judge(d, op, out, log):
            if any(x[0] == sig for x in judge(d, op, out_f, log_f)):
                continue            # not a matter of history: one_case has reported the single case
            small = shrink_history(base, steps, k, sig)
            size = (100 + len(small), sum(len(h) for h in base['repo'] + base['dev']),
                    sum(len(x.get('cancels') or []) + len(x.get('transients') or []) for x in small))
            found.add(sig + ':after-earlier-operations',
                      what + ' - on an Ipmi object that performed other operations before (the same operation on a fresh '
                             'object against the same device is served correctly)',
                      {'base': base, 'steps': small, 'step': len(small) - 1}, exp, obs, size)
    return res


def gen_history(rng):
    base = gen_device(rng, rng.choice([1, 1, 2, 3, 5]), rng.choice([1, 1, 2, 4]))
    if rng.random() < 0.7:
        base['limit'] = rng.choice([5, 8, 12, 16, 20, 21, 255])
    steps = []
    store = rng.choice('rd')
    for _ in range(rng.randrange(2, 6)):
        if rng.random() < 0.75:
            store = 'd' if store == 'r' else 'r'
        recs = recs_of(base, store)
        r = rng.random()
        if r < 0.5:
            op = ['get', store, rng.choice([0] + [rec_id(x) for x in recs] * 3), None]
        else:
            op = [rng.choice(['entries', 'list']), store]
        st = {'op': op}
        r = rng.random()
        if r < 0.45:
            st['cancels'] = sorted(set(rng.randrange(0, 14) for _ in range(rng.choice([1, 1, 2]))))
        elif r < 0.65:
            st['transients'] = [[rng.randrange(0, 14), rng.choice([0xC3, 0xCE])] for _ in range(rng.choice([1, 2]))]
        steps.append(st)
    return base, steps


# ---- generators -------------------------------------------------------------------------------

def gen_record(rng, rid, n):
    t = rng.choice(PLAIN_TYPES)
    r = rng.random()
    if r < 0.15:
        body = [rng.choice([0, 0xFF, 0xCA, 0xC5])] * (n - 5)
    elif r < 0.3:
        body = [(i * 7 + rid) & 0xFF for i in range(n - 5)]
    else:
        body = [rng.randrange(256) for _ in range(n - 5)]
    return dev11.make_record(rid, t, bytes(bytearray(body)), version=rng.choice([0x51, 0x51, 0x01, 0x15]))


def gen_len(rng):
    r = rng.random()
    if r < 0.35:
        return rng.choice(DIRECTED_LEN)
    if r < 0.7:
        return rng.randrange(5, 70)
    return rng.randrange(5, 261)


def gen_limit(rng):
    r = rng.random()
    if r < 0.4:
        return rng.choice(DIRECTED_LIMIT)
    if r < 0.8:
        return rng.randrange(1, 40)
    return rng.randrange(1, 256)


def gen_store(rng, n, first_zero=None):
    pool = [1, 2, 3, 0xFF, 0x100, 0x101, 0xFFFE, 0xFFFD, 0x8000, 0x7FFF]
    ids = set()
    while len(ids) < n:
        ids.add(rng.choice(pool) if rng.random() < 0.35 else rng.randrange(1, 0xFFFF))
    ids = list(ids)
    if rng.random() < 0.5:
        ids.sort()
    else:
        rng.shuffle(ids)
    if ids and (first_zero if first_zero is not None else rng.random() < 0.3):
        ids[0] = 0
    return [gen_record(rng, i, gen_len(rng)) for i in ids]


def gen_device(rng, nrepo=None, ndev=None):
    if nrepo is None:
        nrepo = rng.choice([1, 1, 2, 3, 5, 8, 13, 40]) if rng.random() < 0.8 else rng.randrange(1, 41)
    if ndev is None:
        ndev = rng.choice([1, 2, 4, 9])
    return make_dev(repo=gen_store(rng, nrepo), dev=gen_store(rng, ndev), limit=gen_limit(rng),
                    strict=rng.random() < 0.5,
                    res0=(rng.choice([0, 1, 0xFFFE, 0xFFFF, rng.randrange(0x10000)]), rng.choice([0, 0xFFFF, rng.randrange(0x10000)])))


def probe_stale():
    """'1' = a reservation id obtained after a cancellation is dropped (the following chunk / the following
    record is requested with the cancelled id again), '0' = it is handed on; None = neither consistently."""
    rec = dev11.make_record(0x21, 0x14, bytes(bytearray(range(1, 26))))     # header + 20 + 5
    rec2 = dev11.make_record(0x22, 0x14, bytes(bytearray(range(1, 9))))
    seen = set()
    for store in 'rd':
        for op in (['get', store, 0, None], ['list', store]):
            _, device = run_real(make_dev(repo=[rec, rec2], dev=[rec, rec2], limit=255, cancels=[2]), op)
            log = device.log
            if not (len(log) > 5 and log[2][3] == b'\xC5' and log[3][1] == dev11.CMD_RESERVE and log[3][3][:1] == b'\x00'):
                return None
            new = bytes(log[3][3][1:3])
            later = [q for _, cmd, q, _ in log[5:] if cmd in (dev11.CMD_GET_SDR, dev11.CMD_GET_DEVICE_SDR)]
            if op[0] == 'list':
                later = [q for q in later if q[2] | q[3] << 8 == 0x22]         # the following record
            if not later:
                return None
            seen.update('0' if bytes(q[0:2]) == new else '1' for q in later)
    return seen.pop() if len(seen) == 1 else None


def probe_variant():
    """The variant the real code behaves like: '<fallThrough 0|1><repo renews with r|d><device renews with r|d>'
    (+ probe_stale: '<renewed id dropped 1|0>')."""
    rec = dev11.make_record(0x21, 0x14, bytes(bytearray(range(1, 26))))
    d = make_dev(repo=[rec], dev=[rec], limit=16)
    out, _ = run_real(d, ['get', 'r', 0, None])
    ft = None
    if out.startswith('ok '):
        ft = '0' if lean.unhex(out.split(' ')[2]) == rec else '1'
    ren = {}
    for store in 'rd':
        d = make_dev(repo=[rec], dev=[rec], limit=255, cancels=[2])
        _, device = run_real(d, ['get', store, 0, None])
        log = device.log
        ren[store] = None
        if len(log) > 3 and log[2][3] == b'\xC5' and log[3][1] == dev11.CMD_RESERVE:
            ren[store] = {dev11.NETFN_STORAGE: 'r', dev11.NETFN_SENSOR: 'd'}.get(log[3][0])
    return ft, ren['r'], ren['d'], probe_stale()


def _variant(ctx):
    ft, rr, dr, st = probe_variant()
    read = None
    if _gen is not None:
        read = '%d%s%s%d' % (1 if _gen['fallThrough'] else 0, _gen['repoRenew'][0], _gen['devRenew'][0],
                             1 if _gen['staleRes'] else 0)
    probed = None if None in (ft, rr, dr, st) else ft + rr + dr + st
    ctx.extra['variant'] = {'read_from_source': read, 'probed_on_real_code': probed,
                            'format': '<0xCA branch falls through><repository renews with r|d><device store renews with r|d>'
                                      '<renewed reservation id dropped (C13)>',
                            'intended': '0rd0', 'repaired_for_C11_only': '0rd1', 'pinned_816fdee': '1dd1'}
    if read is not None and probed is not None and read != probed:
        ctx.disagree('variant: source reading vs behaviour', {}, read, probed)
    return probed or read or '0rd0'


def _live_constants():
    import inspect
    import pyipmi.helper as H
    from pyipmi.msgs import constants as c
    return [c.CC_OK, inspect.signature(H.get_sdr_chunk_helper).parameters['retry'].default, c.CC_RES_CANCELED,
            c.CC_TIMEOUT, c.CC_RESP_COULD_NOT_BE_PRV]


def run(ctx):
    try:
        drv = ctx.driver('drv_c11')
    except lean.LeanError:
        ctx.notes.append('driver unavailable: property oracle only')
        drv = None
    rng = ctx.rng('c11')
    quick = ctx.tier == 'quick'
    found = _Found()
    variant = _variant(ctx)
    if drv is not None:
        got = drv.ask('consts').split()
        ctx.extra['constants'] = {'hdrLen dataRetry maxReqLen reqLenDec cantReturn lastId': got[:6],
                                  'ccOk chunkRetry renew retry1 retry2': got[6:11], 'variant_in_driver': got[11:]}
        if [int(x) for x in got[6:11]] != _live_constants():
            ctx.disagree('constants', {}, got[6:11], _live_constants())

    def go(d, op, tag):
        out, log = one_case(ctx, drv, found, d, op, variant)
        ctx.count('op:' + API[(op[0], op[1])])
        ctx.count('gen:' + tag)
        lim = d['limit']
        ctx.count('limit:%s' % ('<5' if lim < 5 else '5-7' if lim < 8 else '8-11' if lim < 12 else '12-15' if lim < 16
                                else '16-19' if lim < 20 else '20+'))
        ctx.count('outcome:' + out.split(' ')[0].split(':')[0])
        nf = len(d['cancels']) + len(d['transients'])
        ctx.count('faults:%s' % ('0' if nf == 0 else '1' if nf == 1 else '2' if nf == 2 else '3+'))
        ctx.count('exchanges', len(log))
        if op[0] == 'get':
            hit = lookup(recs_of(d, op[1]), int(op[2]) & 0xFFFF)
            n = len(hit[0]) if hit else 0
            ctx.count('len:%s' % ('absent' if not hit else '5' if n == 5 else '6-25' if n <= 25 else '26-64' if n <= 64
                                  else '65-254' if n < 255 else '255-260'))
        else:
            n = len(recs_of(d, op[1]))
            ctx.count('records:%s' % ('0' if n == 0 else '1' if n == 1 else '2-9' if n < 10 else '10-40'))
        if len(ctx.samples) < 6 and 4 <= len(log) < 12 and (len(ctx.samples) % 2 == 0) == (nf > 0):
            ctx.sample({'device': twin(d).cfg_tokens()[:240], 'op': ' '.join(str(x) for x in op), 'outcome': out[:90],
                        'trace': show_trace(log)[:360]})
        return out, log

    def one_record_dev(n, limit, store, strict, rid=None):
        rid = rng.choice([0, 1, 0x1234, 0xFFFE]) if rid is None else rid
        rec = gen_record(rng, rid, n)
        other = gen_store(rng, 2)
        d = make_dev(repo=[rec] if store == 'r' else other, dev=[rec] if store == 'd' else other, limit=limit,
                     strict=strict, res0=(rng.choice([0, 0xFFFE, 0xFFFF, 7]), rng.choice([0, 0xFFFF, 300])))
        return d, rid

    # 1. fault-free single records: directed lengths x directed limits x stores
    for n in DIRECTED_LEN:
        for limit in DIRECTED_LIMIT:
            for store in 'rd':
                d, rid = one_record_dev(n, limit, store, rng.random() < 0.5)
                res = None if rng.random() < 0.6 else rng.randrange(0, 0x10000)
                go(d, ['get', store, rng.choice([0, rid]), res], 'directed-len-x-limit')
    for _ in range(2000 if quick else 20000):
        store = rng.choice('rd')
        d, rid = one_record_dev(gen_len(rng), gen_limit(rng), store, rng.random() < 0.5)
        go(d, ['get', store, rng.choice([0, rid]), None if rng.random() < 0.6 else rng.randrange(0, 0x10000)],
           'random-len-x-limit')
    # 2./3. one cancellation / one transient before EVERY request index of the fault-free run; pairs, triples
    combos = [(30, 16), (26, 255), (5, 8), (64, 12), (260, 20), (257, 16), (65, 5), (24, 19), (209, 12), (133, 8), (6, 3)]
    if not quick:
        combos += [(n, l) for n in (6, 25, 133, 209, 255, 259) for l in (5, 8, 12, 16, 21)]
    for n, limit in combos:
        for store in 'rd':
            for strict in (False, True):
                d, rid = one_record_dev(n, limit, store, strict)
                op = ['get', store, rid, None]
                out, log = go(d, op, 'fault-free-base')
                T = len(log)
                for k in range(T + 1):
                    go(dict(d, cancels=[k]), op, 'cancel-at-every-index')
                    go(dict(d, transients=[[k, rng.choice([0xC3, 0xCE])]]), op, 'transient-at-every-index')
                    # four in a row exhaust the budget of one chunk read (RetryError out of the chunk helper), three do not
                    go(dict(d, transients=[[k + i, rng.choice([0xC3, 0xCE])] for i in range(4)]), op, 'transient-burst')
                    go(dict(d, transients=[[k + i, rng.choice([0xC3, 0xCE])] for i in range(3)]), op, 'transient-burst')
                    if quick and k % 3:
                        continue
                    go(dict(d, cancels=[k, k + 1]), op, 'cancel-pair')
                    go(dict(d, cancels=[k, k + 2]), op, 'cancel-pair')
                    go(dict(d, cancels=[k, k + 2, k + 4]), op, 'cancel-triple')
                    go(dict(d, cancels=[k], transients=[[k + 1, 0xC3], [k + 2, 0xCE]]), op, 'cancel+transients')
            if ctx.time_left() < 25:
                break
    # 4. listings: 1..40 records, every directed limit, both stores, generator and list function
    for limit in DIRECTED_LIMIT + [rng.randrange(5, 40) for _ in range(4)]:
        for n in ((1, 3, 12) if quick else (1, 2, 5, 17, 40)):
            d = gen_device(rng, n, rng.choice([1, 2, 6]))
            d['limit'] = limit
            store = rng.choice('rd')
            go(d, [rng.choice(['entries', 'list']), store], 'list-sweep')
    for _ in range(300 if quick else 3000):
        d = gen_device(rng)
        store = rng.choice('rd')
        kind = rng.choice(['entries', 'list'])
        go(d, [kind, store], 'list-random')
        r = rng.random()
        span = 6 * sum(len(h) for h in d['repo' if store == 'r' else 'dev']) // 40 + 4
        if r < 0.5:
            go(dict(d, cancels=sorted(set(rng.randrange(0, span) for _ in range(rng.choice([1, 1, 2, 2, 3, 6]))))),
               [kind, store], 'list-cancelled')
        elif r < 0.8:
            go(dict(d, transients=[[rng.randrange(0, span), rng.choice([0xC3, 0xCE])] for _ in range(rng.choice([1, 2, 4]))]),
               [kind, store], 'list-transients')
        if ctx.time_left() < 20:
            ctx.notes.append('time budget reached in generator 4')
            break
    # 5. random soup: single reads by id out of larger stores under random fault scripts
    for _ in range(3000 if quick else 40000):
        d = gen_device(rng, rng.choice([1, 2, 4, 9]), rng.choice([1, 3]))
        store = rng.choice('rd')
        recs = recs_of(d, store)
        rid = rng.choice([0] + [rec_id(r) for r in recs] * 3)
        nc = rng.choice([0, 0, 1, 1, 2, 3, 5])
        nt = rng.choice([0, 0, 0, 1, 2])
        d['cancels'] = sorted(set(rng.randrange(0, 40) for _ in range(nc)))
        d['transients'] = [[rng.randrange(0, 40), rng.choice([0xC3, 0xCE])] for _ in range(nt)]
        go(d, ['get', store, rid, None if rng.random() < 0.5 else rng.randrange(0x10000)], 'random-faults')
        if ctx.time_left() < 15:
            ctx.notes.append('time budget reached in generator 5')
            break
    # 6. outside the premises (the model must mirror; the oracle abstains or expects an error):
    #    absent ids, empty store, ids / reservations wider than the codec field, id 0 not first, duplicate ids
    for _ in range(60 if quick else 600):
        d = gen_device(rng, rng.choice([0, 1, 3]), rng.choice([0, 2]))
        store = rng.choice('rd')
        r = rng.random()
        if r < 0.3:
            go(d, ['get', store, rng.randrange(1, 0xFFFF), None], 'outside:absent-id')
        elif r < 0.45:
            recs = recs_of(d, store)
            rid = (rec_id(recs[0]) if recs else 5) + 0x10000
            go(d, ['get', store, rid, 0x12345], 'outside:wide-fields')
        elif r < 0.7:
            key = 'repo' if store == 'r' else 'dev'
            l = [lean.unhex(h) for h in d[key]]
            if len(l) >= 2:
                l = l[1:] + [dev11.make_record(0, 0x14, b'\x01\x02')]
            d[key] = [lean.hexs(x) for x in l]
            go(d, [rng.choice(['entries', 'list']), store], 'outside:id-0-not-first')
        else:
            go(d, [rng.choice(['entries', 'list']), store], 'outside:small-or-empty-store')
    # 7. histories on ONE Ipmi object over both stores: store A read / listed, then store B with a cancellation /
    #    a transient code before EVERY request index, then back to A; random sequences of 2..5 operations
    hrng = ctx.rng('c11-history')
    hcombos = [(30, 16), (26, 255), (64, 12)] if quick else [(30, 16), (26, 255), (64, 12), (5, 8), (133, 8), (257, 16), (65, 5)]
    for n, limit in hcombos:
        for first in 'rd':
            second = 'd' if first == 'r' else 'r'
            base = make_dev(repo=gen_store(hrng, 2, first_zero=False) if (n, limit) != (26, 255) else [gen_record(hrng, 7, n)],
                            dev=[gen_record(hrng, 0x21, n), gen_record(hrng, 0x22, 9)], limit=limit,
                            strict=hrng.random() < 0.5, res0=(hrng.choice([0, 0xFFFE, 7]), hrng.choice([0, 0xFFFF, 300])))
            for kind1 in ('get', 'list'):
                for kind2 in ('get', 'list'):
                    op1 = ['get', first, 0, None] if kind1 == 'get' else [hrng.choice(['entries', 'list']), first]
                    op2 = ['get', second, 0, None] if kind2 == 'get' else [hrng.choice(['entries', 'list']), second]
                    res = history_case(ctx, drv, found, base, [{'op': op1}, {'op': op2}, {'op': op1}], variant, 'A-B-A:fault-free')
                    T2, T1 = len(res[1][2]), len(res[2][2])
                    for k in range(T2 + 1):
                        history_case(ctx, drv, found, base, [{'op': op1}, {'op': op2, 'cancels': [k]}], variant,
                                     'A-then-B:cancel-at-every-index')
                        history_case(ctx, drv, found, base, [{'op': op1}, {'op': op2, 'transients': [[k, hrng.choice([0xC3, 0xCE])]]}],
                                     variant, 'A-then-B:transient-at-every-index')
                    for k in range(0, T1 + 1, 1 if not quick else 2):
                        history_case(ctx, drv, found, base, [{'op': op1}, {'op': op2, 'cancels': [hrng.randrange(0, T2 + 1)]},
                                                             {'op': op1, 'cancels': [k]}], variant, 'A-B-A:cancel-in-B-and-back-in-A')
            if ctx.time_left() < 20:
                ctx.notes.append('time budget reached in generator 7 (directed histories)')
                break
    for _ in range(150 if quick else 3000):
        base, steps = gen_history(hrng)
        history_case(ctx, drv, found, base, steps, variant, 'random')
        if ctx.time_left() < 15:
            ctx.notes.append('time budget reached in generator 7 (random histories)')
            break
    found.flush(ctx)


def search(ctx):
    """A tie broke and `run` saw no violation: exhaustive small sweep of the real code against the
    property oracle - every directed length x every limit 1..24 and 255 x both stores x both
    reservation policies, a cancellation before every request index; listings of 1..4 records."""
    rng = ctx.rng('c11-search')
    found = _Found()
    for n in DIRECTED_LEN + [30, 65, 66, 133, 134, 209, 210]:
        for limit in list(range(1, 25)) + [255]:
            for store in 'rd':
                rec = gen_record(rng, rng.choice([0, 0x77, 0xFFFE]), n)
                other = gen_store(rng, 1)
                for strict in (False, True):
                    d = make_dev(repo=[rec] if store == 'r' else other, dev=[rec] if store == 'd' else other,
                                 limit=limit, strict=strict)
                    op = ['get', store, 0, None]
                    out, log = one_case(ctx, None, found, d, op, None, compare=False)
                    for k in range(len(log) + 1):
                        one_case(ctx, None, found, dict(d, cancels=[k]), op, None, compare=False)
        if found.best or ctx.time_left() < 30:
            break
    if not found.best:
        for limit in (5, 8, 16, 20, 255):
            for n in range(1, 5):
                for store in 'rd':
                    d = gen_device(rng, n, n)
                    d['limit'] = limit
                    for kind in ('entries', 'list'):
                        out, log = one_case(ctx, None, found, d, [kind, store], None, compare=False)
                        for k in range(0, len(log) + 1, 2):
                            one_case(ctx, None, found, dict(d, cancels=[k]), [kind, store], None, compare=False)
    found.flush(ctx)


def replay(ctx, v):
    case = v['case']
    if 'steps' in case:
        base, steps = case['base'], case['steps']
        print('device : %s' % twin(dict(base, cancels=[], transients=[])).cfg_tokens_initial[:500])
        print('         (repo records, device-SDR records, limit, strict, -, -, reservation counters)')
        print('history on ONE Ipmi object (%d operations; fault indices count from the first request of the step):' % len(steps))
        hit = False
        for k, r in enumerate(run_history(base, steps)):
            res0, out, log = r
            op = steps[k]['op']
            print(' step %d : %s %s   cancel-before-request %s  transient %s' % (
                k, API[(op[0], op[1])], ' '.join(str(x) for x in op[2:]), steps[k].get('cancels') or '-',
                steps[k].get('transients') or '-'))
            print('   code  : %s' % out[:300])
            print('   trace : %s' % show_trace(log)[:700])
            for sig, what, exp, obs in _step_sigs(base, steps, k, r):
                hit = True
                print('   violated: [%s] %s' % (sig, what))
                print('     expected: %s' % str(exp)[:400])
                print('     observed: %s' % str(obs)[:400])
        return hit
    d, op = case['dev'], case['op']
    out, device = run_real(d, op)
    print('device : %s' % device.cfg_tokens_initial[:500])
    print('         (repo records, device-SDR records, limit, strict, cancel-before-request, idx:transient, reservation counters)')
    print('op     : %s %s' % (API[(op[0], op[1])], ' '.join(str(x) for x in op[2:])))
    print('code   : %s' % out[:400])
    print('trace  : %s' % show_trace(device.log)[:900])
    bad = judge(d, op, out, device.log)
    for sig, what, exp, obs in bad:
        print('violated: [%s] %s' % (sig, what))
        print('  expected: %s' % str(exp)[:400])
        print('  observed: %s' % str(obs)[:400])
    return any(sig == v['signature'] for sig, _, _, _ in bad)
