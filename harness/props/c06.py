"""C06 — LAN session establishment and sequence numbering follow the IPMI v1.5 protocol."""
from ..lib import lean
from ..lib.rng import boundary_int
from ..sim.fakesock import FakeSock
from ..translate import rmcp as T

ID = 'C06'
TARGETS = ['PyIpmi.Props.C06', 'drv_c06']
LEVEL = 'proof'
RULE = ('the real Rmcp.establish_session / send_and_receive_raw x n / close_session (keep_alive_interval=0, '
        'random.randrange pinned) talk through a fake socket to the Lean reference BMC (Spec.BmcSession.step running '
        'in drv_c06), which validates every datagram and answers it: all 32 capability subsets of '
        'none/MD2/MD5/password/OEM, boundary-biased temporary / final session ids and initial sequence numbers '
        '(0, 1, 0x7fffffff, 0xfffffffd..0xffffffff so that the wrap is crossed), user names and passwords of 0..16 '
        'bytes, ANONYMOUS LOGIN (the empty user name with the empty password, given as \'\' and as b\'\', against all 32 '
        'capability subsets; each of the two empty alone against the 12 subsets that offer none next to MD5 / password; '
        'also over two sessions, with retransmissions and with the clean-up close), '
        'the credential FORM as a dimension of its own: user name None / \'\' / b\'\' / str / bytes / 16 bytes x password '
        'None / \'\' / b\'\' / str / bytes / 16 bytes (None, None = Session() untouched, what create_connection() hands '
        'out) x all 32 capability subsets, also over two sessions and with a fault and the clean-up close: the handshake '
        'is that of the BYTES the objects stand for, never a Python TypeError / AttributeError, '
        'privilege levels 2..5, 0..8 subsequent requests, a second session on the same Session object, '
        'silence or an error completion code injected at every datagram of the handshake, a request and the '
        'close, and max_retries 0..3 with datagrams lost (Spec.BmcSession.stepLost: the monitor counts them, the BMC '
        'does not act) at every in-session and handshake position, in runs within and beyond the retry budget, so '
        'that retransmissions are on the wire; close_session() called a second time; close_session() called as '
        'clean-up after a failure at EVERY step (ping, the four handshake requests, a request), whatever the state of '
        'the interface - the caller of try: open() finally: close() cannot know how far the handshake got; capability '
        'bytes that offer no type at all (00h, 08h, C0h) or no implemented one (MD2 / OEM only), each also followed '
        'by the clean-up close; HISTORIES on the same Rmcp and Session objects in which an earlier session was lost '
        '(no answer to Set Session Privilege Level / a request / Close Session, also not for the clean-up close: the '
        'object stays "activated"), followed by a new handshake that fails at Activate Session (silence, 81h no '
        'session slot, D4h) or at another step, the clean-up close, and a further un-faulted session; the REAL '
        'keep-alive (keep_alive_interval != 0: call_repeatedly, its thread and stopper, made deterministic by a stand-in '
        'for `threading` inside rmcp.py whose Event.wait parks the loop until the harness lets one interval elapse) '
        'over histories open / tick / request / close / open again without close / open after a close that failed / '
        'three opens / random histories, with an interval elapsing before each exchange of a later handshake.  '
        'An injected error completion code is a refusal (Spec.BmcSession.stepRefused: the BMC '
        'does not execute the request, the monitor counts the datagram).  Judged: no datagram (retransmissions '
        'included) is flagged by the BMC - in particular no Get Session Challenge for a type the BMC did not offer; '
        'the authentication type asked for is the strongest one offered that IpmiMsg.pack implements; when nothing '
        'the BMC offers is implemented the outcome is NotSupportedError; Activate Session carries the NULL session '
        'sequence number (a number left from an earlier session of the same objects is flagged activate-seq-not-null); '
        'no datagram of a keep-alive thread after Close Session nor after a later establish_session() has begun; and when it offers nothing at all nothing is '
        'sent after the capabilities exchange; the '
        'number of datagrams and the outcome are those of a console that sends each request at most max_retries+1 '
        'times and stops at the first failure; an un-faulted session reaches "closed"; the clean-up close never ends in a '
        'Python error, returns normally when its own datagrams are not hit by a fault, sends exactly one Close Session '
        'for the id granted in THIS handshake when the BMC had granted one (BMC closed afterwards) and nothing otherwise '
        '(in particular no Close Session for a temporary id), and leaves no session of this handshake open on the BMC.  '
        'The same reply script is '
        'played to the Lean model of the client and every datagram (byte for byte), the outcome and the final '
        'session state are compared, every round starting from the state the previous rounds left in the objects; the '
        'number of keep-alive threads during each handshake and after each call is compared with Model.SessionKeepAlive.  '
        'Distinct by scenario.')
ASSUMPTIONS = [
    'model of establish_session / _send_and_receive / close_session (lean/PyIpmi/Model/Session.lean) is hand-written and tied by this correspondence run',
    'reference BMC (lean/PyIpmi/Spec/BmcSession.lean) is my reading of IPMI v1.5 section 6.11/6.12 and the session commands; '
    'it demands the null sequence number on Activate Session (no session is active yet; v1.5 Table 12-8 / v2.0 Table 13-8 '
    '"Session Seq#": 0000_0000h outside an active session - what every first handshake of the library and ipmitool / '
    'FreeIPMI send) and accepts a first in-session number within 8 counts of the assigned one',
    'every handshake (round / open step) meets a reference BMC in its initial state: the BMC (or the slot) an earlier, '
    'lost session of the same console occupied is not modelled as a second party - "no session slot" is the injected '
    'refusal 81h of Activate Session; a session that was lost is left to expire on the BMC (the property does not ask '
    'the console to close a session it could not reach)',
    'keep-alive: thread bookkeeping only (Model/SessionKeepAlive.lean: which threads are unstopped; tied by thread counts '
    'and by the shape theorem); that the stopper joins the thread and that keep-alive requests are serialised with '
    'application requests is C14; one interval elapses only BETWEEN exchanges (the transaction lock is held during one)',
    'OBSERVATION, not judged (no property has a liveness clause for the keep-alive; findings/c06/round2/'
    'extra_keepalive_dies): a keep-alive thread ends at the first unanswered keep-alive request - _send_and_receive raises '
    'RetryError, call_repeatedly catches socket.timeout only - and the console goes on believing the session is kept '
    'alive; counted in the evidence as keepalive-thread-ended-by:RetryError',
    'an empty receive queue and a peer that answers a datagram at most once (stale / duplicated frames and the keep-alive '
    'thread belong to C04 / C14); a lost datagram is seen by the monitor (it sits on the console side of the wire)',
    'user names are ASCII (IPMI user names are ASCII); the digest function is a parameter of the theorems',
    'random.randrange is pinned and its value passed to the model',
    'the expected number of datagrams / outcome class under injected faults is computed by the harness (_expect: each request '
    'at most max_retries+1 times, stop at the first failure); the per-step fault theorems are proved in the any-peer form '
    '(handshake_order) and for losses within the retry budget (lifecycle_within_budget), the exact stopping point under a '
    'fault beyond the budget or an error completion code is checked by this run only',
    'session_datagrams / bmc_never_objects quantify over the reference BMC family (every BmcCfg satisfying Setup), not over '
    'arbitrary third-party BMC implementations',
    'fault model of the clean-up clauses (theorems close_after_failed_open*, and the injected faults of this run): a datagram '
    'that gets no answer was not acted on by the BMC, an error completion code means the BMC did not execute the request '
    '(a granted session whose Activate Session ANSWER is lost cannot be closed by any console; it expires on the BMC)',
    'when the BMC offers only types the library does not implement (MD2 and/or OEM) the library still asks for a challenge '
    'for that (offered) type and raises NotSupportedError when packing Activate Session (documented in get_max_auth_type); '
    'this is accepted: the BMC does not object, the temporary session id expires',
    'credential form (Model/SessionCred.lean): None stands for the zero-length user name / password (IPMI null user, null '
    'password = sixteen zero bytes); a str stands for its UTF-8 encoding, user names are generated as ASCII; the two '
    'as-shipped failures on the FORM (variants np / bu, probed) happen before the credential bytes exist, so the '
    'byte-level model is not run for those rounds (counted as byte-level-tie-skipped) - Cred.failsAfter is compared instead',
    'NOT generated (outside the quantifier / boundary, reported by the audit as observations): non-ASCII '
    'user names (as shipped padded to 16 characters, not 16 bytes), requests longer than 255 bytes (consume a '
    'sequence number without being sent), OSError from sendto; an answer that arrives LATE at a handshake step and is '
    'taken for the answer of the next establish_session (ping() does not drain the socket; findings/c06/round3/finding_3): '
    'the quantifier has "an error reply or silence at each step", a late answer is neither',
]
TRUSTED = ['harness/translate/rmcp.py', 'harness/translate/session.py', 'harness/sim/fakesock.py', 'harness/props/c06.py']

_facts = None
BOUNDARY32 = [1, 2, 0xff, 0x100, 0x7fffffff, 0x80000000, 0x01020304, 0xfffffffd, 0xfffffffe, 0xffffffff]
CAP_BITS = {0: 0, 1: 1, 2: 2, 4: 4, 5: 5}     # IPMI v1.5 Table 18-? Get Channel Authentication Capabilities, byte 3
STEP_NAMES = ['ping', 'Get Channel Authentication Capabilities', 'Get Session Challenge', 'Activate Session',
              'Set Session Privilege Level']


def translate(ctx):
    global _facts
    _facts = T.generate()
    # statement-level shape of establish_session / close_session / the request builders (Gen/SessionShape.lean)
    from ..translate import session as session_t
    ctx.extra['session_shape_events'] = dict((k, len(v)) for k, v in session_t.generate().items())


def _implemented():
    f = _facts if _facts is not None else T.facts()
    return sorted(v for v, _ in f['packAuth'])


def _tag(e):
    n = type(e).__name__
    if n == 'CompletionCodeError':
        return 'CompletionCodeError:%d' % e.cc
    if n in ('DecodingError', 'EncodingError', 'NotSupportedError', 'RetryError'):
        return n
    return 'py:' + n


def _probe_pref():
    """'s' if get_max_auth_type prefers MD2 over straight password (as shipped), 'i' if it picks the
    password (intended), 'g' (use the generated tuple) otherwise."""
    try:
        from pyipmi.msgs import create_message, decode_message
        from pyipmi.messaging import ChannelAuthenticationCapabilities
        rsp = create_message(7, 0x38, None)
        decode_message(rsp, bytes([0, 1, 0x12, 0, 0, 0, 0, 0, 0]))
        a = ChannelAuthenticationCapabilities(rsp).get_max_auth_type()
    except Exception:  # noqa
        return 'g'
    return {1: 's', 4: 'i'}.get(a, 'g')


def _probe_empty():
    from .c05 import _probe_empty_variant
    return _probe_empty_variant()


def _probe_close_guard():
    """'s' if close_session() on an interface without a session object raises AttributeError (as shipped),
    'i' if it returns (intended)."""
    try:
        from pyipmi.interfaces import rmcp as R
        rm = R.Rmcp(keep_alive_interval=0)
        rm._session = None
        rm.close_session()
    except AttributeError:
        return 's'
    except Exception:  # noqa
        return 'i'
    return 'i'


NOAUTH_PROBE = {'op': 'session', 'user': 'probe', 'pw': {'kind': 'str', 'text': 'probe'}, 'priv': 4, 'ignore': 0,
                'max_retries': 0, 'closes': 1,
                'rounds': [{'bmc': {'caps': 0, 'user': 'probe', 'pw': b'probe'.hex(), 'priv': 4, 'tempSid': 1,
                                    'challenge': '00' * 16, 'sid': 2, 'inSeq0': 1}, 'outSeq': 1, 'n': 0, 'inject': {}}]}


def _probe_noauth(drv):
    """'i' if establish_session stops with NotSupportedError right after the capabilities exchange when the BMC
    offers no authentication type (intended), 's' if it goes on to Get Session Challenge (as shipped)."""
    try:
        rr = run_real(drv, NOAUTH_PROBE)['rounds'][0]
    except Exception:  # noqa
        return 's'
    return 'i' if (len(rr['sent']) == 2 and rr['outcome'] == 'NotSupportedError') else 's'


def _probe_used_objects():
    """(rs, ka): what establish_session() does FIRST with objects that have been used before, probed with a socket on
    which nothing is answered (the ping times out, so only the first statements run).
    rs: 'i' if the caller's Session object is cleared (activated False, sid 0, sequence_number 0), 's' if it is left as
    it is (as shipped); ka: 'i' if a keep-alive stopper that is still installed is called, 's' if it is not."""
    rs, ka = 's', 's'
    try:
        from pyipmi.interfaces import rmcp as R
        from pyipmi.session import Session
        rm = R.Rmcp(keep_alive_interval=0)
        rm._sock = FakeSock()
        called = []
        rm._stop_keep_alive = lambda: called.append(1)
        session = Session()
        session.set_session_type_rmcp('192.0.2.1', 623)
        session.set_auth_type_user('probe', 'probe')
        session.activated, session.sid, session.sequence_number = True, 0x01020304, 0x55
        try:
            rm.establish_session(session)
        except Exception:  # noqa
            pass
        if (session.activated, session.sid, session.sequence_number) == (False, 0, 0):
            rs = 'i'
        if called:
            ka = 'i'
    except Exception:  # noqa
        pass
    return rs, ka


def _cred(sc):
    """The credential OBJECTS handed to the library - the FORM is a generator dimension: user None / str / bytes
    (sc['ukind'], default str), password None / str / bytes (sc['pw']['kind']).  None is the library default of
    Session() and the null user / null password of IPMI (the anonymous login)."""
    uk = sc.get('ukind', 'str')
    user = None if uk == 'none' else (sc['user'].encode() if uk == 'bytes' else sc['user'])
    k = sc['pw']['kind']
    pw = None if k == 'none' else (bytes.fromhex(sc['pw']['hex']) if k == 'bytes' else sc['pw']['text'])
    return user, pw


def _pwbytes(pw):
    """the password BYTES a credential form stands for (None: the null password, zero bytes)"""
    return b'' if pw['kind'] == 'none' else (bytes.fromhex(pw['hex']) if pw['kind'] == 'bytes' else pw['text'].encode())


def _configure(session, sc):
    user, pw = _cred(sc)
    if user is None and pw is None:
        return                                # Session() as pyipmi.create_connection() hands it out
    session.set_auth_type_user(user, pw)


def _probe_cred_forms():
    """(np, bu): np 'i' if the password None is packed as the null password (sixteen zero bytes), 's' if
    IpmiMsg._padd_password raises AttributeError (as shipped); bu 'i' if _get_session_challenge accepts a user name
    given as bytes, 's' if it raises TypeError before anything is sent (as shipped)."""
    np_, bu = 's', 's'
    try:
        from pyipmi.interfaces import rmcp as R
        from pyipmi.session import Session
        try:
            if R.IpmiMsg(Session())._padd_password() == bytes(16):
                np_ = 'i'
        except Exception:  # noqa
            pass
        rm = R.Rmcp(keep_alive_interval=0, max_retries=0)
        sent = []
        rm._sock = FakeSock(responder=lambda d: (sent.append(d), [])[1])
        session = Session()
        session.set_session_type_rmcp('192.0.2.1', 623)
        session.set_auth_type_user(b'probe', b'probe')
        rm.host, rm.port = '192.0.2.1', 623
        try:
            rm._get_session_challenge(session)
        except TypeError:
            pass
        except Exception:  # noqa
            pass
        if sent and b'probe'.ljust(16, b'\x00') in sent[0]:
            bu = 'i'
    except Exception:  # noqa
        pass
    return np_, bu


def _variants(drv):
    """which variant of each as-shipped / intended place of the model the working tree has (probed on the real code)"""
    rs, ka = _probe_used_objects()
    np_, bu = _probe_cred_forms()
    return {'pref': _probe_pref(), 'er': _probe_empty(), 'cg': _probe_close_guard(), 'na': _probe_noauth(drv),
            'rs': rs, 'ka': ka, 'np': np_, 'bu': bu}


# ----------------------------------------------------------------- one scenario on the real code
def run_real(drv, sc):
    """Returns dict(outcome, sent=[hex], replies=[hex|'silent'], verdicts=[str], state=str, bmc=str)."""
    from pyipmi.interfaces import rmcp as R
    from pyipmi.session import Session
    from pyipmi import Target
    res = {'sent': [], 'replies': [], 'verdicts': [], 'rounds': []}
    rm = R.Rmcp(keep_alive_interval=0, max_retries=sc.get('max_retries', 0),
                quirks_cfg={'rmcp_ignore_sdu_length': bool(sc.get('ignore', 0))})
    session = Session()
    session.set_session_type_rmcp('192.0.2.1', 623)
    _configure(session, sc)
    session._priv_level = sc['priv']
    saved = R.random.randrange
    try:
        for rnd in sc['rounds']:
            b = rnd['bmc']
            drv.ask('bmc-init %d %s %s %d %d %s %d %d' % (
                b['caps'], lean.hexs(b['user'].encode()), lean.hexs(bytes.fromhex(b['pw'])), b['priv'],
                b['tempSid'], b['challenge'], b['sid'], b['inSeq0']))
            R.random.randrange = lambda a, z, _v=rnd['outSeq']: _v
            state0 = (session.sid, session.sequence_number, 1 if session.activated else 0, rm.next_sequence_number,
                      1 if rm._session is not None else 0, 256 if session.auth_type is None else session.auth_type)
            sent, replies, verdicts = [], [], []
            inject = dict((int(k), v) for k, v in rnd.get('inject', {}).items())

            def responder(d, sent=sent, replies=replies, verdicts=verdicts, inject=inject):
                idx = len(sent)
                sent.append(d)
                inj = inject.get(idx)
                if inj == 'silent':
                    v = drv.ask('bmc-lost ' + lean.hexs(d))
                elif inj is not None:
                    v = drv.ask('bmc-err %d %s' % (inj, lean.hexs(d)))
                else:
                    v = drv.ask('bmc ' + lean.hexs(d))
                verdicts.append(v)
                if v.startswith('reply') and inj != 'silent':
                    r = lean.unhex(v.split()[1])
                    replies.append(r)
                    return [r]
                replies.append(None)
                return []
            rm._sock = FakeSock(responder=responder)
            outcome = 'ok'
            stage = 'establish'
            n_main = None
            cleanup = None
            try:
                rm.establish_session(session)
                stage = 'requests'
                for _ in range(rnd['n']):
                    rm.send_and_receive_raw(Target(0x20), 0, 6, b'\x01')
                stage = 'close'
                rm.close_session()
                if rnd.get('closes', sc.get('closes', 1)) == 2:
                    rm.close_session()        # a closed session is not closed again
            except Exception as e:  # noqa
                outcome = _tag(e)
                n_main = len(sent)
                # what a caller does in its `finally`: close, whatever was or was not opened (it cannot know)
                if rnd.get('closes', sc.get('closes', 1)) == 'c' and stage != 'close':
                    cleanup = 'ok'
                    try:
                        rm.close_session()
                    except Exception as e2:  # noqa
                        cleanup = _tag(e2)
            if n_main is None:
                n_main = len(sent)
            a = session.auth_type
            state = '%d %d %d %d %d %d' % (256 if a is None else a, session.sid, session.sequence_number,
                                           1 if session.activated else 0, rm.next_sequence_number,
                                           1 if rm._session is not None else 0)
            res['rounds'].append({'outcome': outcome, 'sent': sent, 'replies': replies, 'verdicts': verdicts,
                                  'state': state, 'state0': state0, 'bmc': drv.ask('bmc-state'), 'n_main': n_main,
                                  'cleanup': cleanup, 'stage': stage})
    finally:
        R.random.randrange = saved
    return res


def _model_line(sc, rnd, rr, var):
    pw = _pwbytes(sc['pw'])
    reps = ' '.join('silent' if r is None else lean.hexs(r) for r in rr['replies'])
    s0 = rr['state0']
    return 'model %s %s %s %s %s %d %d %s %s %s %d %d %d %d %d %d %d %d %d %s' % (
        var['pref'], var['er'], var['cg'], var['na'], var['rs'], 1 if sc.get('ignore') else 0, sc.get('max_retries', 0),
        rnd.get('closes', sc.get('closes', 1)), lean.hexs(sc['user'].encode()), lean.hexs(pw),
        sc['priv'],
        rnd['outSeq'], rnd['n'], s0[0], s0[1], s0[2], s0[3], s0[4], s0[5], reps)


def _expect(sc, rnd):
    """What a console that follows the protocol does against this BMC and fault plan: every request is
    transmitted at most max_retries+1 times (a new datagram each time), the life cycle stops at the first
    request that fails.  Returns (number of datagrams, outcome class).  Datagram numbers count everything
    transmitted, retransmissions included."""
    R = sc.get('max_retries', 0)
    inject = dict((int(k), v) for k, v in rnd.get('inject', {}).items())
    if inject.get(0) is not None:            # the presence ping is not repeated and has no completion code
        return 1, ('py' if inject[0] == 'silent' else 'DecodingError')
    idx = 1
    for kind in ['hs'] * 4 + ['req'] * rnd['n'] + ['close']:
        for _ in range(R + 1):
            f = inject.get(idx)
            idx += 1
            if f == 'silent':
                continue
            if f is not None and f != 0 and kind != 'req':
                return idx, 'CompletionCodeError'
            break                              # answered (send_and_receive_raw hands a completion code to its caller)
        else:
            return idx, 'RetryError'
    return idx, 'ok'


def _kind_of(d):
    """'ping' | command number of the IPMI request in a LAN datagram (None when it is too short)"""
    if len(d) > 3 and d[3] == 6:
        return 'ping'
    if len(d) < 5:
        return None
    off = 4 + (10 if d[4] == 0 else 26)
    return d[off + 5] if len(d) > off + 5 else None


def _req_data(d):
    """the data bytes of the IPMI request in a LAN datagram"""
    off = 4 + (10 if d[4] == 0 else 26)
    return bytes(d[off + 6:-1])


STEP_OF = {'ping': 'ping', 0x38: 'Get Channel Authentication Capabilities', 0x39: 'Get Session Challenge',
           0x3a: 'Activate Session', 0x3b: 'Set Session Privilege Level', 0x3c: 'Close Session', 0x01: 'Get Device ID'}


def _judge_cleanup(ctx, case, rr, inject):
    """The caller's clean-up close_session() after a failure.  Returns True when a violation was recorded."""
    if rr['cleanup'] is None:
        return False
    main, extra = rr['sent'][:rr['n_main']], rr['sent'][rr['n_main']:]
    granted = any(_kind_of(d) == 0x3b for d in main)        # Activate Session was answered: the console holds the granted id
    failed_at = STEP_OF.get(_kind_of(main[-1]) if main else None, 'before the first datagram')
    ctx.count('cleanup-close:%s' % ('session-granted' if granted else 'no-session'))
    ctx.count('cleanup-close-after:%s' % failed_at)
    if rr['cleanup'].startswith('py:'):
        ctx.violate('C06:close-after-failed-open:%s' % rr['cleanup'][3:],
                    'the session could not be opened / used (%s at %s, %s) and the caller\'s clean-up close_session() ended in a '
                    'Python error %s instead of %s' % (rr['outcome'], rr['stage'], failed_at, rr['cleanup'][3:],
                                                      'sending Close Session for the granted id' if granted
                                                      else 'returning (no session was granted: nothing to send)'),
                    case, expected='close_session() returns; %s' % ('one Close Session' if granted else 'nothing sent'),
                    observed='%s; %d datagram(s) sent by the close' % (rr['cleanup'], len(extra)))
        return True
    if any(i >= rr['n_main'] for i in inject):
        return False                                         # the close itself was hit by a fault: only "no Python error"
    if granted and (len(extra) != 1 or _kind_of(extra[0]) != 0x3c or not rr['bmc'].startswith('closed')):
        ctx.violate('C06:session-left-open', 'opening / using the session failed with %s at stage %s after the BMC had '
                    'granted the session; close_session() then sent %d datagram(s) and the BMC is left in state %s'
                    % (rr['outcome'], rr['stage'], len(extra), rr['bmc']), case,
                    expected='one Close Session for the granted id, BMC closed',
                    observed='%d datagram(s), BMC %s' % (len(extra), rr['bmc']))
        return True
    if not granted and extra:
        sig, what = 'C06:close-without-session', ''
        if _kind_of(extra[0]) == 0x3c:
            named = int.from_bytes(_req_data(extra[0])[:4], 'little')
            tmp = case['rounds'][case['round']]['bmc']['tempSid']
            sig += ':temporary-id' if named == tmp else ':stale-id'
            what = ': Close Session for %08xh, %s' % (named, 'the TEMPORARY id of this handshake (never granted)'
                                                       if named == tmp else 'not an id of this handshake')
            if case['round'] > 0:
                what += '; the Session object had been used before (round %d), establish_session() did not clear it' \
                    % (case['round'] - 1)
        ctx.violate(sig, 'close_session() sent %d datagram(s) although no session had been granted in this handshake%s'
                    % (len(extra), what), case, expected='nothing', observed=lean.hexs(extra[0]))
        return True
    if rr['cleanup'] != 'ok':
        ctx.violate('C06:close-after-failed-open:%s' % rr['cleanup'].split(':')[0],
                    'the clean-up close_session() after %s (%s) raised %s although none of its datagrams was hit by a fault'
                    % (rr['outcome'], failed_at, rr['cleanup']), case, expected='returns', observed=rr['cleanup'])
        return True
    if rr['bmc'].startswith('active'):
        ctx.violate('C06:session-left-open', 'after the clean-up close_session() the BMC still holds an open session (%s)'
                    % rr['bmc'], case, expected='no open session', observed=rr['bmc'])
        return True
    return False


def judge(ctx, drv, sc, var, tie=True, verbose=False):
    res = run_real(drv, sc)
    impl = _implemented()
    for ri, (rnd, rr) in enumerate(zip(sc['rounds'], res['rounds'])):
        case = dict(sc, round=ri)
        b = rnd['bmc']
        inject = dict((int(k), v) for k, v in rnd.get('inject', {}).items())
        conforming = (b['user'] == sc['user'] and b['priv'] == sc['priv'] and
                      bytes.fromhex(b['pw']) == _pwbytes(sc['pw']))
        if verbose:
            print(' round %d: max_retries %d, outcome %s; BMC %s' % (ri, sc.get('max_retries', 0), rr['outcome'], rr['bmc']))
            for i, (d, v) in enumerate(zip(rr['sent'], rr['verdicts'])):
                if i == rr['n_main'] and rr['cleanup'] is not None:
                    print('   -- %s; clean-up close_session():' % rr['outcome'])
                print('   tx[%d] %s' % (i, lean.hexs(d)))
                print('        BMC: %s%s' % (v[:100], ' (injected: %s)' % inject[i] if i in inject else ''))
            if rr['cleanup'] is not None:
                print('   clean-up close_session() after %s: %s; it sent %d datagram(s)'
                      % (rr['outcome'], 'returned' if rr['cleanup'] == 'ok' else 'RAISED ' + rr['cleanup'],
                         len(rr['sent']) - rr['n_main']))
        ctx.count('outcome:' + rr['outcome'].split(':')[0])
        ctx.count('datagrams', len(rr['sent']))
        ctx.count('datagrams-lost', sum(1 for i in range(len(rr['sent'])) if inject.get(i) == 'silent'))
        ctx.count('retransmissions', sum(1 for i in range(1, len(rr['sent']))
                                         if inject.get(i - 1) == 'silent' and _kind_of(rr['sent'][i]) == _kind_of(rr['sent'][i - 1])))
        # ---- credential FORM: whatever form the user name and the password are configured in (None - the library
        # default, the null user / null password -, str, bytes; 0..16 bytes), the handshake completes or ends in an
        # error of the library's own (NotSupportedError when nothing offered is implemented, the injected fault) -
        # never in a Python TypeError / AttributeError raised while a request is being built
        form_error = None
        if rr['stage'] == 'establish' and rr['outcome'] in ('py:TypeError', 'py:AttributeError', 'py:UnicodeDecodeError',
                                                            'py:UnicodeEncodeError'):
            uk, pk = sc.get('ukind', 'str'), sc['pw']['kind']
            if rr['outcome'] == 'py:AttributeError' and (pk == 'none' or uk == 'none'):
                form_error = 'null-credentials'
            elif rr['outcome'] == 'py:TypeError' and uk == 'bytes':
                form_error = 'bytes-username'
            else:
                form_error = 'user-%s:password-%s' % (uk, pk)
            kinds = [STEP_OF.get(_kind_of(d), '?') for d in rr['sent'][:rr['n_main']]]
            ctx.violate('C06:handshake:python-error:%s' % form_error,
                        'user name %r, password %r (%s), BMC offers support=0x%02x: establish_session ends with %s after %s; '
                        '%s is never sent' % (_cred(sc)[0], _cred(sc)[1],
                                              'the default Session(): the anonymous login' if (uk, pk) == ('none', 'none')
                                              else 'set_auth_type_user', b['caps'], rr['outcome'][3:],
                                              ', '.join(kinds) or 'nothing', STEP_NAMES[min(len(kinds), 4)]), case,
                        expected='the handshake of the user name / password BYTES these objects stand for (a null '
                                 'password is sixteen zero bytes)', observed=rr['outcome'])
            ctx.count('python-error:' + form_error)
        # the Lean model of the client works on the credential BYTES; the two as-shipped places that fail on the FORM
        # before the bytes exist (probed: var np / bu) are modelled apart (Model/SessionCred.lean), no byte-level tie then
        known_form = (form_error == 'null-credentials' and var.get('np') == 's') or \
                     (form_error == 'bytes-username' and var.get('bu') == 's')
        if known_form:
            ctx.count('byte-level-tie-skipped:as-shipped-credential-form')
        # ---- credential-form model (Cred.failsAfter, variants as probed): where, if anywhere, an answered handshake ends
        # in a Python error because of the FORM - compared with the real code
        if tie and not inject and (form_error or rr['outcome'] == 'ok'):
            a = int(rr['state'].split()[0])
            m = drv.ask('cred %s %s %s %s %s %s %d' % (
                var.get('np', 's'), var.get('bu', 's'), sc.get('ukind', 'str'), lean.hexs(sc['user'].encode()),
                sc['pw']['kind'], lean.hexs(_pwbytes(sc['pw'])), 0 if a == 256 else a))
            got = '%d %s' % (rr['n_main'], rr['outcome']) if form_error else 'none'
            ctx.count('credential-form-compared')
            if m != got:
                ctx.disagree('credential-form', case, m, got)
        # ---- model tie: outcome, every datagram byte for byte, final session state
        if tie and not known_form:
            m = drv.ask(_model_line(sc, rnd, rr, var))
            parts = m.split(' | ')
            if len(parts) != 4:
                ctx.disagree('lifecycle', case, m[:300], 'outcome | datagrams | state | clean-up outcome')
            else:
                mds = [] if parts[1] == '-' else [x.split(':', 1) for x in parts[1].split()]
                if parts[0] != rr['outcome']:
                    ctx.disagree('lifecycle:outcome', case, parts[0], rr['outcome'])
                for k in range(max(len(mds), len(rr['sent']))):
                    mk = mds[k] if k < len(mds) else ['-', '(none)']
                    ck = lean.hexs(rr['sent'][k]) if k < len(rr['sent']) else '(none)'
                    if mk[1] != ck:
                        ctx.disagree('lifecycle:datagram', dict(case, datagram=k), 'datagram %d (%s): %s' % (k, mk[0], mk[1]),
                                     'datagram %d: %s' % (k, ck))
                        break
                    ctx.count('datagrams-compared')
                if parts[2] != rr['state']:
                    ctx.disagree('lifecycle:state', case, parts[2], rr['state'])
                if parts[3] != (rr['cleanup'] or '-'):
                    ctx.disagree('lifecycle:clean-up close', case, parts[3], rr['cleanup'] or '-')
        if form_error:
            continue
        # ---- property: the BMC never objects
        offered_impl = [a for a in impl if b['caps'] >> CAP_BITS.get(a, 7) & 1]
        offered_any = [a for a in CAP_BITS if b['caps'] >> CAP_BITS[a] & 1]
        flagged = False
        for i, v in enumerate(rr['verdicts']):
            if v.startswith('error'):
                why = v.split()[1]
                k = _kind_of(rr['sent'][i])
                step = STEP_OF.get(k, 'command %s' % k)
                retx = i > 0 and inject.get(i - 1) == 'silent'
                if why == 'auth-type-not-offered':
                    d = rr['sent'][i]
                    ctx.violate('C06:auth-choice:type-not-offered',
                                'the BMC offers support=0x%02x (types %s); the library sends Get Session Challenge for '
                                'authentication type %s, which the BMC did not offer (outcome %s)'
                                % (b['caps'], offered_any or 'none at all', d[20] & 0x0f if len(d) > 20 else '?', rr['outcome']),
                                case, expected='no request for a type that is not offered%s'
                                % ('' if offered_impl else ': NotSupportedError after the capabilities exchange'),
                                observed=lean.hexs(d))
                else:
                    ctx.violate('C06:bmc-objects:%s' % why,
                                'the reference BMC flags datagram %d (%s%s): %s' % (i, step, ', retransmission after a time-out'
                                                                                   if retx else '', why), case,
                                expected='a datagram that follows the v1.5 session rules', observed=lean.hexs(rr['sent'][i]))
                flagged = True
                break
        if flagged:
            # a flagged Activate Session (stale number of an earlier session) makes the handshake fail; the clean-up close
            # that follows is judged as well: it shows what else the stale state leads to
            if rr['cleanup'] is not None and i < rr['n_main'] and conforming:
                _judge_cleanup(ctx, case, rr, inject)
            continue
        if not offered_impl:
            # nothing the BMC offers is implemented: no session is possible.  The library must say so (NotSupportedError),
            # must not ask for anything the BMC did not offer, and - when the BMC offers nothing at all - has nothing
            # to ask for after the capabilities exchange
            ctx.count('no-common-auth-type:%s' % ('some-offered' if offered_any else 'none-offered'))
            if not inject:
                after = rr['sent'][2:rr['n_main']]
                if not offered_any and after:
                    ctx.violate('C06:auth-choice:type-not-offered',
                                'the BMC offers no authentication type (support=0x%02x) and the library goes on with %s'
                                % (b['caps'], STEP_OF.get(_kind_of(after[0]), 'a datagram')), case,
                                expected='nothing after the capabilities exchange', observed=lean.hexs(after[0]))
                    continue
                if any(_kind_of(d) in (0x3a, 0x3b) for d in rr['sent']):
                    ctx.violate('C06:auth-choice:unimplemented-type-used', 'Activate Session is sent although the BMC offers '
                                'no authentication type the library implements (support=0x%02x)' % b['caps'], case,
                                expected='NotSupportedError before Activate Session', observed=rr['outcome'])
                    continue
                if rr['outcome'] != 'NotSupportedError':
                    ctx.violate('C06:auth-choice:no-common-type:%s' % rr['outcome'].split(':')[0],
                                'the BMC offers no authentication type the library implements (support=0x%02x); '
                                'establish_session ends with %s' % (b['caps'], rr['outcome']), case,
                                expected='NotSupportedError', observed=rr['outcome'])
                    continue
            elif rr['outcome'] == 'ok':
                ctx.violate('C06:session-without-common-auth-type', 'a session is reported although the BMC offers no '
                            'authentication type the library implements (support=0x%02x)' % b['caps'], case,
                            expected='an error', observed='ok')
                continue
            _judge_cleanup(ctx, case, rr, inject)
            continue
        # ---- authentication-type choice (as seen in Get Session Challenge)
        chal = [d for d in rr['sent'] if _kind_of(d) == 0x39 and d[4] == 0]
        if chal:
            d = chal[0]
            chosen = d[20] & 0x0f if len(d) > 20 else None
            want = drv.ask('strongest %d %s' % (b['caps'], ','.join(str(x) for x in impl)))
            ctx.count('auth-chosen:%s' % chosen)
            if want != 'none' and chosen != int(want):
                ctx.violate('C06:auth-choice:%s' % ('unimplemented-type-preferred' if chosen not in impl
                                                     else 'weaker-type-preferred'),
                            'BMC offers support=0x%02x; the library asks for authentication type %s although it '
                            'implements the stronger offered type %s' % (b['caps'], chosen, want) +
                            ('' if chosen in impl else ' (and it does not implement %s: %s)' % (chosen, rr['outcome'])),
                            case, expected='authentication type %s' % want, observed='type %s, outcome %s' % (chosen, rr['outcome']))
                continue
        if not conforming:
            continue
        # ---- life cycle: number of datagrams and outcome of a console that follows the protocol
        want_n, want_o = _expect(sc, rnd)
        got_o = rr['outcome'].split(':')[0]
        main = rr['sent'][:rr['n_main']]
        # ---- clean-up after a failure: never a Python error; a granted session gets closed, nothing is sent otherwise
        if _judge_cleanup(ctx, case, rr, inject):
            continue
        if want_o == 'ok':
            if rr['outcome'] != 'ok' or not rr['bmc'].startswith('closed'):
                ctx.violate('C06:session-fails:%s' % got_o,
                            'against a conforming BMC%s the session life cycle ends with %s (BMC state %s) after %d datagrams'
                            % (' (faults within the retry budget)' if inject else '', rr['outcome'], rr['bmc'], len(rr['sent'])),
                            case, expected='ok, BMC closed', observed='%s, %s' % (rr['outcome'], rr['bmc']))
            elif len(main) != want_n:
                ctx.violate('C06:datagram-count', 'life cycle used %d datagrams instead of %d'
                            % (len(main), want_n), case, expected=want_n, observed=len(main))
        else:
            if rr['outcome'] == 'ok':
                ctx.violate('C06:fault-ignored', 'silence / error reply is not reported (expected %s after %d datagrams)'
                            % (want_o, want_n), case, expected=want_o, observed='ok')
            elif len(main) > want_n:
                ctx.violate('C06:continues-after-fault', '%d datagrams were sent although the life cycle had failed after %d'
                            % (len(main), want_n), case, expected=want_n, observed=len(main))
            elif len(main) < want_n:
                ctx.violate('C06:gives-up-early', 'only %d datagrams were sent; max_retries=%d allows %d'
                            % (len(main), sc.get('max_retries', 0), want_n), case, expected=want_n, observed=len(main))


# ----------------------------------------------------------------- the real keep-alive, ticked by hand
class _Ticker(object):
    """Stands in for the module `threading` inside pyipmi.interfaces.rmcp while a keep-alive scenario runs, so that the
    REAL call_repeatedly / stopper / thread run deterministically: `Event.wait(interval)` of a keep-alive loop does not
    sleep, it parks until the harness lets the loop go round once (`tick`) or the event is set (the stopper); the harness
    thread waits until the loop is parked again (or the thread has ended), so exactly one thread runs at any time.
    Everything else (`Lock`, `current_thread`, …) is the real module."""

    def __init__(self):
        import queue
        import threading
        self._real = threading
        self.loops = []                      # one per keep-alive thread: dict(ev, thread, q, died)
        tk = self

        class Event(object):
            def __init__(self):
                self._flag = False
                self._sem = threading.Semaphore(0)
                self.loop = {'ev': self, 'thread': None, 'q': queue.Queue(), 'died': None, 'calls': 0}
                tk.loops.append(self.loop)

            def set(self):
                self._flag = True
                self._sem.release()

            def is_set(self):
                return self._flag

            def wait(self, timeout=None):
                if self._flag:
                    return True
                self.loop['q'].put('parked')
                self._sem.acquire()
                if not self._flag:
                    self.loop['calls'] += 1
                return self._flag

        class Thread(threading.Thread):
            def __init__(self, *a, **kw):
                threading.Thread.__init__(self, *a, **kw)
                self.loop = tk.loops[-1] if tk.loops and tk.loops[-1]['thread'] is None else None
                if self.loop is not None:
                    self.loop['thread'] = self

            def run(self):
                try:
                    threading.Thread.run(self)
                except BaseException as e:  # noqa  (a keep-alive thread that dies is an observation)
                    if self.loop is not None:
                        self.loop['died'] = type(e).__name__
                finally:
                    if self.loop is not None:
                        self.loop['q'].put('ended')

            def start(self):
                threading.Thread.start(self)
                if self.loop is not None:
                    tk._settle(self.loop)    # until the loop is parked in its first wait()

        self.Event = Event
        self.Thread = Thread

    def __getattr__(self, name):
        return getattr(self._real, name)

    def _settle(self, loop):
        try:
            return loop['q'].get(timeout=20)
        except Exception:  # noqa
            return 'stuck'

    def running(self):
        """the keep-alive loops that have not been stopped and whose thread is alive"""
        return [l for l in self.loops if l['thread'] is not None and l['thread'].is_alive() and not l['ev'].is_set()]

    def unstopped(self):
        """the keep-alive loops whose stopper has not been called (what the model counts; a loop may have ended on its
        own - an unanswered keep-alive request raises RetryError, which call_repeatedly does not catch)"""
        return [l for l in self.loops if l['thread'] is not None and not l['ev'].is_set()]

    def tick(self):
        """one interval elapses: every running keep-alive loop goes round once, oldest first"""
        out = []
        for l in self.running():
            l['ev']._sem.release()
            out.append(self._settle(l))
        return out

    def shutdown(self):
        for l in self.loops:
            if l['thread'] is not None and l['thread'].is_alive():
                l['ev'].set()
                l['thread'].join(5)


def run_real_ka(drv, sc):
    """A history of establish_session / requests / close_session calls on ONE Rmcp(keep_alive_interval != 0) and ONE
    Session object, with the real keep-alive (call_repeatedly, its thread and its stopper) ticked by hand: `tick` steps
    let one interval elapse, `ticks` of an `open` step let one elapse just before the given exchange of the handshake
    (0 = the ping … 4 = Set Session Privilege Level).  Every datagram is judged and answered by the reference BMC, which
    is re-initialised when an `open` step begins.  Returns the list of datagram records and the per-step thread counts."""
    from pyipmi.interfaces import rmcp as R
    from pyipmi.session import Session
    from pyipmi import Target
    import threading
    tk = _Ticker()
    saved_threading, saved_rand = R.threading, R.random.randrange
    R.threading = tk
    wire, steps = [], []
    try:
        rm = R.Rmcp(keep_alive_interval=1, max_retries=sc.get('max_retries', 0))
        session = Session()
        session.set_session_type_rmcp('192.0.2.1', 623)
        pw = bytes.fromhex(sc['pw']['hex']) if sc['pw']['kind'] == 'bytes' else sc['pw']['text']
        session.set_auth_type_user(sc['user'], pw)
        session._priv_level = sc['priv']
        cur = {'step': -1, 'inject': {}, 'n': 0}

        def responder(d):
            t = threading.current_thread()
            idx = cur['n']
            cur['n'] += 1
            inj = cur['inject'].get(idx) if getattr(t, 'loop', None) is None else None
            if inj == 'silent':
                v = drv.ask('bmc-lost ' + lean.hexs(d))
            elif inj is not None:
                v = drv.ask('bmc-err %d %s' % (inj, lean.hexs(d)))
            else:
                v = drv.ask('bmc ' + lean.hexs(d))
            wire.append({'step': cur['step'], 'd': d, 'verdict': v, 'bmc': drv.ask('bmc-state'),
                         'keepalive': None if getattr(t, 'loop', None) is None else tk.loops.index(t.loop)})
            if v.startswith('reply') and inj != 'silent':
                return [lean.unhex(v.split()[1])]
            return []
        rm._sock = FakeSock(responder=responder)
        # one interval elapses just before exchange k of a handshake (outside the transaction lock)
        hook = {'ticks': (), 'k': 0, 'during': []}
        real_ping, real_sar = rm.ping, rm._send_and_receive

        def before_exchange():
            if threading.current_thread() is threading.main_thread() and cur.get('in_open'):
                hook['during'].append(len(tk.unstopped()))
                if hook['k'] in hook['ticks']:
                    tk.tick()
                hook['k'] += 1

        def ping():
            before_exchange()
            return real_ping()

        def sar(*a, **kw):
            before_exchange()
            return real_sar(*a, **kw)
        rm.ping, rm._send_and_receive = ping, sar
        for si, st in enumerate(sc['steps']):
            cur['step'], cur['n'] = si, 0
            cur['inject'] = dict((int(k), v) for k, v in st.get('inject', {}).items())
            rec = {'do': st['do'], 'outcome': 'ok', 'during': None}
            try:
                if st['do'] == 'open':
                    b = st['bmc']
                    drv.ask('bmc-init %d %s %s %d %d %s %d %d' % (
                        b['caps'], lean.hexs(b['user'].encode()), lean.hexs(bytes.fromhex(b['pw'])), b['priv'],
                        b['tempSid'], b['challenge'], b['sid'], b['inSeq0']))
                    R.random.randrange = lambda a, z, _v=st['outSeq']: _v
                    hook['ticks'], hook['k'], hook['during'] = tuple(st.get('ticks', ())), 0, []
                    cur['in_open'] = True
                    try:
                        rm.establish_session(session)
                    finally:
                        cur['in_open'] = False
                        rec['during'] = max(hook['during']) if hook['during'] else 0
                elif st['do'] == 'req':
                    rm.send_and_receive_raw(Target(0x20), 0, 6, b'\x01')
                elif st['do'] == 'close':
                    rm.close_session()
                elif st['do'] == 'tick':
                    rec['ticked'] = tk.tick()
            except Exception as e:  # noqa
                rec['outcome'] = _tag(e)
            rec['running'] = len(tk.unstopped())
            rec['bmc'] = drv.ask('bmc-state')
            steps.append(rec)
        died = [l['died'] for l in tk.loops if l['died']]
    finally:
        tk.shutdown()
        R.threading, R.random.randrange = saved_threading, saved_rand
    return {'wire': wire, 'steps': steps, 'threads': len(tk.loops), 'died': died}


def judge_ka(ctx, drv, sc, var, tie=True, verbose=False):
    res = run_real_ka(drv, sc)
    case = dict(sc)
    if verbose:
        for si, (st, rec) in enumerate(zip(sc['steps'], res['steps'])):
            print(' step %d: %s%s -> %s; keep-alive threads running afterwards: %d%s; BMC %s'
                  % (si, st['do'], (' ticks before exchange %s' % list(st['ticks'])) if st.get('ticks') else '',
                     rec['outcome'], rec['running'],
                     '' if rec['during'] is None else ' (during the handshake: %d)' % rec['during'], rec['bmc']))
            for w in res['wire']:
                if w['step'] == si:
                    print('   tx %s%s' % (lean.hexs(w['d']), '' if w['keepalive'] is None
                                          else '   <- keep-alive thread %d' % w['keepalive']))
                    print('        BMC: %s' % w['verdict'][:100])
    ctx.count('keepalive-threads', res['threads'])
    ctx.count('keepalive-datagrams', sum(1 for w in res['wire'] if w['keepalive'] is not None))
    for d in res['died']:
        ctx.count('keepalive-thread-ended-by:' + d)      # observation (no liveness clause): see ASSUMPTIONS
    if any(r['outcome'].startswith('py:') or 'stuck' in (r.get('ticked') or []) for r in res['steps']):
        ctx.disagree('keep-alive scenario did not run', case, 'every step runs', repr([r['outcome'] for r in res['steps']]))
        return
    # ---- model tie: how many keep-alive threads exist during each handshake and after each call
    if tie:
        toks, want = [], []
        for st, rec in zip(sc['steps'], res['steps']):
            if st['do'] == 'open':
                toks.append('e1' if rec['outcome'] == 'ok' else 'e0')
                want.append('h%d,r%d' % (rec['during'], rec['running']))
            elif st['do'] == 'close':
                toks.append('c')
                want.append('r%d' % rec['running'])
        m = drv.ask('ka %s %s' % (var['ka'], ' '.join(toks)))
        if m != (' '.join(want) or '-'):
            ctx.disagree('keep-alive threads', case, m, ' '.join(want))
    # ---- property: the BMC never objects - nothing after Close Session, nothing of an earlier session once the next
    # handshake has begun, one chain of sequence numbers in the session
    for w in res['wire']:
        if not w['verdict'].startswith('error'):
            continue
        why = w['verdict'].split()[1]
        st = sc['steps'][w['step']]
        if w['keepalive'] is not None:
            own = [i for i, x in enumerate(sc['steps'][:w['step'] + 1]) if x['do'] == 'open']
            if why == 'datagram-after-close':
                sig = 'C06:keep-alive:datagram-after-close'
                what = ('close_session() has sent Close Session (step %d); afterwards keep-alive thread %d (of %d started) '
                        'sends %s for the closed session' % (max(i for i, x in enumerate(sc['steps'][:w['step'] + 1])
                                                                  if x['do'] == 'close'), w['keepalive'], res['threads'],
                                                              STEP_OF.get(_kind_of(w['d']), 'a datagram')))
            else:
                sig = 'C06:keep-alive:outlives-its-session'
                what = ('establish_session() (step %d) has begun a new handshake; keep-alive thread %d, started by an '
                        'earlier establish_session(), sends %s into it (%s)'
                        % (own[-1] if own else -1, w['keepalive'], STEP_OF.get(_kind_of(w['d']), 'a datagram'), why))
            ctx.violate(sig, what, case, expected='no datagram of a keep-alive thread after Close Session, nor after the next '
                        'establish_session() has begun', observed=lean.hexs(w['d']))
        else:
            ctx.violate('C06:bmc-objects:%s' % why, 'the reference BMC flags a datagram of step %d (%s, %s): %s'
                        % (w['step'], st['do'], STEP_OF.get(_kind_of(w['d']), 'datagram'), why), case,
                        expected='a datagram that follows the v1.5 session rules', observed=lean.hexs(w['d']))
        return
    # un-faulted steps succeed; after an un-faulted close the BMC is closed
    for si, (st, rec) in enumerate(zip(sc['steps'], res['steps'])):
        if not st.get('inject') and st['do'] in ('open', 'req', 'close') and rec['outcome'] != 'ok' \
                and not any(sc['steps'][j].get('inject') for j in range(si)):
            ctx.violate('C06:keep-alive:session-fails:%s' % rec['outcome'].split(':')[0],
                        'step %d (%s) of a history with a running keep-alive ends with %s' % (si, st['do'], rec['outcome']),
                        case, expected='ok', observed=rec['outcome'])
            return


def _ka_scenarios(rng, tier):
    out = []

    def bmc(user, pw, priv):
        return {'caps': rng.choice([0x04, 0x10, 0x01, 0x15]), 'user': user, 'pw': _pwhex(pw), 'priv': priv,
                'tempSid': _b32(rng), 'challenge': bytes(rng.randrange(256) for _ in range(16)).hex(), 'sid': _b32(rng),
                'inSeq0': _b32(rng, False)}

    def mk(steps_fn):
        user, pw, priv = _user(rng), _pw(rng), rng.choice([2, 3, 4])

        def op(**kw):
            return dict({'do': 'open', 'bmc': bmc(user, pw, priv), 'outSeq': rng.randrange(1, 0xffffffff)}, **kw)
        return {'op': 'ka', 'user': user, 'pw': pw, 'priv': priv, 'max_retries': 0, 'steps': steps_fn(op)}
    T, Q, C = {'do': 'tick'}, {'do': 'req'}, {'do': 'close'}
    # one session with its keep-alive: ticks in the session, none after the close
    out.append(('keepalive:one-session', mk(lambda op: [op(), T, Q, T, T, C, T, T])))
    # open, close, open again, close
    out.append(('keepalive:two-sessions', mk(lambda op: [op(), T, C, T, op(), T, Q, C, T])))
    # open, open again WITHOUT close (log in again with other credentials / reconnect), close
    out.append(('keepalive:reopen-without-close', mk(lambda op: [op(), T, op(), T, Q, C, T, T])))
    # an interval elapses while the second handshake is under way, before exchange k
    for k in range(5):
        out.append(('keepalive:tick-during-second-handshake', mk(lambda op, k=k: [op(), T, op(ticks=[k]), T, C, T])))
    # the disciplined reconnect: the session is lost (Close Session unanswered: close raises), establish again, close
    out.append(('keepalive:lost-close-then-reopen', mk(lambda op: [op(), T, dict(C, inject={'0': 'silent'}), T, op(), T, C, T])))
    # the second handshake fails at step k (the first session's thread must be gone all the same), then close
    for k in (1, 3, 4):
        out.append(('keepalive:reopen-fails', mk(lambda op, k=k: [op(), T, op(inject={str(k): 'silent'}), T, C, T])))
    # three handshakes in a row
    out.append(('keepalive:three-opens', mk(lambda op: [op(), op(), T, op(ticks=[0, 3]), T, C, T])))
    for _ in range(4 if tier == 'quick' else 60):
        def steps(op):
            st, is_open = [op()], True
            for _i in range(rng.randrange(2, 8)):
                x = rng.choice([T, T, Q, C, op(), op(ticks=[rng.randrange(5)])] if is_open else [T, op(), C])
                is_open = x['do'] == 'open' or (is_open and x['do'] != 'close')
                st.append(x)
            return st + [C, T]
        out.append(('keepalive:random-history', mk(steps)))
    return out


# ----------------------------------------------------------------- generators
def _b32(rng, nonzero=True):
    while True:
        v = rng.choice(BOUNDARY32) if rng.random() < 0.5 else boundary_int(rng, 32)
        if v or not nonzero:
            return v


def _pw(rng, n=None):
    n = rng.randrange(17) if n is None else n
    k = rng.random()
    if k < 0.5:
        return {'kind': 'bytes', 'hex': bytes(rng.randrange(256) for _ in range(n)).hex()}
    if k < 0.8:
        return {'kind': 'str', 'text': ''.join(chr(rng.randrange(0x21, 0x7f)) for _ in range(n))}
    s = ''
    while True:
        c = rng.choice(['é', 'ß', 'ж', '€', 'a', '0'])
        if len((s + c).encode()) > n:
            break
        s += c
    return {'kind': 'str', 'text': s}


def _user(rng, n=None):
    n = rng.randrange(17) if n is None else n
    return ''.join(chr(rng.randrange(0x21, 0x7f)) for _ in range(n))


def _pwhex(pw):
    return _pwbytes(pw).hex()


def _scenario(rng, caps=None, inSeq0=None, n=None, user=None, pw=None, priv=None, inject=None, rounds=1, ignore=0,
              max_retries=0, closes=1, rcloses=None, ukind=None):
    user = _user(rng) if user is None else user
    pw = _pw(rng) if pw is None else pw
    priv = rng.choice([2, 3, 4, 4, 5]) if priv is None else priv
    rs = []
    for ri in range(rounds):
        rs.append({'bmc': {'caps': rng.choice([0x04, 0x10, 0x01, 0x15, 0x37]) if caps is None else caps,
                           'user': user, 'pw': _pwhex(pw), 'priv': priv, 'tempSid': _b32(rng),
                           'challenge': bytes(rng.randrange(256) for _ in range(16)).hex(), 'sid': _b32(rng),
                           'inSeq0': _b32(rng, False) if inSeq0 is None else inSeq0},
                   'outSeq': rng.choice([1, 0xfffffffe, rng.randrange(1, 0xffffffff)]),
                   'n': rng.randrange(0, 5) if n is None else n,
                   'inject': (inject[ri] if isinstance(inject, list) else inject) or {}})
        if rcloses is not None:
            rs[-1]['closes'] = rcloses[ri]
    sc = {'op': 'session', 'user': user, 'pw': pw, 'priv': priv, 'ignore': ignore, 'max_retries': max_retries,
          'closes': closes, 'rounds': rs}
    if ukind is not None:
        sc['ukind'] = ukind
    return sc


def _scenarios(rng, tier):
    out = []
    subsets = []
    for m in range(32):
        c = 0
        for i, a in enumerate((0, 1, 2, 4, 5)):
            if m >> i & 1:
                c |= 1 << CAP_BITS[a]
        subsets.append(c)
    reps = 1 if tier == 'quick' else 8
    for _ in range(reps):
        for c in subsets:
            out.append(('caps', _scenario(rng, caps=c)))
    # initial inbound sequence numbers around the wrap, enough requests to cross it, every implemented type
    for s0 in (0, 1, 0x7fffffff, 0xfffffff8, 0xfffffffd, 0xfffffffe, 0xffffffff):
        for c in (0x01, 0x10, 0x04):
            out.append(('seq', _scenario(rng, caps=c, inSeq0=s0, n=rng.randrange(2, 9))))
    for n in range(17):
        out.append(('user-len', _scenario(rng, user=_user(rng, n), caps=0x14)))
        out.append(('pw-len', _scenario(rng, pw=_pw(rng, n), caps=rng.choice([0x04, 0x10]))))
    # ANONYMOUS LOGIN - the EMPTY user name together with the EMPTY password (0 bytes each: legal under "all user names
    # and passwords up to 16 bytes"; the null user of IPMI, whose MD5 / straight key is sixteen zero bytes), the password
    # given as '' and as b'' - against EVERY capability subset; and each of the two empty alone against every subset
    # that offers none NEXT TO a stronger implemented type (MD5 / password): the type asked for in Get Session
    # Challenge, used for Activate Session and carried by every datagram after it is the strongest one offered that the
    # library implements, whatever the credentials are (Props/C06.chosen_type_on_every_datagram)
    empty_pw = [{'kind': 'str', 'text': ''}, {'kind': 'bytes', 'hex': ''}]
    for _ in range(reps):
        for i, c in enumerate(subsets):
            out.append(('anonymous', _scenario(rng, caps=c, user='', pw=empty_pw[(i + _) % 2])))
        for i, c in enumerate(subsets):
            if c & 0x01 and c & 0x14:
                out.append(('empty-user', _scenario(rng, caps=c, user='', pw=_pw(rng, rng.randrange(1, 17)))))
                out.append(('empty-password', _scenario(rng, caps=c, user=_user(rng, rng.randrange(1, 17)),
                                                        pw=empty_pw[i % 2])))
    # CREDENTIAL FORM x capability subset: the user name and the password, independently, as None (the library default;
    # both None = Session() untouched, the anonymous login), '' / b'', a str, a bytes object, 16 bytes long - against
    # all 32 subsets.  What goes on the wire depends on the BYTES only.
    def uforms():
        return [('none', ''), ('str', ''), ('bytes', ''), ('str', _user(rng, rng.randrange(1, 16))),
                ('bytes', _user(rng, rng.randrange(1, 16))), ('str', _user(rng, 16)), ('bytes', _user(rng, 16))]

    def pforms():
        return [{'kind': 'none'}, {'kind': 'str', 'text': ''}, {'kind': 'bytes', 'hex': ''},
                {'kind': 'str', 'text': _user(rng, rng.randrange(1, 16))},
                {'kind': 'bytes', 'hex': bytes(rng.randrange(256) for _ in range(rng.randrange(1, 16))).hex()},
                {'kind': 'str', 'text': _user(rng, 16)},
                {'kind': 'bytes', 'hex': bytes(rng.randrange(256) for _ in range(16)).hex()}]
    for c in subsets:
        for uk, u in uforms():
            for pf in pforms():
                out.append(('credential-form', _scenario(rng, caps=c, user=u, ukind=uk, pw=pf, n=rng.randrange(0, 2))))
    for c in (0x05, 0x11, 0x14, 0x15, 0x37):
        for uk, pf in (('none', {'kind': 'none'}), ('bytes', {'kind': 'bytes', 'hex': '7077'}),
                       ('bytes', {'kind': 'none'}), ('none', {'kind': 'str', 'text': 'pw'})):
            u = '' if uk == 'none' else _user(rng, rng.randrange(1, 17))
            out.append(('credential-form-two-sessions', _scenario(rng, caps=c, user=u, ukind=uk, pw=pf, rounds=2,
                                                                  max_retries=rng.choice([0, 2]))))
            out.append(('credential-form-fault-then-cleanup',
                        _scenario(rng, caps=c, user=u, ukind=uk, pw=pf, n=1,
                                  inject={str(rng.choice([2, 3, 4, 5])): 'silent'}, closes='c')))
    # ... on objects that carry a second session, with retransmissions, with the clean-up close after a fault
    for c in (0x05, 0x11, 0x15, 0x37):
        out.append(('anonymous-two-sessions', _scenario(rng, caps=c, user='', pw=rng.choice(empty_pw), rounds=2,
                                                        max_retries=rng.choice([0, 2]))))
        out.append(('anonymous-fault-then-cleanup', _scenario(rng, caps=c, user='', pw=rng.choice(empty_pw), n=1,
                                                              inject={str(rng.choice([2, 3, 4, 5])): 'silent'}, closes='c')))
    for p in (2, 3, 4, 5):
        out.append(('priv', _scenario(rng, priv=p)))
    # faults at every datagram: handshake 0..4, first request 5, close
    for k in range(7):
        # (the ping has no completion code; send_and_receive_raw hands the completion code to its caller)
        for f in (['silent', 0xc1, 0x81, 0xd4, 0xff] if k not in (0, 5) else ['silent']):
            n = 1
            idx = k if k < 6 else 5 + n
            out.append(('fault@%d' % k, _scenario(rng, caps=rng.choice([0x04, 0x10, 0x01]), n=n, inject={str(idx): f})))
    # retransmissions: max_retries 1..3, datagrams lost at every position of the life cycle (handshake, Set Session
    # Privilege Level, requests, close), runs of 1..max_retries losses (within the budget) and max_retries+1 (beyond)
    for R in (1, 2, 3):
        n = 2
        for pos in range(1, 5 + n + 1):                       # the exchange that suffers the losses (1 = Get Channel Auth Cap)
            for run in sorted(set([1, R, R + 1])):
                inj = dict((str(pos + i), 'silent') for i in range(run))
                out.append(('retry@%s' % ('handshake' if pos < 4 else 'session'),
                            _scenario(rng, caps=rng.choice([0x04, 0x10, 0x01]), n=n, inject=inj, max_retries=R,
                                      inSeq0=rng.choice([None, 0xfffffffd, 0xfffffffe, 0xffffffff]))))
    # several losses scattered over one life cycle, never more than max_retries in a row
    for _ in range(12 if tier == 'quick' else 300):
        R = rng.randrange(1, 4)
        n = rng.randrange(0, 4)
        inj, idx, budget = {}, 1, 0
        for _e in range(5 + n):
            k = rng.choice([0, 0, 1, rng.randrange(0, R + 1)])
            for i in range(k):
                inj[str(idx + i)] = 'silent'
            idx += k + 1
        out.append(('retry-scattered', _scenario(rng, caps=rng.choice([0x04, 0x10, 0x01, 0x15]), n=n, inject=inj, max_retries=R,
                                                 inSeq0=rng.choice([None, None, 0xfffffffc, 0xffffffff]))))
    # an error completion code on a retransmitted request
    for R in (1, 2):
        for pos in (1, 2, 3, 4, 7):
            out.append(('retry-then-error', _scenario(rng, caps=rng.choice([0x04, 0x10]), n=2, max_retries=R,
                                                      inject={str(pos): 'silent', str(pos + 1): 0xc1})))
    # a second session on the same Session / Rmcp objects
    for _ in range(3 if tier == 'quick' else 30):
        out.append(('two-sessions', _scenario(rng, caps=rng.choice([0x04, 0x10, 0x01, 0x15]), rounds=2,
                                              max_retries=rng.choice([0, 0, 2]))))
    # a handshake that fails at step k (silence / error completion code), then a NEW attempt on the same Rmcp and
    # Session objects: it must start from scratch (first three messages outside any session)
    for k in range(1, 5):
        for f in ('silent', 0x81):
            out.append(('failed-then-new-attempt@%d' % k,
                        _scenario(rng, caps=rng.choice([0x04, 0x10, 0x15]), rounds=2, n=1, inject=[{str(k): f}, {}],
                                  closes=rng.choice([1, 'c']))))
    # HISTORIES on the same objects in which an earlier session was LOST (the object stays "activated": the answer to
    # Set Session Privilege Level, to a request or to Close Session never came, also not for the clean-up close), then a
    # new handshake that fails at Activate Session (silence, or refused: 81h no session slot - the old session still
    # occupies it -, D4h), then the clean-up close; and then a further, un-faulted session on the same objects
    for R in ((0, 1) if tier == 'quick' else (0, 1, 2)):
        lost = [('setpriv-lost', dict((str(4 + i), 'silent') for i in range(R + 1)), 1, 0),
                ('setpriv-and-cleanup-lost', dict((str(4 + i), 'silent') for i in range(2 * (R + 1))), 'c', 0),
                ('request-lost', dict((str(5 + i), 'silent') for i in range(R + 1)), 1, 1),
                ('close-lost', dict((str(6 + i), 'silent') for i in range(R + 1)), 1, 1),
                ('setpriv-refused', {'4': 0xd4}, 1, 0)]
        for name, inj1, cl1, n1 in lost:
            for f2 in ('silent', 0x81, 0xd4):
                inj2 = dict((str(3 + i), 'silent') for i in range(R + 1)) if f2 == 'silent' else {'3': f2}
                sc = _scenario(rng, caps=rng.choice([0x04, 0x10, 0x15]), rounds=3, n=n1, max_retries=R,
                               inject=[inj1, inj2, {}], rcloses=[cl1, 'c', 1],
                               inSeq0=rng.choice([None, 0xfffffffe, 0xffffffff]))
                out.append(('session-lost-then-activate-fails-then-cleanup:' + name, sc))
        # … and the new handshake fails at another step, or not at all
        for k2 in (1, 2, 4):
            inj2 = dict((str(k2 + i), 'silent') for i in range(R + 1))
            out.append(('session-lost-then-fault@%d-then-cleanup' % k2,
                        _scenario(rng, caps=rng.choice([0x04, 0x10]), rounds=3, n=1, max_retries=R,
                                  inject=[dict((str(4 + i), 'silent') for i in range(R + 1)), inj2, {}],
                                  rcloses=[1, 'c', 1])))
        out.append(('session-lost-then-new-session',
                    _scenario(rng, caps=rng.choice([0x04, 0x10, 0x01]), rounds=2, n=2, max_retries=R,
                              inject=[dict((str(5 + i), 'silent') for i in range(R + 1)), {}], rcloses=[1, 2])))
    out.append(('ignore-len', _scenario(rng, caps=0x15, ignore=1)))
    # a failure at every step - the ping (0), the four handshake requests (1..4), a request (5) - by silence for the
    # whole retry budget or an error completion code, then the caller's clean-up close_session(): it is called
    # whatever the state of the interface (no session object before the challenge was obtained)
    for k in range(0, 6):
        for f in (['silent', 0x81, 0xd4] if k not in (0, 5) else ['silent']):
            for R in (0, 1):
                inj = dict((str(k + i), f) for i in range(R + 1 if k else 1)) if f == 'silent' else {str(k): f}
                out.append(('fault-then-cleanup@%d' % k, _scenario(rng, caps=rng.choice([0x04, 0x10, 0x01]), n=1, inject=inj,
                                                                   max_retries=R, closes='c',
                                                                   inSeq0=rng.choice([None, 0xfffffffe, 0xffffffff]))))
    # the same on objects that have already carried a session (the interface holds the old session object until the
    # next establish_session() resets it)
    for k in (0, 1, 2, 3):
        out.append(('session-then-fault-then-cleanup@%d' % k,
                    _scenario(rng, caps=rng.choice([0x04, 0x10, 0x01]), rounds=2, n=1,
                              inject=[{}, {str(k): 'silent'}], closes='c')))
    # the BMC offers no authentication type at all (support byte 00h; reserved bits only: 08h, C0h), or none that the
    # library implements (MD2 / OEM): no session is possible; alone and followed by the clean-up close
    for c in (0x00, 0x08, 0xc0, 0x02, 0x20, 0x22):
        for closes in (1, 'c'):
            out.append(('no-common-auth-type', _scenario(rng, caps=c, closes=closes, max_retries=rng.choice([0, 1]))))
    # close_session() called twice: the second call must not put anything on the wire
    for c in (0x01, 0x04, 0x10):
        out.append(('close-twice', _scenario(rng, caps=c, closes=2, rounds=rng.choice([1, 2]))))
    for _ in range(20 if tier == 'quick' else 600):
        out.append(('random', _scenario(rng, ignore=rng.randrange(2), max_retries=rng.choice([0, 0, 0, 1, 3]),
                                        closes=rng.choice([1, 1, 2]))))
    return out


def run(ctx):
    drv = ctx.driver('drv_c06')
    rng = ctx.rng('c06')
    var = _variants(drv)
    pref = var['pref']
    names = {'s': 'asShipped', 'i': 'intended', 'g': 'generated'}
    ctx.extra['auth_preference_variant'] = names[pref]
    ctx.extra['close_guard_variant'] = names[var['cg']]
    ctx.extra['no_auth_type_variant'] = names[var['na']]
    ctx.extra['implemented_auth_types'] = _implemented()
    # the choice function alone, every support byte (model vs real get_max_auth_type is covered by the sessions)
    for sup in range(64):
        ctx.case(('choose', sup), nontrivial=False)
    scs = _scenarios(rng, ctx.tier)
    for i, (kind, sc) in enumerate(scs):
        ctx.case(('session', repr(sc)))
        ctx.count('scenario:' + kind)
        judge(ctx, drv, sc, var)
        if i in (0, 40, 100):
            ctx.sample({'kind': kind, 'scenario': sc})
        if ctx.time_left() < 20:
            ctx.notes.append('time budget reached after %d of %d scenarios' % (i, len(scs)))
            break
    # the real keep-alive over histories of establish / close calls on one interface
    ctx.extra['session_reset_variant'] = names[var['rs']]
    ctx.extra['keepalive_stop_variant'] = names[var['ka']]
    for kind, sc in _ka_scenarios(rng, ctx.tier):
        ctx.case(('ka', repr(sc)))
        ctx.count('scenario:' + kind)
        judge_ka(ctx, drv, sc, var)
    # model client against the reference BMC behind a lossy network, entirely in Lean (what the theorems are about), sampled
    for _ in range(40 if ctx.tier == 'quick' else 400):
        R = rng.choice([0, 0, 1, 2, 3])
        sc = _scenario(rng, caps=rng.choice([0x01, 0x04, 0x10, 0x15, 0x37, 0x12, 0x03]), max_retries=R)
        r = sc['rounds'][0]
        b = r['bmc']
        lost, idx = [], 1
        for _e in range(5 + r['n']):
            k = rng.randrange(0, R + 1) if rng.random() < 0.4 else 0
            lost += list(range(idx, idx + k))
            idx += k + 1
        line = 'loop i %d %s %s %d %d %s %d %d %d %d %d %s' % (
            b['caps'], lean.hexs(b['user'].encode()), lean.hexs(bytes.fromhex(b['pw'])), b['priv'], b['tempSid'],
            b['challenge'], b['sid'], b['inSeq0'], r['outSeq'], r['n'], R, ','.join(str(x) for x in lost) or '-')
        m = drv.ask(line)
        ctx.case(('loop', line), nontrivial=True)
        ctx.count('lean-closed-loop')
        ctx.count('lean-closed-loop-lost', len(lost))
        want = 'ok | closed none | %d' % (6 + r['n'] + len(lost))
        if not m.startswith(want):
            ctx.disagree('closed-loop', {'line': line}, m, want)


def search(ctx):
    """All clauses are judged on the real code by the reference BMC in `run`."""
    return


def replay(ctx, v):
    case = dict(v['case'])
    case.pop('round', None)
    drv = ctx.driver('drv_c06')
    c2 = ctx.__class__('C06', 'quick', 0)
    if case.get('op') == 'ka':
        print('keep-alive scenario: user=%r priv=%d steps=%s' % (case['user'], case['priv'],
                                                                  ' '.join(s['do'] for s in case['steps'])))
        judge_ka(c2, drv, case, _variants(drv), tie=False, verbose=True)
        for x in c2.violations:
            print('  %s: %s' % (x['signature'], x['what']))
        return bool(c2.violations)
    print('scenario: user=%r priv=%d rounds=%d' % (case['user'], case['priv'], len(case['rounds'])))
    for r in case['rounds']:
        print('  BMC: %s  n=%d inject=%s' % (r['bmc'], r['n'], r.get('inject')))
    judge(c2, drv, case, _variants(drv), tie=False, verbose=True)
    for x in c2.violations:
        print('  %s: %s' % (x['signature'], x['what']))
    return bool(c2.violations)
