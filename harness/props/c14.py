"""C14 — One LAN interface can be shared by threads, including its keep-alive.

Tie = trace validation.  The REAL `Rmcp` object is shared by real `threading` threads that run
under the deterministic scheduler of `harness/sim/sched.py`:

  * `pyipmi.interfaces.rmcp.threading` is replaced (for the duration of one schedule) by a shim
    whose `Lock`, `Event` and `Thread` are scheduler-aware, so `Rmcp.transaction_lock` blocks by
    scheduling decision and the REAL `call_repeatedly` loop (started by the real
    `establish_session`) is the keep-alive thread — its `stopped.wait(interval)` is a virtual
    timer that elapses a given number of times, each time at a moment the scheduler chooses; the
    wake-up of `stopped.wait`, `stopped.set()` and the (optional) `t.join()` of the stopper are
    scheduling points, and one worker may end with the REAL `close_session()` (after the
    application's own barrier: the other workers have finished), so the stop timing is explored:
    the keep-alive between wake-up and lock acquisition, queued on the lock, inside the lock, or
    asleep, when the event is set;
  * `Rmcp._sock` is a fake socket in front of a reference BMC written from the IPMI v1.5
    figures (RMCP/ASF ping, session set-up, one reply per datagram, FIFO);
  * `Rmcp.next_sequence_number`, `Session.sequence_number`, `Session.activated` and `Rmcp._q` are
    wrapped so that every access is logged with the id of the accessing thread (and is a
    scheduling point).

The variant of the model (does the stopper returned by `call_repeatedly` join the keep-alive thread?)
is probed on the real code and cross-checked with what the translator read from the AST.

Retransmissions: `cfg['mr']` is `Rmcp(max_retries=…)` and `cfg['lose']` the loss plan of the fake network (the
reply to the k-th datagram of the run is withheld for good: its sender's `recvfrom` raises `socket.timeout`), so the
real retry loop runs — pack again, transmit again, inside the same lock hold — for application threads, the
keep-alive and Close Session alike; the socket logs the time-out (`X:tid:serial`) next to the datagrams.

For every explored schedule
  (1) the Spec monitor (Lean, `Spec.Threads.accepts`, through `drv_c14 mon`) judges the REAL wire
      log and the REAL per-call results — the property oracle, violation => replay = the schedule;
  (2) the logged access sequence is fed to the Model (`drv_c14 run`), which must accept it as
      one of its runs and reproduce the same wire log and results — the correspondence.
"""
import hashlib
import queue
import socket
import struct

from ..lib import repo
from ..sim import sched as S
from ..translate import threads as threads_t

ID = 'C14'
TARGETS = ['PyIpmi.Props.C14', 'drv_c14']
LEVEL = 'proof'
RULE = ('one case = one complete schedule of the real Rmcp shared by 2..4 real threads (1..3 workers issuing 0..3 '
        'raw requests each, plus in most configurations the real call_repeatedly keep-alive loop firing 1..2 times; '
        'in about a third of the configurations one worker ends with the real close_session() after the other '
        'workers have finished) under the deterministic scheduler.  Systematic: every schedule with <= 2 '
        '(thorough: 3) preemptions at lock/socket granularity (yield before acquire, release, sendto, recvfrom, '
        'call entry, wake-up of stopped.wait, stopped.set, join, barrier) for a fixed '
        'list of configurations, and every schedule with <= 1 (thorough: 2) preemptions at shared-access '
        'granularity (additionally every load/store of next_sequence_number and Session.sequence_number).  Random: '
        'seeded schedules at source-line granularity (sys.settrace on rmcp.py/session.py/ipmb.py) and at '
        'shared-access granularity, random configuration (auth none/password/MD5, initial counters incl. the 6-bit '
        'and 32-bit wraps), switch probability 0.02..0.6.  Each case: Spec monitor on the real wire log/results, '
        'and trace inclusion in the Lean model.  Late-reply stream (always on): for four configurations (two / three '
        'callers issuing the same command; one caller and the interface\'s own keep-alive) the reply to ONE datagram is '
        'withheld until the next datagram is sent, under every schedule with <= 2 (thorough: 3) preemptions at '
        'shared-access granularity - the schedule "A increments, B increments, B reads, A reads" among them; judged '
        'by an oracle that holds under the fault too: a call may fail, but it never returns the reply to a datagram its '
        'caller did not send.  Retransmission stream (always on): Rmcp(max_retries = 1 | 2) behind a network that loses '
        'the replies named by a loss plan (the reply to the k-th datagram of the run is withheld: socket.timeout), for '
        'application threads, the keep-alive and Close Session: each configuration with the reply to the k-th datagram '
        'lost, k = 0..5, without preemption, then every schedule with <= 2 (thorough: 3) preemptions for a fixed list of '
        '(configuration, loss plan) pairs - one loss, two in a row within the budget, more than the budget (the call '
        'must end in an error and release the lock) - and a quarter of the random configurations carry max_retries 1..2 '
        'and a random loss plan; judged by the same Lean monitor (session sequence numbers strictly increasing over the '
        'whole wire log, retransmissions included; a call returns its own reply, or an error after a time-out on its '
        'own datagram) and validated against the Lean model with the same retry budget and loss plan.  Lock hand-off sweep '
        '(part of that stream): 7 configurations (2..3 threads, the keep-alive and Close Session among them) x max_retries '
        '1..2 x the reply to the k-th datagram lost (k = 0..number of calls; max_retries 2: also k and k+1) x a FAIR lock '
        '(every other thread queued on the lock before its holder goes on; a free lock goes to the longest waiter, never '
        'back to the thread that has just released it) | a preemption right after every release() x each thread going '
        'first.  Every schedule of every stream is also judged by clause (W) of the Lean monitor '
        '(Spec.Threads.wholeExchanges, on the datagrams each call of the real _send_and_receive transmitted between entry '
        'and return): the exchange of the property is the whole call - request, retransmissions, reply - so the datagrams '
        'of one call must be consecutive datagrams of the log (signature C14:exchanges-interleaved:retransmission).  '
        'Different-targets stream (always on): application threads that address DIFFERENT targets on the one interface - '
        'another IPMB address un-bridged (82h, 72h), a node behind one bridge (82h through the BMC, one Send Message '
        'envelope) or two (72h, two envelopes) - next to each other, to the keep-alive and to Close Session, which address '
        'the BMC; the fake BMC answers a bridged request with acknowledgement(s) and the wrapped reply (2..3 datagrams per '
        'exchange) or with the reply embedded in one; every configuration of a fixed list without preemption, then every '
        'schedule with <= 1..2 (thorough: 2..4) preemptions at lock/socket and shared-access granularity; a quarter of the '
        'random configurations give their workers random targets.  Judged by the Lean monitor in its multi-datagram form '
        '(clause X\': an exchange is tx (rx)+ owned by one thread); un-bridged configurations are also validated against '
        'the Lean model; a violation is re-run with every worker addressing the BMC (same schedule) - clean there = it '
        'takes different targets (signature suffix).  '
        'Distinct by (configuration, choice list); non-trivial = at least '
        'one context switch between two threads that both still have work.')
ASSUMPTIONS = [
    'the theorems quantify over ALL schedules of the Lean model; that the model\'s atomic steps are the '
    'implementation\'s is validated by trace inclusion on the explored schedules, not proved',
    'atomicity granularity: a switch can happen before any source line of rmcp.py/session.py/ipmb.py and before any '
    'access to the shared attributes; CPython can also switch between bytecodes inside a line and inside C calls '
    '(GIL release in sendto/recvfrom/hashlib) - not exhibited; the wrapped attributes make `x += 1` two steps',
    'threading.Lock / Event / Thread are modelled by scheduler-aware objects with the same acquire/release/with, '
    'set/wait and start/join semantics; real timers are not used: Event.wait(interval) of the real call_repeatedly '
    'loop ends, whenever the scheduler runs that thread, with "set" if the event is set by then and otherwise with '
    '"interval elapsed" (a chosen number of times at most) - every placement of the wake-up relative to the other '
    'threads\' steps is a schedule; the race INSIDE CPython\'s Event.wait between a time-out and a concurrent set() '
    'has the same two outcomes',
    'session teardown: exactly one thread calls close_session(), once, after the other application threads have '
    'finished their calls (the application\'s own barrier - a request issued by an application thread during or '
    'after close_session() is the application\'s error, not judged); thread START timing of call_repeatedly is not '
    'explored (the keep-alive thread exists before the first worker request); establish_session itself is C06',
    'socket buffering: the fake socket is a FIFO; in the fault-free streams the reference BMC answers every datagram '
    'immediately and correctly (the model\'s BMC, the monitor\'s clauses X S O C); the late-reply stream delays exactly '
    'one reply by one exchange and is judged on the real code only (the Lean model has no delayed replies: what it '
    'proves for that case is rq_seq_distinct_on_wire / late_reply_cannot_match - the late reply cannot carry the '
    'number of the request it would be mistaken for); duplication and other stale frames belong to C04',
    'clause (W) (a retransmission belongs to the exchange it repeats) is judged on the real code only, from the '
    'datagrams the harness saw each call hand to the socket between entry and return of the real _send_and_receive; the '
    'Lean model does not record datagrams per call: what it proves is mutual_exclusion with the whole retry loop inside '
    'the lock block, whole_exchange_owned_by_its_caller says what (W) means on any log, and that the source never '
    'releases the lock inside the block is read by the translator (Shape.lockOpsElsewhere = 0: no mention of '
    'transaction_lock in class Rmcp but its assignment and the with statement; Shape.retryLoop: the time-out handler is '
    '`retry += 1` and nothing else) - the variant that does (Props.C14.stepR) has release_in_retry_handler_counterexample',
    'lost replies: the model\'s network either answers a datagram at once or never (loss plan = set of datagram '
    'numbers whose reply is lost; the theorems quantify over every plan and every max_retries); a lost REQUEST is '
    'not distinguished from a lost reply (the console cannot tell them apart: same time-out, same retransmission); '
    'a reply that is delayed beyond the time-out and then still delivered is the late-reply stream above (real code '
    'only, max_retries = 0)',
    'which of the model\'s variants the traces are validated against (stopper joins / sequence number allocated inside '
    'the lock block / session wrapper packed by the transmission of every attempt) is probed on the real code and '
    'cross-checked with the translator\'s reading of the AST',
    'one lock for every target: the Lean model has ONE lock cell and un-bridged exchanges (one reply per datagram).  That '
    'the source takes the same lock object whatever target a request addresses is read by the translator (Shape.oneLock: '
    '`with self.transaction_lock:` on the attribute itself, no other with-statement in _send_and_receive, the attribute '
    'assigned once - threading.Lock() in __init__ -, no other lock created in class Rmcp) and is part of source_shape / '
    'source_is_safe_variant; a lock chosen per target (`with self._lock_for(target):`) breaks that tie, its model variant '
    '(Props.C14.stepT) has the counter-example lock_per_target_counterexample, and the failing schedule is found on the '
    'real code by the different-targets stream.  Schedules whose threads address bridged targets are judged on the real '
    'code by the multi-datagram monitor only (Spec.Threads.acceptsMulti; exchangesOk_imp_multi: it accepts whatever the '
    'one-reply monitor accepts) - they are not validated against the model; an un-bridged request to another IPMB address '
    'is the same program as one to the BMC and IS validated against it',
    'the fake BMC answers for every addressed node: an un-bridged request to any rsSA gets one reply; a Send Message with '
    'an embedded request is answered per IPMI v1.5 response tracking - bare acknowledgement, then the node\'s answer in '
    'the same envelope, one more pair per further bridge - or with the answer embedded in the Send Message response '
    '(cfg bridge = ack | embedded); replies of a bridged exchange are lost / withheld together',
    'model covers unbridged targets; max_retries: the theorems hold for every value, the '
    'real code is run with 0, 1 and 2; clause (Q) - consecutive datagrams carry different IPMB request sequence '
    'numbers - is proved and judged for max_retries = 0 only (a retransmission repeats the request sequence number '
    'of the datagram it repeats, as IPMI intends)',
    'the read of Session.sequence_number made while close_session formats the session for its debug-log line is not '
    'part of the logged access sequence (it feeds the log text only); Close Session is answered with a completion '
    'code only, so "the reply the closing thread was handed" is identified by the datagram whose reply that thread '
    'took from the socket last, not by the payload',
]
TRUSTED = ['harness/translate/threads.py', 'harness/sim/sched.py (scheduler, Lock/Event/Thread stand-ins, HandOffPolicy)',
           'harness/props/c14.py (fake socket, reference BMC, access wrappers)']

PASSWORD = b'secret'
SID = 0x02030405


# ------------------------------------------------------------------------- reference BMC

def translate(ctx):
    """lock scope / packing place / sequence updates / keep-alive callable, from the AST of the working tree"""
    ctx.extra['source_shape'] = threads_t.generate()

def _csum(bs):
    return (-sum(bs)) & 0xff


class Bmc(object):
    """IPMI v1.5 LAN responder built from the specification's figures (RMCP header, ASF
    presence pong, session header Table 6-?, IPMB response layout Figure 'IPMI LAN message')."""

    def __init__(self, auth):
        self.auth = auth            # 0 none, 2 md5, 4 straight password
        self.out_seq = 0
        self.notes = []

    def _wrap(self, auth, sid, ipmb):
        self.out_seq = (self.out_seq + 1) & 0xffffffff
        hdr = bytes([auth]) + struct.pack('<I', self.out_seq) + struct.pack('<I', sid)
        if auth == 2:
            pw = PASSWORD.ljust(16, b'\x00')
            hdr += hashlib.md5(pw + struct.pack('<I', sid) + ipmb + struct.pack('<I', self.out_seq) + pw).digest()
        elif auth != 0:
            hdr += PASSWORD.ljust(16, b'\x00')
        return b'\x06\x00\xff\x07' + hdr + bytes([len(ipmb)]) + ipmb

    def handle(self, pdu, serial):
        """-> (reply datagram or None, (session seq, rq_seq, cmd)); the first datagram of `handle_all`"""
        replies, info = self.handle_all(pdu, serial)
        return (replies[0] if replies else None), info

    def _answers(self, msg, serial, mode):
        """IPMB response frame(s) to the IPMB request `msg` (IPMI v1.5 Figure 'IPMB/LAN message formats').  A Send
        Message request with an embedded message (netFn App, command 34h; data = channel byte with the tracking bits,
        then a complete IPMB request) is answered by the bridge: `mode` 'ack' - the Send Message response itself, a bare
        acknowledgement (completion code only), and then, one datagram each, what the addressed node answered, delivered
        in the same envelope (so two bridges give acknowledgement, wrapped acknowledgement, doubly wrapped reply);
        `mode` 'embedded' - one datagram: the Send Message response carries the node's answer as its data."""
        rs_sa, nf_lun, _, rq_sa, seq_lun, cmd = msg[0], msg[1], msg[2], msg[3], msg[4], msg[5]
        data = msg[6:-1]
        netfn, rs_lun = nf_lun >> 2, nf_lun & 3
        rq_seq, rq_lun = seq_lun >> 2, seq_lun & 3

        def rsp(rdata):
            h1 = bytes([rq_sa, ((netfn | 1) << 2) | rq_lun])
            body = bytes([rs_sa, (rq_seq << 2) | rs_lun, cmd]) + rdata
            return h1 + bytes([_csum(h1)]) + body + bytes([_csum(body)])
        if netfn == 6 and cmd == 0x34 and len(data) >= 8:       # Send Message carrying an IPMB request
            inner = self._answers(bytes(data[1:]), serial, mode)
            out = [] if mode == 'embedded' else [rsp(b'\x00')]
            return out + [rsp(b'\x00' + r) for r in inner]
        if netfn == 6 and cmd == 0x38:      # Get Channel Authentication Capabilities
            support = {0: 0x01, 2: 0x04, 4: 0x10}[self.auth]
            rdata = bytes([0, 1, support, 0, 0, 0, 0, 0, 0])
        elif netfn == 6 and cmd == 0x39:    # Get Session Challenge
            rdata = b'\x00' + struct.pack('<I', 0x01020304) + bytes(range(16))
        elif netfn == 6 and cmd == 0x3a:    # Activate Session
            rdata = bytes([0, self.auth]) + struct.pack('<I', SID) + struct.pack('<I', 1) + bytes([4])
        elif netfn == 6 and cmd == 0x3b:    # Set Session Privilege Level
            rdata = bytes([0, data[0] & 0xf if data else 4])
        elif netfn == 6 and cmd == 0x3c:    # Close Session
            rdata = b'\x00'
        else:
            # shaped like a Get Device ID response; the auxiliary revision carries the number of
            # the datagram this reply answers
            rdata = bytes([0, 0x20, 0x81, 0x01, 0x02, 0x51, 0xbf, 0x3a, 0x98, 0x00, 0x34, 0x12]) + \
                struct.pack('<I', serial & 0xffffffff)
        return [rsp(rdata)]

    def handle_all(self, pdu, serial, mode='ack'):
        """-> (reply datagrams in the order they are delivered, (session seq, rq_seq, cmd)): one for a request the BMC
        (or an IPMB node addressed directly) answers itself, more for a bridged one (`_answers`)"""
        if len(pdu) < 4 or pdu[0] != 6:
            self.notes.append('not RMCP: %s' % pdu.hex())
            return [], (0, 0, 0)
        if pdu[3] == 0x06:      # ASF: presence ping -> pong
            tag = pdu[9] if len(pdu) > 9 else 0
            pong = struct.pack('!IBBxB', 4542, 0x40, tag, 16) + struct.pack('!IIBB6x', 4542, 0, 0x81, 0)
            return [b'\x06\x00\xff\x06' + pong], (0, 0, 0)
        if pdu[3] != 0x07:
            self.notes.append('unknown RMCP class %#x' % pdu[3])
            return [], (0, 0, 0)
        auth = pdu[4]
        seq = struct.unpack('<I', pdu[5:9])[0]
        sid = struct.unpack('<I', pdu[9:13])[0]
        off = 13 + (16 if auth != 0 else 0)
        ln = pdu[off]
        msg = pdu[off + 1:off + 1 + ln]
        if len(msg) < 7 or len(pdu) != off + 1 + ln:
            self.notes.append('malformed IPMI datagram %s' % pdu.hex())
            return [], (seq, 0, 0)
        return [self._wrap(auth, sid, ipmb) for ipmb in self._answers(bytes(msg), serial, mode)], \
            (seq, msg[4] >> 2, msg[5])


def _serial_of(data):
    """Serial number carried by a reply payload (completion code + data) or by an IPMB reply."""
    data = bytes(bytearray(data))
    if len(data) >= 16 and data[0] == 0:
        return struct.unpack('<I', data[12:16])[0]
    return None


# ------------------------------------------------------------------------- environment
class Env(object):
    def __init__(self, sched, cfg):
        self.sched = sched
        self.cfg = cfg
        self.bmc = Bmc({'none': 0, 'md5': 2, 'password': 4}[cfg['auth']])
        self.rxq = []
        self.serial = 0
        self.wire = []
        self.results = []
        self.cur_tx = {}
        self.last_rx = {}
        self.quiet = set()          # tids that are formatting the session for the debug log
        self.lose = set(cfg.get('lose') or ())   # datagram numbers whose reply the network loses
        self.lost = []
        self.stash = None           # a withheld reply (late-reply stream): delivered with the next datagram
        self.drained = []           # (tid, serial) of datagrams discarded by a non-blocking read
        self.notes = []
        self.stopped = False

    def var(self, kind, value):
        self.sched.emit(kind, value)

    def pre_access(self):
        if self.sched.gran != 'sync':
            self.sched.yield_point('var')


class FakeSock(object):
    def __init__(self, env):
        self.env = env
        self.timeout = 2.0

    def settimeout(self, t):
        self.timeout = t

    def gettimeout(self):
        return self.timeout

    def close(self):
        pass

    def sendto(self, pdu, addr):
        env, s = self.env, self.env.sched
        on = s.active()
        if on:
            s.yield_point('tx')
        serial = env.serial if on else -1
        if on and env.stash is not None:        # a late reply arrives before the next request is answered
            env.rxq.extend(env.stash)
            env.stash = None
        # (a bridged request is answered by more than one datagram: acknowledgement(s), then the wrapped reply)
        replies, (seq, rq, cmd) = env.bmc.handle_all(bytes(pdu), serial, env.cfg.get('bridge') or 'ack')
        if on and replies and env.cfg.get('late') == serial:
            env.stash, replies = [(r, serial) for r in replies], []
        if on and replies and serial in env.lose:
            env.lost.append(serial)     # lost for good: the sender's recvfrom will time out
            replies = []
        if on:
            env.serial += 1
            tid = s.tid()
            s.emit('tx', serial, seq, rq, cmd)
            env.wire.append('T:%d:%d:%d:%d:%d' % (tid, serial, seq, rq, cmd))
            env.cur_tx.setdefault(tid, []).append(serial)
        env.rxq.extend((r, serial) for r in replies)
        return len(pdu)

    def recvfrom(self, n):
        env, s = self.env, self.env.sched
        on = s.active()
        if self.timeout == 0:
            # non-blocking read (the repaired transport discards stale datagrams before it sends): it sees what
            # is in the socket now and never waits.  Fault-free there is nothing (every reply was read by the
            # exchange it belongs to): no shared access worth a step of the model.  What a fault left behind is
            # thrown away by the caller; it is noted, not part of the wire log of exchanges.
            if not env.rxq:
                raise BlockingIOError(11, 'Resource temporarily unavailable')
            reply, serial = env.rxq.pop(0)
            env.drained.append((s.tid() if on else -1, serial))
            return reply, ('bmc', 623)
        if on:
            s.yield_point('rx')
        if not env.rxq:
            if on:
                s.emit('rxTimeout')
                # what the socket sees: this thread gave up waiting while datagram serial-1 was the latest one
                env.wire.append('X:%d:%d' % (s.tid(), env.serial - 1))
            raise socket.timeout('timed out')
        reply, serial = env.rxq.pop(0)
        if on:
            s.emit('rx', serial)
            env.wire.append('R:%d:%d' % (s.tid(), serial))
            env.last_rx[s.tid()] = serial
        return reply, ('bmc', 623)


class LoggedQueue(queue.Queue):
    """`Rmcp._q` with its accesses logged (the re-queue path of `_send_and_receive`)."""

    def __init__(self, env):
        queue.Queue.__init__(self)
        self.env = env

    def get(self, *a, **kw):
        x = queue.Queue.get(self, False)
        if self.env.sched.active():
            sn = _serial_of(bytes(bytearray(x))[6:-1])
            self.env.sched.emit('qget', sn if sn is not None else -1)
        return x

    def put(self, x, *a, **kw):
        if self.env.sched.active():
            sn = _serial_of(bytes(bytearray(x))[6:-1])
            self.env.sched.emit('qput', sn if sn is not None else -1)
        return queue.Queue.put(self, x, False)


_CLASSES = {}


def _classes():
    """Subclasses of the real Rmcp / Session whose shared attributes log their accesses."""
    from pyipmi.interfaces import rmcp as R
    from pyipmi.session import Session
    key = (R.Rmcp, Session)
    if key in _CLASSES:
        return _CLASSES[key]

    def logged(name, ld, st, show=lambda v: v):
        slot = '_c14_' + name

        def get(self):
            env = self.__dict__.get('_c14')
            if env is not None and env.sched.active() and env.sched.tid() not in env.quiet:
                env.pre_access()
                v = self.__dict__.get(slot, 0)
                env.var(ld, show(v))
                return v
            return self.__dict__.get(slot, 0)

        def set_(self, v):
            env = self.__dict__.get('_c14')
            if env is not None and env.sched.active():
                env.pre_access()
                env.var(st, show(v))
            self.__dict__[slot] = v
        return property(get, set_)

    class TSession(Session):
        sequence_number = logged('ss', 'ldSS', 'stSS')
        activated = logged('act', 'ldAct', 'stAct', show=lambda v: 1 if v else 0)

        def __str__(self):
            # `log().debug('Close Session %s' % self._session)` formats the session eagerly; that read of
            # the sequence number feeds the log text only and is not part of the logged access sequence
            env = self.__dict__.get('_c14')
            if env is None or not env.sched.active():
                return Session.__str__(self)
            tid = env.sched.tid()
            env.quiet.add(tid)
            try:
                return Session.__str__(self)
            finally:
                env.quiet.discard(tid)

    class TRmcp(R.Rmcp):
        next_sequence_number = logged('ns', 'ldNS', 'stNS')

        def _send_and_receive(self, *a, **kw):
            env = self.__dict__.get('_c14')
            if env is None or not env.sched.active():
                return R.Rmcp._send_and_receive(self, *a, **kw)
            s = env.sched
            s.yield_point('call')
            tid = s.tid()
            env.cur_tx[tid] = []
            try:
                r = R.Rmcp._send_and_receive(self, *a, **kw)
            except Exception as e:
                env.results.append((tid, list(env.cur_tx.get(tid, [])), None, type(e).__name__))
                raise
            got = _serial_of(r)
            netfn = kw.get('netfn', a[2] if len(a) > 2 else None)
            cmdid = kw.get('cmdid', a[3] if len(a) > 3 else None)
            if got is None and (netfn, cmdid) == (6, 0x3c) and len(bytes(bytearray(r))) == 1:
                # Close Session answers with a completion code only: nothing in the payload names the
                # datagram it answers; take the datagram whose reply this thread took from the socket last
                got = env.last_rx.get(tid)
            env.results.append((tid, list(env.cur_tx.get(tid, [])), got, None))
            return r

    _CLASSES[key] = (TRmcp, TSession)
    return TRmcp, TSession


def _trace_files():
    import os
    return [os.path.join(repo.REPO, 'pyipmi', 'interfaces', 'rmcp.py'),
            os.path.join(repo.REPO, 'pyipmi', 'session.py'),
            os.path.join(repo.REPO, 'pyipmi', 'interfaces', 'ipmb.py')]


class Out(object):
    pass


# who a worker talks to (cfg['targets'][i]; absent = every worker addresses the BMC like the keep-alive does)
TARGETS_DOC = {
    'h': 'the BMC itself (Rmcp.host_target, 20h) - what the keep-alive and Close Session address',
    'i': 'Target(82h): another IPMB address, NOT bridged (the request goes out as it is, rsSA 82h)',
    'j': 'Target(72h): a second un-bridged address',
    'r': 'Target(82h, routing=[(81h,20h,0),(20h,82h,None)]): behind the BMC, one Send Message envelope',
    'rr': 'Target(72h, routing=[(81h,20h,0),(20h,82h,7),(20h,72h,None)]): behind two bridges, two envelopes',
}
_ADDR = {'h': 0x20, 'i': 0x82, 'j': 0x72, 'r': 0x82, 'rr': 0x72}


def _target(rm, kind):
    from pyipmi import Target
    if kind == 'h':
        return rm.host_target
    if kind == 'i':
        return Target(0x82)
    if kind == 'j':
        return Target(0x72)
    if kind == 'r':
        return Target(0x82, routing=[(0x81, 0x20, 0), (0x20, 0x82, None)])
    if kind == 'rr':
        return Target(0x72, routing=[(0x81, 0x20, 0), (0x20, 0x82, 7), (0x20, 0x72, None)])
    raise ValueError(kind)


def _targets(cfg):
    """target kind per worker"""
    t = cfg.get('targets') or []
    return [t[i] if i < len(t) else 'h' for i in range(len(cfg['workers']))]


def _routed(cfg):
    """some worker addresses a bridged target: exchanges of more than one datagram (clause X' of the monitor)"""
    return any(k in ('r', 'rr') for k in _targets(cfg))


def _different_targets(cfg):
    """do the threads of this configuration address more than one IPMB address?  (the keep-alive and Close Session
    address the BMC)"""
    addrs = set(_ADDR[k] for k, w in zip(_targets(cfg), cfg['workers']) if w[0] > 0)
    if cfg['ka'] or cfg.get('closer') is not None:
        addrs.add(0x20)
    return len(addrs) > 1


def execute(cfg, policy, record=False):
    """Run the real code once under `policy`.  cfg: workers [[calls, cmd]…], ka, auth, ss0, ns0, gran,
    closer (index of the worker that ends with close_session(), or None)."""
    from pyipmi.interfaces import rmcp as R
    sched = S.Scheduler(policy, cfg['gran'], trace_files=_trace_files())
    if record:
        sched.record = []
    shim = S.ThreadingShim(sched, timer_budget=cfg['ka'])
    env = Env(sched, cfg)
    TRmcp, TSession = _classes()
    out = Out()
    old = R.threading
    R.threading = shim
    try:
        rm = TRmcp(keep_alive_interval=(1 if cfg['ka'] else 0), max_retries=cfg.get('mr', 0))
        if not isinstance(getattr(rm, 'transaction_lock', None), S.SchedLock):
            rm.transaction_lock = S.SchedLock(sched)
        rm._sock = FakeSock(env)
        rm._q = LoggedQueue(env)
        rm.__dict__['_c14'] = env
        sess = TSession()
        sess.__dict__['_c14'] = env
        sess.set_session_type_rmcp('bmc', 623)
        sess.set_auth_type_user('admin', PASSWORD.decode())

        nworkers = len(cfg['workers'])

        kinds = _targets(cfg)

        def worker(me, calls, cmd):
            def body():
                tgt = _target(rm, kinds[me])
                for _ in range(calls):
                    try:
                        rm.send_and_receive_raw(tgt, 0, 6, bytes([cmd]))
                    except Exception:   # recorded by the wrapper; the thread goes on like a caller would
                        pass
                if cfg.get('closer') == me:
                    # the application's barrier: nobody else uses the interface any more
                    sched.yield_point('await', None, enabled=lambda: all(
                        sched.threads[i].done for i in range(nworkers) if i != me))
                    sched.emit('await')
                    try:
                        rm.close_session()
                    except S.SchedAbort:
                        raise
                    except Exception as e:  # noqa
                        env.notes.append('close_session raised %s' % type(e).__name__)
            return body
        for i, (calls, cmd) in enumerate(cfg['workers']):
            sched.spawn(worker(i, calls, cmd))
        rm.establish_session(sess)          # real handshake; starts the real keep-alive loop
        env.rxq[:] = []
        sess.sequence_number = cfg['ss0']
        rm.next_sequence_number = cfg['ns0']

        def on_idle():
            # nothing can move: what is left is the keep-alive loop asleep in stopped.wait() with no further
            # interval to elapse (a daemon thread).  Wake it up so that the OS thread ends; this is the
            # harness' clean-up, not part of the run (nothing is logged any more).
            # (Only then: an application thread that cannot move is a deadlock, e.g. a join that waits for a
            # loop nobody has stopped.)
            if shim.events and not env.stopped and all(sched.threads[i].done for i in range(nworkers)):
                env.stopped = True
                sched.mute = True
                for e in shim.events:
                    e.flag = True
                return True
            return False
        sched.on_idle = on_idle
        out.status = sched.run()
    finally:
        R.threading = old
    out.nthreads = len(sched.threads)
    out.choices = sched.choices
    out.record = sched.record
    out.steps = sched.steps
    out.trace = ['%s:%s' % (tid, ':'.join(str(x) for x in ev)) for tid, ev in sched.log]
    out.wire = env.wire
    out.drained = env.drained
    out.lost = env.lost
    out.results = env.results
    out.notes = env.notes + env.bmc.notes
    out.exc = [(t.tid, type(t.exc).__name__) for t in sched.threads if t.exc is not None]
    out.final_ss = sess.__dict__.get('_c14_ss')
    out.final_act = bool(sess.__dict__.get('_c14_act'))
    out.harness_stopped = env.stopped
    return out


# ------------------------------------------------------------------------- judging
def _res_tokens(results):
    toks = []
    for tid, sent, got, err in results:
        if sent and got is not None and err is None:
            # the datagram of this call that the reply answers (normally the one transmitted last), else the last
            toks.append('%d:%d:%d' % (tid, got if got in sent else sent[-1], got))
        else:
            toks.append('%d:%d:-' % (tid, sent[-1] if sent else 0))
    return toks


def _model_threads(cfg):
    return ['%d:%d' % (c, cmd) for c, cmd in cfg['workers']]


def _closer(cfg):
    return cfg.get('closer')


def _expected_calls(cfg):
    """(min, max) number of calls of a complete run: the workers' requests, Close Session if a thread
    closes, and the keep-alive's: all `ka` of them when nobody stops it, any number up to `ka` otherwise."""
    base = sum(c for c, _ in cfg['workers']) + (1 if _closer(cfg) is not None else 0)
    return (base if _closer(cfg) is not None and cfg['ka'] else base + cfg['ka'], base + cfg['ka'])


def _ka_failed(cfg, out):
    """the keep-alive's request failed (replies lost beyond the retry budget): call_repeatedly does not catch
    RetryError, the loop - and with it the remaining ticks - ends"""
    ka = len(cfg['workers'])
    return bool(cfg['ka']) and any(r[0] == ka and r[3] for r in out.results)


def _close_failed(cfg, out):
    cl = _closer(cfg)
    mine = [r for r in out.results if r[0] == cl]
    return bool(mine) and bool(mine[-1][3])


_VARIANT = {}


def variant_joins():
    """Does the stopper returned by the real `call_repeatedly` join the keep-alive thread?  Probed by
    running the real close_session() under the scheduler, without preemption."""
    key = repo.REPO
    if key not in _VARIANT:
        out = execute(_cfg([(0, 1)], 1, 'none', 5, 0, 'sync', closer=0), S.ReplayPolicy([]))
        _VARIANT[key] = any(tok.endswith(':join') for tok in out.trace)
    return _VARIANT[key]


_VARIANT_SEQ = {}


def variant_seq_locked():
    """Is `next_sequence_number` advanced and read inside the lock block?  Probed on one call of the real
    `_send_and_receive` without preemption: does the lock acquisition precede the first access to the counter?"""
    key = repo.REPO
    if key not in _VARIANT_SEQ:
        out = execute(_cfg([(1, 1)], 0, 'none', 5, 0, 'sync'), S.ReplayPolicy([]))
        evs = [tok.split(':')[1] for tok in out.trace]
        _VARIANT_SEQ[key] = ('acq' in evs and 'ldNS' in evs and evs.index('acq') < evs.index('ldNS'))
    return _VARIANT_SEQ[key]


_VARIANT_PACK = {}


def variant_pack_per_attempt():
    """Does a retransmission build the session wrapper again?  Probed on one call of the real `_send_and_receive`
    with max_retries = 1 whose first reply is lost, no preemption: is the session sequence number stored again
    between the two transmissions?"""
    key = repo.REPO
    if key not in _VARIANT_PACK:
        out = execute(_cfg([(1, 1)], 0, 'none', 5, 0, 'sync', mr=1, lose=[0]), S.ReplayPolicy([]))
        evs = [tok.split(':')[1] for tok in out.trace]
        tx = [i for i, e in enumerate(evs) if e == 'tx']
        _VARIANT_PACK[key] = len(tx) < 2 or 'stSS' in evs[tx[0]:tx[1]]
    return _VARIANT_PACK[key]


def _seq_break(wire):
    """first pair of consecutive transmissions whose session sequence numbers do not increase ->
    (previous T fields, this T fields, a time-out lies between them)"""
    prev, gap = None, False
    for w in wire:
        p = w.split(':')
        if p[0] == 'X':
            gap = True
        if p[0] != 'T':
            continue
        if prev is not None:
            a, b = int(prev[3]), int(p[3])
            if not (a < b or (a == 0xffffffff and b == 1)):
                return prev, p, gap
        prev, gap = p, False
    return None


def _switches(out):
    n, last = 0, None
    for tok in out.trace:
        t = tok.split(':', 1)[0]
        if last is not None and t != last:
            n += 1
        last = t
    return n


def _case_of(cfg, choices):
    c = dict(cfg)
    c['choices'] = S.rle(choices)
    return c


def judge(ctx, cfg, out, drv, model=True, choices=None):
    """Property oracle on the real run (+ trace inclusion in the model).  Returns the list of
    violation signatures found."""
    sigs = []
    case = _case_of(cfg, out.choices if choices is None else choices)
    rtoks = _res_tokens(out.results)
    if out.status in ('deadlock', 'step-budget'):
        sigs.append('C14:%s' % out.status)
        ctx.violate(sigs[-1], 'the threads sharing the interface stop making progress (%s): some caller never '
                    'receives its reply' % out.status, case, expected='every call completes',
                    observed={'status': out.status, 'wire': out.wire, 'results': rtoks})
        return sigs
    if out.status != 'complete':
        ctx.disagree('scheduler', case, 'complete', '%s (threads blocked outside the scheduler: %s)' % (
            out.status, getattr(out, 'leaked', '?')))
        return sigs
    routed = _routed(cfg)
    # bridged targets: an exchange is tx (rx)+ owned by one thread (Spec.Threads.acceptsMulti, clause X')
    verdict = drv.ask('%s %s | %s' % ('monm' if routed else 'mon', ' '.join(out.wire), ' '.join(rtoks)))
    if verdict != 'ok':
        flags = dict(x.split('=') for x in verdict.split()[1:]) if verdict.startswith('bad ') else {}
        if flags.get('X') == '0':
            sig, what = 'C14:exchanges-interleaved', 'request/reply exchanges of different threads are interleaved on the socket'
            if out.drained:
                what += ' (%s)' % ', '.join('thread %d discarded the reply to datagram %d before sending its own request' % d
                                            for d in out.drained[:3])
        elif flags.get('C') == '0':
            after = _after_close(out.wire)
            sig, what = 'C14:datagram-after-close', (
                'a datagram is transmitted after Close Session (%s)%s' % (
                    ', '.join('thread %s%s cmd %#x session seq %s' % (
                        t, ' = the keep-alive thread' if cfg['ka'] and int(t) == len(cfg['workers']) else '', int(c), q)
                        for t, q, c in after),
                    '; the session sequence numbers are not strictly increasing' if flags.get('S') == '0' else ''))
        elif flags.get('S') == '0':
            sig, what = 'C14:session-sequence-not-increasing', 'session sequence numbers do not strictly increase in transmission order'
            br = _seq_break(out.wire)
            if br is not None and br[2] and br[0][1] == br[1][1]:
                sig += ':retransmission'
                what = ('a retransmission (Rmcp(max_retries=%d), the reply to datagram %s was lost) does not take a new '
                        'session sequence number: thread %s sent datagram %s with session sequence %s and, after the '
                        'time-out, datagram %s with session sequence %s' % (
                            cfg.get('mr', 0), br[0][2], br[0][1], br[0][2], br[0][3], br[1][2], br[1][3]))
        elif flags.get('O') == '0':
            sig, what = 'C14:caller-did-not-get-own-reply', 'a caller did not receive the reply to its own request'
        else:
            sig, what = 'C14:monitor-input', 'wire log not understood by the monitor: ' + verdict
        if cfg.get('targets') and _different_targets(cfg) and not sig.startswith('C14:monitor'):
            # does it take threads that address DIFFERENT targets?  Control: the same configuration and schedule with
            # every worker addressing the BMC
            ctl = dict(cfg)
            ctl.pop('targets')
            q = _Quiet()
            cout = execute(ctl, S.ReplayPolicy(out.choices if choices is None else choices))
            if cout.status == 'complete' and not judge(q, ctl, cout, drv, model=False):
                sig += ':threads-addressing-different-targets'
                what += ('; the threads address different targets (%s; the keep-alive and Close Session address the BMC) - '
                         'with every worker addressing the BMC the same schedule is clean: exchanges with different '
                         'responders are not serialised against each other' % ', '.join(
                             'thread %d: %s' % (i, TARGETS_DOC[k].split(':')[0].split(' (')[0])
                             for i, k in enumerate(_targets(cfg))))
        sigs.append(sig)
        ctx.violate(sig, what, case, expected='Spec.Threads.accepts (X: tx/rx pairs of one thread, S: increasing over the '
                    'whole wire log, retransmissions included, O: own reply or an error after a time-out, C: nothing '
                    'after Close Session)',
                    observed={'monitor': verdict, 'wire': out.wire, 'results': rtoks, 'lost_replies': out.lost,
                              'errors': [r[3] for r in out.results if r[3]], 'thread_exceptions': out.exc})
    elif _whole_verdict(drv, out) != '1':
        # clause (W): the exchange of the property is the whole call - the request, its retransmissions and the reply
        # that ends it.  (X) holds datagram by datagram, yet another thread's exchange lies between a request and its
        # retransmission
        sig = 'C14:exchanges-interleaved:retransmission'
        sigs.append(sig)
        ctx.violate(sig, 'request/reply exchanges of different threads are interleaved on the socket: %s' % '; '.join(
            _whole_breaks(cfg, out)), case,
            expected='Spec.Threads.wholeExchanges (W: the datagrams of one call - request and retransmissions - are '
                     'consecutive datagrams of the wire log, all sent by the calling thread)',
            observed={'monitor': 'X S O C hold datagram by datagram; W=%s' % _whole_verdict(drv, out), 'wire': out.wire,
                      'calls': _call_tokens(out.results), 'results': rtoks, 'lost_replies': out.lost,
                      'max_retries': cfg.get('mr', 0)})
    elif not ((_expected_calls(cfg)[0] if not _ka_failed(cfg, out) else
               _expected_calls(cfg)[1] - cfg['ka'] + 1) <= len(out.results) <= _expected_calls(cfg)[1]):
        sigs.append('C14:call-count')
        ctx.violate('C14:call-count', 'a thread did not make the calls it was asked to make', case,
                    expected='%d..%d calls' % _expected_calls(cfg), observed={'results': rtoks, 'thread_exceptions': out.exc})
    elif _closer(cfg) is not None and out.final_act and not _close_failed(cfg, out):
        sigs.append('C14:session-left-active')
        ctx.violate('C14:session-left-active', 'close_session() returned and the session is still marked activated', case,
                    expected='Session.activated == False', observed={'results': rtoks, 'notes': out.notes})
    if model and not routed:
        # (the Lean model has un-bridged exchanges - one reply per datagram; whom an un-bridged request addresses makes
        # no difference to it: ONE lock.  Schedules with bridged targets are judged by the monitor only.)
        xl = 1 if cfg['auth'] == 'md5' else 0
        cl = _closer(cfg)
        ans = drv.ask('run %d %d %d %s %s %s %d %d %d %s %d | %s' % (
            xl, cfg['ns0'], cfg['ss0'], ','.join(_model_threads(cfg)) or '-', cfg['ka'] if cfg['ka'] else '-',
            cl if cl is not None else '-', 1 if variant_joins() else 0, 1 if variant_seq_locked() else 0,
            cfg.get('mr', 0), ','.join(str(k) for k in sorted(set(cfg.get('lose') or ()))) or '-',
            0 if variant_pack_per_attempt() else 1, ' '.join(out.trace)))
        ok = False
        if ans.startswith('ok wire'):
            body = ans[len('ok wire'):].split()
            i = body.index('res')
            j = body.index('mon')
            mwire, mres = body[:i], body[i + 1:j]
            # same wire log, same results, same verdict of the monitor, every thread finished (or the
            # keep-alive loop asleep), same value of Session.activated
            ok = (mwire == out.wire and sorted(mres) == sorted(rtoks) and (body[j + 1] == '1') == (verdict == 'ok')
                  and body[j + 3] == '1' and (body[j + 5] == '1') == out.final_act)
        if not ok:
            d = {'what': 'trace', 'case': case, 'model': ans[:300],
                 'code': 'trace=%s wire=%s res=%s' % (' '.join(out.trace)[:600], ' '.join(out.wire), ' '.join(rtoks))}
            if sigs:
                d['explained_by'] = sigs[0]
            ctx.disagreements.append(d)
    return sigs


def _call_tokens(results):
    """tid:serial,serial,… per finished call that transmitted something: EVERY datagram of the call, in order (what
    the wrapper around the real `_send_and_receive` saw the calling thread hand to the socket between entry and return)"""
    return ['%d:%s' % (tid, ','.join(str(x) for x in sent)) for tid, sent, _, _ in results if sent]


def _whole_verdict(drv, out):
    """clause (W) of the Lean monitor on the real wire log and the real calls -> '1' | '0'"""
    calls = _call_tokens(out.results)
    if not any(',' in c for c in calls):
        return '1'      # no call transmitted twice: (W) says nothing beyond (X) and (O)
    return drv.ask('whole %s | %s' % (' '.join(out.wire), ' '.join(calls)))


def _whole_breaks(cfg, out):
    """words for a broken clause (W): what lies between a request and its retransmission"""
    msgs = []
    ka = len(cfg['workers'])
    name = lambda t: 'thread %d%s' % (t, ' (the keep-alive)' if cfg['ka'] and t == ka else '')  # noqa
    for tid, sent, _, _ in out.results:
        for a, b in zip(sent, sent[1:]):
            if b != a + 1:
                between = [w for w in out.wire if w[0] == 'T' and a < int(w.split(':')[2]) < b]
                who = sorted(set(int(w.split(':')[1]) for w in between))
                msgs.append('%s sent datagram %d, timed out (Rmcp(max_retries=%d)) and retransmitted it as datagram %d; '
                            'in between %s ran %d complete exchange(s) on the socket (datagram(s) %s)' % (
                                name(tid), a, cfg.get('mr', 0), b, ', '.join(name(t) for t in who), len(between),
                                ', '.join(w.split(':')[2] for w in between)))
    return msgs or ['the datagrams of one call are not consecutive datagrams of its thread']


def _after_close(wire):
    """(tid, session seq, cmd) of the datagrams transmitted after the first Close Session"""
    out, closed = [], False
    for w in wire:
        p = w.split(':')
        if p[0] != 'T':
            continue
        if closed:
            out.append((p[1], p[3], p[5]))
        if p[5] == '60':
            closed = True
    return out


# ------------------------------------------------------------------------- exploration
def _cfg(workers, ka, auth='none', ss0=0x10, ns0=4, gran='sync', closer=None, mr=0, lose=None, targets=None,
         bridge=None):
    c = {'workers': [list(w) for w in workers], 'ka': ka, 'auth': auth, 'ss0': ss0, 'ns0': ns0, 'gran': gran}
    if targets and any(k != 'h' for k in targets):
        c['targets'] = list(targets)    # who each worker talks to (TARGETS_DOC); absent: the BMC
    if bridge:
        c['bridge'] = bridge            # how the fake BMC answers a bridged request: 'ack' (default) | 'embedded'
    if closer is not None:
        c['closer'] = closer
    if mr:
        c['mr'] = mr                    # Rmcp(max_retries=…)
    if lose:
        c['lose'] = sorted(set(lose))   # loss plan: the reply to the k-th datagram of the run is lost
    return c


def _stop_timing(cfg, out):
    """Where was the keep-alive thread when the closing thread set the event?"""
    if _closer(cfg) is None or not cfg['ka']:
        return None
    ka = str(len(cfg['workers']))
    state = 'asleep'
    for tok in out.trace:
        p = tok.split(':')
        if p[1] == 'stopSet':
            return state
        if p[0] != ka:
            continue
        if p[1] == 'tick':
            state = 'between-wake-up-and-lock'
        elif p[1] == 'acq':
            state = 'inside-lock'
        elif p[1] == 'rel':
            state = 'asleep'
        elif p[1] == 'kaExit':
            state = 'ended'
    return None


def _measure(ctx, cfg, out):
    ctx.count('gran:' + cfg['gran'])
    ctx.count('threads:%d' % out.nthreads)
    ctx.count('calls:%d' % len(out.results))
    ctx.count('auth:' + cfg['auth'])
    if cfg['ka']:
        ctx.count('with-keep-alive')
    if cfg.get('targets'):
        for k in set(_targets(cfg)):
            ctx.count('target:%s' % {'h': 'BMC', 'i': 'other-address-unbridged', 'j': 'other-address-unbridged',
                                     'r': 'bridged-1-envelope', 'rr': 'bridged-2-envelopes'}[k])
        if _different_targets(cfg):
            ctx.count('threads-addressing-different-targets')
        if _routed(cfg):
            ctx.count('bridge-answers:%s' % (cfg.get('bridge') or 'ack'))
            nrx = {}
            for w in out.wire:
                p = w.split(':')
                if p[0] == 'R':
                    nrx[p[2]] = nrx.get(p[2], 0) + 1
            if nrx:
                ctx.count('datagrams-per-bridged-exchange:%d' % (1 + max(nrx.values())))
    if cfg.get('mr'):
        ctx.count('max_retries:%d' % cfg['mr'])
        ka, cl = len(cfg['workers']), _closer(cfg)
        txs = [w.split(':') for w in out.wire if w.startswith('T:')]
        for k in out.lost:
            who = [p for p in txs if int(p[2]) == k]
            if who:
                ctx.count('reply-lost:%s' % ('Close-Session' if who[0][5] == '60' else
                                             'keep-alive' if cfg['ka'] and int(who[0][1]) == ka else 'application-thread'))
        nre = sum(max(0, len(r[1]) - 1) for r in out.results)
        if nre:
            ctx.count('retransmissions:%s' % ('1' if nre == 1 else '2' if nre == 2 else '>=3'))
        if any(r[3] for r in out.results):
            ctx.count('call-failed-after-retry-budget')
    if _closer(cfg) is not None:
        ctx.count('with-close_session')
        st = _stop_timing(cfg, out)
        if st:
            ctx.count('stop-set-while-keep-alive:' + st)
            if st == 'between-wake-up-and-lock' or st == 'inside-lock':
                ka = str(len(cfg['workers']))
                kacalls = [w for w in out.wire if w.startswith('T:%s:' % ka)]
                closes = [i for i, w in enumerate(out.wire) if w.startswith('T:') and w.endswith(':60')]
                if closes and kacalls and out.wire.index(kacalls[-1]) < closes[0]:
                    ctx.count('keep-alive-call-in-flight-at-stop-completed-before-Close-Session')
    sw = _switches(out)
    ctx.count('switches:%s' % ('0' if sw == 0 else '1-2' if sw <= 2 else '3-8' if sw <= 8 else '9-30' if sw <= 30 else '>30'))
    seen = {}
    dup = False
    wrap6 = wrap32 = False
    for w in out.wire:
        p = w.split(':')
        if p[0] == 'T':
            k = (p[4], p[5])
            if k in seen and seen[k] != p[1]:
                dup = True
            seen[k] = p[1]
            if p[3] == '1' and cfg['ss0'] >= 0xfffffff0:
                wrap32 = True
            if p[4] == '0':
                wrap6 = True
    if dup:
        ctx.count('racy-same-rq_seq-on-wire')
    if wrap32:
        ctx.count('session-seq-wrap')
    if wrap6:
        ctx.count('rq_seq-wrap')
    return sw


class Stop(Exception):
    pass


def _one(ctx, drv, cfg, policy, st, record=False):
    out = execute(cfg, policy, record=record)
    sw = _measure(ctx, cfg, out)
    ctx.case((repr(sorted(cfg.items())), tuple(out.choices)), nontrivial=sw > 0)
    before = len(ctx.violations)
    sigs = judge(ctx, cfg, out, drv)
    if sigs:
        st['violations'] += 1
        # shrink the schedule of the violation just recorded
        v = ctx.violations[before] if len(ctx.violations) > before else None
        if v is not None and sigs[0] not in st['shrunk']:
            st['shrunk'].add(sigs[0])
            small = _shrink(cfg, out.choices, sigs[0], drv)
            if small is not None and len(small[0]) < len(out.choices):
                v.update(small[1])
                v['case']['shrunk_from'] = len(out.choices)
        if st['violations'] >= 6:
            raise Stop()
    if len(ctx.samples) < 6 and (sw > 2 or not ctx.samples):
        ctx.sample({'cfg': cfg, 'choices': S.rle(out.choices)[:40], 'wire': out.wire, 'results': _res_tokens(out.results),
                    'trace_len': len(out.trace), 'steps': out.steps})
    return out


class _Quiet(object):
    """Minimal ctx stand-in for re-judging during shrinking / replay."""

    def __init__(self):
        self.violations, self.disagreements = [], []

    def violate(self, signature, what, case, expected=None, observed=None):
        self.violations.append({'signature': signature, 'what': what, 'case': case,
                                'expected': expected, 'observed': observed})

    def disagree(self, what, case, model, code):
        self.disagreements.append({'what': what, 'case': case, 'model': model, 'code': code})


def _shrink(cfg, choices, sig, drv):
    """Shortest prefix of the choice list (then no preemption) that still shows `sig`.
    Returns (choices, violation record of that shorter schedule) or None."""
    last = {}

    def bad(n):
        out = execute(cfg, S.ReplayPolicy(choices[:n]))
        q = _Quiet()
        if sig in judge(q, cfg, out, drv, model=False, choices=choices[:n]):
            last[n] = q.violations[0]
            return True
        return False
    try:
        if not bad(len(choices)):
            return None
        lo, hi = 0, len(choices)
        while lo < hi:
            mid = (lo + hi) // 2
            if bad(mid):
                hi = mid
            else:
                lo = mid + 1
        if hi in last or bad(hi):
            return choices[:hi], last[hi]
        return None
    except Exception:  # noqa
        return None


def _systematic(ctx, drv, cfg, bound, st, limit, should_stop):
    def ex(prefix):
        out = _one(ctx, drv, cfg, S.ReplayPolicy(prefix), st, record=True)
        return out.record if out.status == 'complete' else None
    n, trunc = S.explore(ex, bound, limit=limit, should_stop=should_stop)
    key = 'systematic %s %s%s ka=%d%s%s bound=%d' % (cfg['gran'], 'x'.join(str(c) for c, _ in cfg['workers']),
                                                   '' if not cfg.get('targets') else ' targets=%s/%s' % (
                                                       ','.join(_targets(cfg)), cfg.get('bridge') or 'ack'), cfg['ka'],
                                                   '' if _closer(cfg) is None else ' closer=%d' % _closer(cfg),
                                                   '' if not cfg.get('mr') else ' max_retries=%d lose=%s' % (
                                                       cfg['mr'], cfg.get('lose')), bound)
    ctx.extra.setdefault('systematic', {})[key] = {'schedules': n, 'exhausted': not trunc}
    return n


def _random_cfg(rng, gran):
    nw = rng.choice([1, 2, 2, 2, 3])
    ka = rng.choice([0, 1, 1, 2]) if nw >= 2 else rng.choice([1, 2])
    if nw == 3 and rng.random() < 0.6:
        ka = 0
    workers = []
    same = rng.random() < 0.6
    for _ in range(nw):
        workers.append([rng.choice([1, 1, 2, 3]), 1 if same else rng.choice([1, 1, 4, 8])])
    auth = rng.choice(['none', 'password', 'md5'])
    r = rng.random()
    ss0 = rng.choice([0xfffffffd, 0xfffffffe, 0xffffffff]) if r < 0.12 else \
        rng.choice([0, 1, 0xff, 0xffff]) if r < 0.25 else rng.randrange(0xfffffff0)
    ns0 = rng.choice([61, 62, 63]) if rng.random() < 0.25 else rng.randrange(64)
    closer = None
    if rng.random() < 0.35:
        closer = rng.randrange(nw)
        if rng.random() < 0.4:
            workers[closer][0] = 0          # a thread that only closes the session
        if ka == 0 and rng.random() < 0.8:
            ka = rng.choice([1, 2])
    mr, lose = 0, None
    if rng.random() < 0.25:
        # Rmcp(max_retries=1|2) behind a lossy network: 1..3 of the first datagrams lose their reply
        mr = rng.choice([1, 1, 2])
        total = sum(c for c, _ in workers) + ka + (1 if closer is not None else 0)
        lose = rng.sample(range(total + 3), rng.choice([1, 1, 2, 3]))
    targets = bridge = None
    if rng.random() < 0.25:
        # the workers address different targets: the BMC, other IPMB addresses un-bridged, behind one / two bridges
        targets = [rng.choice(['h', 'i', 'j', 'r', 'r', 'rr']) for _ in range(nw)]
        bridge = rng.choice(['ack', 'ack', 'embedded'])
    return _cfg(workers, ka, auth, ss0, ns0, gran, closer, mr, lose, targets, bridge)


# (granularity, workers, keep-alive firings, preemption bound quick, thorough, closing worker); None = not
# in that tier.  Ordered by cost so that a loaded machine cuts the most expensive ones first.
SYSTEMATIC = [
    ('sync', [(0, 1)], 1, 3, 4, 0),              # close_session() against one keep-alive tick
    ('sync', [(1, 1), (1, 1)], 0, 2, 4, None),
    ('sync', [(1, 4)], 2, 2, 3, 0),              # one request, then close_session(); two ticks
    ('access', [(0, 1)], 1, 2, 3, 0),
    ('access', [(2, 1), (1, 1)], 0, 1, 2, None),
    ('sync', [(1, 1), (0, 1)], 1, 2, 3, 1),      # the closing thread waits for a worker
    ('sync', [(2, 1), (2, 1)], 0, 2, 3, None),
    ('sync', [(3, 1), (2, 1)], 0, 2, 3, None),
    ('sync', [(2, 1), (1, 4)], 1, 1, 2, None),
    ('access', [(1, 1), (1, 1)], 0, 2, 3, None),
    ('sync', [(2, 1), (2, 1)], 1, 1, 2, None),
    ('access', [(1, 1), (1, 1)], 1, 1, 2, None),
    ('sync', [(1, 1), (1, 4)], 2, 1, 2, 0),
    ('sync', [(1, 1), (1, 1), (1, 1)], 0, 2, 3, None),
    ('sync', [(1, 1), (1, 1)], 1, 2, 3, None),
    ('access', [(1, 1), (1, 4)], 1, 1, 2, 1),
    ('sync', [(2, 1), (2, 1), (2, 1)], 0, None, 2, None),
    ('access', [(2, 1), (2, 1)], 1, None, 1, None),
    ('sync', [(2, 1), (2, 4), (1, 1)], 1, None, 1, 2),
    ('sync', [(3, 1), (3, 1)], 2, None, 2, None),
    ('sync', [(0, 1)], 0, None, 2, 0),           # close_session() without a keep-alive thread
]


def _explore_all(ctx, drv, effort):
    """effort: quick | thorough | search"""
    import time
    st = {'violations': 0, 'shrunk': set()}
    rng = ctx.rng('c14' if effort != 'search' else 'c14-search')
    quick = ctx.tier == 'quick'
    # exploration window: ends ~45 s (quick) / ~11 min (thorough) after the check started, and in
    # any case well before the runner's own budget
    t0 = time.time()
    window = max(5.0, min((45 if quick else 660) - (ctx.budget - ctx.time_left()), ctx.time_left() - 30))
    if effort == 'search':
        window = max(5.0, min(40 if quick else 200, ctx.time_left() - 15))
    t_sys = t0 + 0.65 * window
    t_end = t0 + window
    col = 2 if quick else 3
    if effort == 'search':
        col = 3
    auths = ['none', 'md5', 'password']
    try:
        # ---- A: systematic, lock/socket and shared-access granularity
        for i, row in enumerate(SYSTEMATIC):
            bound = row[col + 1]
            if bound is None:
                continue
            cfg = _cfg(row[1], row[2], auths[i % 3], ss0=0xfffffffe if i % 4 == 3 else 0x20 + i,
                       ns0=63 if i % 3 == 2 else 4, gran=row[0], closer=row[5])
            _systematic(ctx, drv, cfg, bound, st, 60000, lambda: time.time() > t_sys)
        # ---- C: random, source-line granularity;  D: random, shared-access granularity
        n_line = n_acc = 0
        cap = 700 if quick else 60000
        while time.time() < t_end and n_line + n_acc < cap:
            gran = 'line' if (n_line + n_acc) % 3 != 2 else 'access'
            cfg = _random_cfg(rng, gran)
            p = rng.choice([0.02, 0.05, 0.1, 0.3, 0.6]) if gran == 'line' else rng.choice([0.1, 0.3, 0.6, 0.9])
            _one(ctx, drv, cfg, S.RandomPolicy(rng, p), st)
            if gran == 'line':
                n_line += 1
            else:
                n_acc += 1
        r = ctx.extra.setdefault('random_schedules', {'line': 0, 'access': 0})
        r['line'] += n_line
        r['access'] += n_acc
    except Stop:
        ctx.notes.append('exploration stopped after %d violating schedules' % st['violations'])
    ctx.extra['exploration_wall_s'] = round(ctx.extra.get('exploration_wall_s', 0) + time.time() - t0, 1)


def _keepalive_probe(ctx):
    """The tie of the keep-alive: the real establish_session must start call_repeatedly with the
    interface's own Get Device ID request as its function."""
    out = execute(_cfg([(1, 1)], 1, 'none', 5, 0, 'sync'), S.ReplayPolicy([]))
    ka = [r for r in out.results if r[0] == 1]
    ctx.extra['keepalive_thread_calls_seen'] = len(ka)
    if out.nthreads != 2 or len(ka) != 1:
        ctx.disagree('keep-alive', {'cfg': 'one worker, keep-alive firing once'},
                     'a second thread issuing one Get Device ID', 'threads=%d calls by it=%d' % (out.nthreads, len(ka)))


def _variant_probe(ctx):
    """The variants of the model are what the real stopper does and where the real call allocates its sequence
    number; the translator read the same from the AST."""
    joins = variant_joins()
    ctx.extra['stopper_joins_keepalive_thread'] = joins
    locked = variant_seq_locked()
    ctx.extra['sequence_number_allocated_inside_lock'] = locked
    shape = ctx.extra.get('source_shape') or {}
    if 'seqInLock' in shape and bool(shape['seqInLock']) != locked:
        ctx.disagree('variant', {'probe': 'one call of _send_and_receive, no preemption'},
                     'translator: seqInLock=%s (%s mentions of the counter outside the lock block)' % (
                         shape['seqInLock'], shape.get('seqOutsideLock')),
                     'the real call %s the lock before it touches next_sequence_number' % (
                         'takes' if locked else 'does NOT take'))
    per = variant_pack_per_attempt()
    ctx.extra['session_wrapper_packed_per_attempt'] = per
    if 'packPerAttempt' in shape and bool(shape['packPerAttempt']) != per:
        ctx.disagree('variant', {'probe': 'one call with max_retries = 1 whose first reply is lost, no preemption'},
                     'translator: packPerAttempt=%s (%s)' % (shape['packPerAttempt'], shape.get('packText')),
                     'the real retransmission %s the session sequence number again' % (
                         'stores' if per else 'does NOT store'))
    if 'stopperJoins' in shape and bool(shape['stopperJoins']) != joins:
        ctx.disagree('variant', {'probe': 'close_session() with the keep-alive asleep, no preemption'},
                     'translator: stopperJoins=%s (%s)' % (shape['stopperJoins'], shape.get('stopperText')),
                     'real stopper %s the keep-alive thread' % ('joins' if joins else 'does not join'))


LATE_CFGS = [
    # (workers, keep-alive ticks, datagram whose reply is withheld until the next datagram is sent)
    ([(1, 1), (1, 1)], 0, 0),          # two callers, the same command
    ([(1, 1)], 1, 0),                  # a caller and the interface's own keep-alive (Get Device ID both)
    ([(2, 1), (1, 1)], 0, 1),
    ([(1, 4), (1, 4), (1, 4)], 0, 0),
]


def _dup_rq(out):
    """pairs of consecutive transmissions that carry the same IPMB request sequence number"""
    prev, bad = None, []
    for w in out.wire:
        p = w.split(':')
        if p[0] != 'T':
            continue
        if prev is not None and prev[4] == p[4]:
            bad.append((prev[1], prev[2], p[1], p[2], p[4]))
        prev = p
    return bad


def _late_reply_stream(ctx, drv, budget_s):
    """ONE late reply together with every schedule (<= 2 preemptions, thorough 3, at shared-access granularity:
    every load / store of next_sequence_number is a scheduling point): the reply to one datagram is withheld until
    the next datagram is sent - its sender times out, the late reply then sits in front of the next caller's own.
    Under that fault a call may fail, but no caller may be handed the reply to a datagram it did not send.  (The
    schedule "A increments, B increments, B reads, A reads" is among them: then both datagrams carry one number.)"""
    import time
    t_end = time.time() + budget_s
    st = {'n': 0, 'dup': 0}

    def ex_for(cfg):
        def ex(prefix):
            out = execute(cfg, S.ReplayPolicy(prefix), record=True)
            st['n'] += 1
            ctx.case(('late', repr(sorted(cfg.items())), tuple(out.choices)), nontrivial=_switches(out) > 0)
            ctx.count('late-reply:schedules')
            if out.status != 'complete':
                ctx.disagree('scheduler (late-reply stream)', _case_of(cfg, out.choices), 'complete', out.status)
                return None
            if _dup_rq(out):
                st['dup'] += 1
                ctx.count('late-reply:same-rq_seq-on-consecutive-datagrams')
            if any(r[3] for r in out.results):
                ctx.count('late-reply:a-call-timed-out')
            if out.drained:
                ctx.count('late-reply:late-datagram-discarded-before-next-request')
            before = len(ctx.violations)
            if _judge_faulty(ctx, cfg, out) and not st.get('shrunk'):
                st['shrunk'] = True
                small = _shrink_faulty(cfg, out.choices)
                if small is not None and len(small[0]) < len(out.choices) and len(ctx.violations) > before:
                    ctx.violations[before].update(small[1])
                    ctx.violations[before]['case']['shrunk_from'] = len(out.choices)
            return out.record
        return ex
    for i, (workers, ka, late) in enumerate(LATE_CFGS):
        cfg = _cfg(workers, ka, ['none', 'md5', 'password'][i % 3], 0x40 + i, [4, 62, 63, 0][i % 4], 'access')
        cfg['late'] = late
        S.explore(ex_for(cfg), 2 if ctx.tier == 'quick' else 3, limit=4000 if ctx.tier == 'quick' else 60000,
                  should_stop=lambda: time.time() > t_end or len([v for v in ctx.violations
                                                                   if v['signature'] == 'C14:caller-got-another-reply']) >= 2)
    ctx.extra['late_reply_stream'] = {'schedules': st['n'], 'with_duplicate_rq_seq': st['dup']}


def _shrink_faulty(cfg, choices):
    """shortest prefix of the choice list (then no preemption) under which a caller still gets a foreign reply"""
    last = {}

    def bad(n):
        out = execute(cfg, S.ReplayPolicy(choices[:n]))
        q = _Quiet()
        if out.status == 'complete' and _judge_faulty(q, cfg, out, choices=choices[:n]):
            last[n] = q.violations[0]
            return True
        return False
    try:
        lo, hi = 0, len(choices)
        if not bad(hi):
            return None
        while lo < hi:
            mid = (lo + hi) // 2
            if bad(mid):
                hi = mid
            else:
                lo = mid + 1
        if hi in last or bad(hi):
            return choices[:hi], last[hi]
    except Exception:  # noqa
        pass
    return None


# (granularity, workers, keep-alive ticks, closing worker, max_retries, loss plan, bound quick, bound thorough)
RETRY_CFGS = [
    ('sync', [(1, 1), (1, 1)], 0, None, 1, [0], 2, 3),            # one retransmission by an application thread
    ('sync', [(1, 1)], 1, None, 1, [0], 2, 3),                    # … by whichever of caller / keep-alive goes first
    ('sync', [(0, 1)], 1, 0, 2, [0, 1], 2, 3),                    # two in a row: the keep-alive's or Close Session's
    ('sync', [(1, 4)], 1, 0, 1, [1, 2], 2, 3),                    # more than the budget: that call ends in an error
    ('sync', [(2, 1), (1, 4)], 0, None, 1, [1], 2, 3),
    ('access', [(1, 1), (1, 1)], 0, None, 2, [0, 1], 1, 2),
    ('access', [(0, 1)], 1, 0, 1, [0], 1, 2),                     # close_session against a retransmitting keep-alive
    ('sync', [(1, 1), (1, 1), (1, 1)], 0, None, 1, [0, 2], 1, 2),
    ('sync', [(1, 1), (1, 4)], 1, 1, 2, [0, 2, 3], 1, 2),
    ('sync', [(2, 1), (2, 1)], 1, None, 2, [1, 2, 4], None, 2),
    ('access', [(2, 1), (1, 1)], 1, 0, 1, [0, 3], None, 1),
]


# (workers, keep-alive ticks, closing worker): 2..3 threads, the keep-alive and Close Session among them
HANDOFF_CFGS = [
    ([(1, 1), (1, 1)], 0, None),
    ([(1, 1)], 1, None),
    ([(2, 1), (1, 4)], 0, None),
    ([(1, 1), (1, 1)], 1, None),
    ([(1, 1), (1, 1), (1, 1)], 0, None),
    ([(1, 4)], 1, 0),                      # the closing thread: Close Session may be the retransmitted request
    ([(2, 1)], 2, None),
]


def _handoff_sweep(ctx, drv, st, t_end):
    """What the LOCK does at a release, crossed with the retransmissions: every configuration of HANDOFF_CFGS x
    max_retries 1..2 x the reply to the k-th datagram of the run lost (k = 0 .. number of calls; max_retries = 2: also
    k and k+1, two time-outs in a row within the budget) under (a) a FAIR lock - every other thread is queued on the
    lock before its holder goes on, and a free lock goes to the longest waiter, never back to the thread that has just
    released it - starting with each thread in turn, and (b) a preemption right after every release().  A release
    inside the exchange (between a time-out and the retransmission, say) hands the socket to a waiter there.  With two
    losses in a row also: the first hand-off passed over, the second taken."""
    import time
    n = 0
    auths = ['none', 'md5', 'password']
    hand = {'fair': 0, 'preempt': 0}
    for i, (workers, ka, closer) in enumerate(HANDOFF_CFGS):
        total = sum(c for c, _ in workers) + ka + (1 if closer is not None else 0)
        nthr = len(workers) + (1 if ka else 0)
        for mr in (1, 2):
            plans = [[k] for k in range(total + 1)]
            if mr == 2:
                plans += [[k, k + 1] for k in range(total)]
            for j, lose in enumerate(plans):
                for mode, skip in (('fair', 0), ('preempt', 0)) + ((('fair', 1), ('preempt', 1)) if len(lose) > 1 else ()):
                    for first in range(nthr):
                        if time.time() > t_end + 4:
                            ctx.notes.append('hand-off sweep cut short (time budget)')
                            ctx.extra['handoff_sweep'] = dict(hand, schedules=n, complete=False)
                            return n
                        cfg = _cfg(workers, ka, auths[(i + j) % 3], ss0=0xfffffffd if (i + j) % 5 == 4 else 0x90 + 8 * i + j,
                                   ns0=[6, 62, 63][(i + j) % 3], gran='sync', closer=closer, mr=mr, lose=lose)
                        _one(ctx, drv, cfg, S.HandOffPolicy(mode, first=first, skip=skip), st)
                        ctx.count('lock-hand-off:%s' % mode)
                        hand[mode] += 1
                        n += 1
    ctx.extra['handoff_sweep'] = dict(hand, schedules=n, complete=True)
    return n


def _retry_stream(ctx, drv, budget_s):
    """Rmcp(max_retries >= 1) behind a network that loses replies: the real retry loop (time-out, pack again, transmit
    again, all inside one lock hold) of application threads, the keep-alive and Close Session, under the scheduler.
    First every configuration with the reply to the k-th datagram lost, k = 0..5, without preemption (a retransmission
    that repeats a session sequence number shows at once); then schedules with a preemption bound."""
    import time
    t0 = time.time()
    t_end = t0 + budget_s
    st = {'violations': 0, 'shrunk': set()}
    n = 0
    auths = ['none', 'md5', 'password']
    try:
        for i, (workers, ka, closer) in enumerate([([(2, 1), (2, 1)], 0, None), ([(1, 1)], 1, None), ([(0, 1)], 1, 0),
                                                    ([(1, 4), (1, 1)], 1, 0)]):
            total = sum(c for c, _ in workers) + ka + (1 if closer is not None else 0)
            for k in range(min(6, total + 1)):
                for mr in (1, 2):
                    cfg = _cfg(workers, ka, auths[(i + k) % 3], ss0=0xfffffffe if (i + k) % 4 == 3 else 0x60 + 8 * i + k,
                               ns0=[4, 62, 63][k % 3], gran='sync', closer=closer, mr=mr, lose=[k] if mr == 1 else [k, k + 1])
                    _one(ctx, drv, cfg, S.ReplayPolicy([]), st)
                    n += 1
        n += _handoff_sweep(ctx, drv, st, t_end)
        for i, row in enumerate(RETRY_CFGS):
            bound = row[6] if ctx.tier == 'quick' else row[7]
            if bound is None or time.time() > t_end:
                continue
            cfg = _cfg(row[1], row[2], auths[i % 3], ss0=0xfffffffd if i % 4 == 2 else 0x30 + i,
                       ns0=62 if i % 3 == 1 else 5, gran=row[0], closer=row[3], mr=row[4], lose=row[5])
            n += _systematic(ctx, drv, cfg, bound, st, 4000 if ctx.tier == 'quick' else 60000, lambda: time.time() > t_end)
    except Stop:
        ctx.notes.append('retransmission stream stopped after %d violating schedules' % st['violations'])
    ctx.extra['retransmission_stream'] = {'schedules': n, 'wall_s': round(time.time() - t0, 1)}


# (granularity, workers, target per worker, keep-alive ticks, closing worker, bridge answers, bound quick, bound thorough)
TARGET_CFGS = [
    ('sync', [(1, 1)], ['r'], 1, None, 'ack', 2, 4),                 # a bridged request next to the keep-alive
    ('access', [(1, 1)], ['i'], 1, None, 'ack', 1, 3),               # another IPMB address, un-bridged, and the keep-alive
    ('sync', [(1, 1), (1, 1)], ['h', 'i'], 0, None, 'ack', 2, 4),    # two callers, the BMC and another address
    ('sync', [(1, 1), (1, 4)], ['r', 'h'], 1, None, 'embedded', 1, 2),
    ('sync', [(1, 1)], ['rr'], 1, None, 'ack', 1, 3),                # two bridges: three datagrams answer one
    ('sync', [(2, 1), (1, 1)], ['i', 'r'], 0, None, 'ack', 1, 3),    # the same address bridged and un-bridged
    ('access', [(1, 1), (1, 1)], ['r', 'j'], 0, None, 'ack', 1, 3),
    ('sync', [(1, 1), (0, 1)], ['r', 'h'], 1, 1, 'ack', 1, 2),       # … and a thread that closes the session
    ('sync', [(1, 1), (1, 1), (1, 1)], ['i', 'j', 'rr'], 0, None, 'embedded', None, 2),
    ('access', [(1, 1), (1, 1)], ['rr', 'h'], 1, None, 'ack', None, 1),
]


def _target_stream(ctx, drv, budget_s):
    """Threads that address DIFFERENT targets on one interface: an application thread talking to another IPMB address
    (un-bridged) or to a node behind one / two bridges (the fake BMC answers a Send Message with acknowledgement(s) and
    the wrapped reply - two or three datagrams - or with the reply embedded in one), next to the keep-alive, other
    application threads and Close Session, which address the BMC.  Every schedule within a preemption bound; judged by
    the Lean monitor (multi-datagram form: an exchange is tx (rx)+ owned by one thread); un-bridged configurations are
    validated against the Lean model as well."""
    import time
    t0 = time.time()
    t_end = t0 + budget_s
    st = {'violations': 0, 'shrunk': set()}
    n = 0
    auths = ['none', 'md5', 'password']
    try:
        # first every configuration once without preemption, then within the bound
        rows = [r for r in TARGET_CFGS if (r[6] if ctx.tier == 'quick' else r[7]) is not None]
        cfgs = [_cfg(row[1], row[3], auths[i % 3], ss0=0xfffffffe if i % 4 == 3 else 0x70 + i, ns0=63 if i % 3 == 1 else 7,
                     gran=row[0], closer=row[4], targets=row[2], bridge=row[5]) for i, row in enumerate(rows)]
        for cfg in cfgs:
            _one(ctx, drv, cfg, S.ReplayPolicy([]), st)
            n += 1
        for row, cfg in zip(rows, cfgs):
            if time.time() > t_end:
                ctx.notes.append('different-targets stream: stopped before %s (time budget)' % (row[1:4],))
                break
            n += _systematic(ctx, drv, cfg, row[6] if ctx.tier == 'quick' else row[7], st,
                             1500 if ctx.tier == 'quick' else 60000, lambda: time.time() > t_end)
    except Stop:
        ctx.notes.append('different-targets stream stopped after %d violating schedules' % st['violations'])
    ctx.extra['different_targets_stream'] = {'schedules': n, 'wall_s': round(time.time() - t0, 1)}


def run(ctx):
    drv = ctx.driver('drv_c14')
    if drv.ask('ping') != 'pong':
        ctx.disagree('driver', {}, 'pong', 'no answer')
        return
    _keepalive_probe(ctx)
    _variant_probe(ctx)
    _late_reply_stream(ctx, drv, 8 if ctx.tier == 'quick' else 120)
    _retry_stream(ctx, drv, 7 if ctx.tier == 'quick' else 100)
    _target_stream(ctx, drv, 3 if ctx.tier == 'quick' else 80)
    _explore_all(ctx, drv, ctx.tier)


def _wrong_replies(out):
    """calls that RETURNED a reply answering a datagram the caller did not send in that call"""
    return [(tid, sent, got) for tid, sent, got, err in out.results if got is not None and got not in sent]


def _judge_faulty(ctx, cfg, out, choices=None):
    """Oracle that is valid even when replies are delayed: a call may fail, but it must never return the
    reply to somebody else's (or an earlier) request."""
    bad = _wrong_replies(out)
    if not bad:
        return []
    case = _case_of(cfg, out.choices if choices is None else choices)
    ctx.violate('C14:caller-got-another-reply',
                'a caller was handed the reply to a request it did not send: ' + ', '.join(
                    'thread %d sent datagram %s and got the reply to datagram %d' % (t, sn, g) for t, sn, g in bad),
                case, expected='every call returns the reply to its own datagram, or fails',
                observed={'wire': out.wire, 'results': _res_tokens(out.results),
                          'errors': [r[3] for r in out.results if r[3]]})
    return ['C14:caller-got-another-reply']


def _fault_search(ctx):
    """Only when a tie is broken: configurations outside the fault-free quantifier of the property (they are
    C04's), judged by an oracle that holds under faults too.  The reply to one datagram is withheld until the
    next datagram is sent (the caller times out; its late reply then sits in front of the next caller's)."""
    rng = ctx.rng('c14-fault')
    n = 0
    for workers, ka in ([[(3, 1)], 0], [[(2, 1), (2, 1)], 0], [[(2, 4), (1, 4)], 1], [[(2, 1), (1, 1), (1, 1)], 0]):
        for late in (0, 1):
            for k in range(4):
                cfg = _cfg(workers, ka, ['none', 'md5', 'password'][k % 3], 0x30 + k, [4, 62, 63, 0][k], 'sync')
                cfg['late'] = late
                out = execute(cfg, S.ReplayPolicy([]) if k == 0 else S.RandomPolicy(rng, 0.3))
                n += 1
                ctx.count('fault-search:late-reply')
                if out.status == 'complete' and _judge_faulty(ctx, cfg, out):
                    ctx.extra['fault_search_schedules'] = n
                    return True
    ctx.extra['fault_search_schedules'] = n
    return False


def search(ctx):
    """A tie broke (model rejects a trace / theorem no longer checks) and no schedule explored so
    far broke the monitor: spend some more budget on schedules against the monitor, and try the one
    fault (a late reply) under which handing a caller somebody else's reply shows."""
    if ctx.time_left() < 25:
        return
    try:
        drv = ctx.driver('drv_c14')
        drv.ask('ping')
    except Exception:  # noqa
        return
    try:
        if _fault_search(ctx):
            return
    except Exception as e:  # noqa
        ctx.notes.append('fault search failed: %r' % (e,))
    _explore_all(ctx, drv, 'search')


def replay(ctx, v):
    case = dict(v['case'])
    choices = S.unrle(case.pop('choices', []))
    case.pop('shrunk_from', None)
    cfg = case
    drv = ctx.driver('drv_c14')
    pol = S.ReplayPolicy(choices)
    out = execute(cfg, pol)
    q = _Quiet()
    if cfg.get('late') is not None:
        sigs = _judge_faulty(q, cfg, out, choices=choices)
    else:
        sigs = judge(q, cfg, out, drv, model=False, choices=choices)
    print('configuration: %s' % cfg)
    print('stopper returned by call_repeatedly on this tree: %s' % (
        'sets the event and joins the keep-alive thread' if variant_joins() else 'sets the event only'))
    print('schedule: %d recorded choices%s' % (len(choices), '' if pol.diverged is None else
                                               ' (recorded choice %d was not enabled on this tree; continued without preemption)' % pol.diverged))
    print('status: %s' % out.status)
    if cfg.get('mr') or cfg.get('lose'):
        print('Rmcp(max_retries=%d); replies lost by the network: to datagram(s) %s; on this tree a retransmission %s' % (
            cfg.get('mr', 0), out.lost, 'packs the session wrapper again' if variant_pack_per_attempt()
            else 'repeats the stored datagram'))
    print('wire log (T:tid:serial:session_seq:rq_seq:cmd / R:tid:serial / X:tid:serial = time-out on that datagram):')
    print('  ' + ' '.join(out.wire))
    print('results (tid:sent:got): ' + ' '.join(_res_tokens(out.results)))
    print('accesses (tid:event): ' + ' '.join(out.trace))
    for x in q.violations:
        print('VIOLATED: %s  [%s]' % (x['what'], x['observed'].get('monitor') if isinstance(x['observed'], dict) else x['observed']))
    if not q.violations:
        print('Spec.Threads.accepts and wholeExchanges (calls %s): ok' % ' '.join(_call_tokens(out.results)) if cfg.get('late') is None else
              'no call returned a reply to a datagram its caller did not send (errors: %s)' % [r[3] for r in out.results if r[3]])
    return bool(sigs)
