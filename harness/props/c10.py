"""C10 - FRU data transfer is exact and addresses the named FRU."""
import json
import random

from ..lib import lean
from ..sim import dev10
from ..translate import loops10

ID = 'C10'
TARGETS = ['PyIpmi.Props.C10', 'drv_c10']
LEVEL = 'proof'
RULE = ('a case = (reference FRU device: 2-4 FRU ids 0..255 incl. id 0 with distinct contents, per-read limit, '
        'rejection code C8/C9/CA or short-serving, per-write limit) x one operation of the real Ipmi object '
        '(read_fru_data range / read_fru_data_full / write_fru_data / get_fru_inventory_header / '
        'get_fru_{chassis,board,product}_area / get_fru_multirecord_area / get_fru_inventory) run through the real '
        'codec against the Lean device; compared with the Lean model: outcome, bytes returned, the complete '
        'request/response trace, final device contents.  Independently every case is judged by the property: bytes = '
        'storage slice (areas located by the FRU storage format), every request names the caller\'s FRU id, written '
        'bytes land contiguously, a short acknowledge is an error.  Distinct by (device, operation); non-trivial = '
        'at least two exchanges.  EVERY FORM OF THE READ CALL read_fru_data(offset=None, count=None, fru_id): besides '
        '(offset, count) and neither, a count given ALONE (that many bytes from the start) and an offset given ALONE '
        '(from there to the end of the inventory area) - boundary sizes, 0, the whole area; signature '
        'read_fru_data:half-range.  ABSENT AREAS: the generated images declare every subset of {chassis, board, product, '
        'multirecord} present (all 16, x internal use area declared or not - the usual board FRU has one and no chassis '
        'area) and EVERY getter is called on each; for an area whose offset byte in a checksum-valid common header is '
        '00h the oracle expects None and Read FRU Data requests inside bytes 0..7 only (signatures '
        'get_fru_<x>_area:absent-area, :absent-area:reads).  HISTORIES on ONE Ipmi object against ONE device: (a) every single case again as the '
        'SECOND operation after a randomly chosen other one (reads the device refuses at every size, reads of other / '
        'unknown FRU ids, full, header, inventory reads); (b) directed: a refused read whose last size is odd / even, '
        'then ranged and full reads (limits 255, 32, 2); image A read - other FRU read - image B written completely / '
        'with an error code or a short acknowledge at chunk k >= 1 and resumed / tail first - inventory and '
        'multirecord area read again; (c) random sequences of 2..6 operations (reads in and out of range, full reads, '
        'writes, writes that fault at chunk k and are resumed, header / area / multirecord / inventory reads, several '
        'FRU ids).  Every step is judged on its own against the contents the device holds when the step starts and '
        'compared with the Lean model started from that device (the model has no state between calls); a violation '
        'that a fresh object does not show is reported as ...:after-earlier-operations with the shrunk history.  '
        'WRITE CHUNK SIZES: every generated write assigns the public attribute ipmi.write_length first (1, 2, 5, 15, 16, '
        '17, 40, 255, the source default, seeded random 1..255; each named size x data lengths wl-1, wl, wl+1, 2wl, 2wl+1, '
        '3wl-1; all 1..255 in the thorough tier) and the Lean model runs with the same value '
        '(Props/C10.write_*_any_chunk); 0 and > 255 are compared with the model only.  Acknowledges that differ from '
        'the chunk in BOTH directions: fault kind a (chunk stored as sent, acknowledge names clen+1 / clen+2..8 / FFh / '
        'clen-1) in random and directed histories (complete write - same write with chunk k mis-acknowledged - read '
        'back) for every named chunk size.  SEVERAL MIS-ACKNOWLEDGED CHUNKS IN ONE WRITE: fault plans with 2..4 '
        'deviating acknowledges (multi_ack_plan: pairs short-then-long and long-then-short, adjacent and first/last '
        'chunk, triples, quadruples whose deviations SUM TO ZERO, and some that do not; a smaller count as fault a or as '
        'fault s = only that many bytes stored) - on a fresh object for every named / default / random chunk size (all '
        '1..255 thorough) with the last chunk full or short, on 60 % of the random multi-chunk writes, in the random '
        'histories (35 % of the faulted writes, resumed behind what was stored) and as directed history complete write '
        '- write under the plan - resumed - read back; search() sweeps every pair (both orders) and triple of chunks of '
        '2..5-chunk writes for the named sizes.  The write oracle reads the REQUEST TRACE: the first Write FRU Data '
        'acknowledged with another count than it carried must be the LAST exchange of the write and the write must end '
        'in an exception (signatures count-mismatch[:larger] = one deviation, success; count-mismatch:several = two or '
        'more, success; count-mismatch:reported-late = requests went on after the deviation).  THE END OF THE 16-BIT '
        'OFFSET SPACE: devices holding exactly 65536, 65535 and 65534 bytes (FRU id 0 / random, the other FRUs small) '
        'under limits 255, 16 (C8h), 2 (C9h), 5 (CAh) and short-serving 31: explicit ranges that touch the end - (n-1, 1), '
        '(n-2, 2), (n-16, 16), (n-7, 7), (n-32, 32), (n-33, 33), (n-255, 255), (n-256, 256), (FC00h, to the end), '
        'offsets FF00h..FFFFh with counts that stay inside - an offset alone, a range that leaves the contents (model '
        'only), writes of 1 / 16 / 17 / 33 / 40 bytes whose last byte is the last byte of the device, and the full read '
        '(of the 65536-byte device in the quick tier, of all in the thorough tier); signature read_fru_data:data.')
ASSUMPTIONS = [
    'the device is the Lean reference device (Spec/FruDevice.lean): limit enforced by rejecting (or, second mode, by '
    'serving short); reads outside the area are refused with C9h; it never serves zero bytes; a write stores at most '
    'wmax bytes and acknowledges what it stored (an acknowledge LARGER than the chunk comes from the fault wrapper only)',
    '"FRU contents up to 64 KiB" is read as: up to 65536 bytes, every byte a 16-bit Read / Write FRU Data offset can '
    'address (an explicit range may end at 10000h: offset <= FFFFh, the count any number the caller names).  The size '
    'Get FRU Inventory Area Info reports is a 16-bit field (IPMI v2.0 table 34-1, "in bytes"): the reference device '
    'reports min(size, FFFFh) (Spec.Fru.infoSize), so for a 65536-byte device "the whole inventory area" of '
    'read_fru_data_full / an offset given alone is the 65535 bytes it reports (Props/C10.read_full_of_64k_device) and '
    'the last byte is reachable through an explicit range only (read_reaches_last_byte_of_64k); larger devices are not '
    'generated',
    'FRU area *parsers* are substituted by recorders of the bytes handed to them (their correctness is C15); '
    'InventoryCommonHeader is the real one',
    'termination of the real loops is observed (request cap), in the model it is fuel derived from the loop measure',
    'the requested range of read_fru_data(offset=None, count=None) with ONE argument given is read as: count alone = '
    'that many bytes from offset 0, offset alone = from there to the end of the inventory area (the only reading under '
    'which both defaults mean "whole inventory"); what a getter returns for an area the common header declares absent '
    '(offset byte 00h, Storage Definition 8) is None - the value FruInventory carries for it - after the header read '
    'alone; the model follows the PROBED variants (Model/FruXfer.Var: rangeFix, absC/absB/absP/absM; as pinned the None '
    'offset is passed on and the whole inventory is read, fixes/C10-2.diff)',
    'an image with an info area whose length byte is 00h does not follow the storage format and is not judged by the '
    'oracle (about 5 % of the generated images have one); the model follows the PROBED variant of _read_fru_area: as '
    'shipped it reads 0 bytes and hands b\'\' to the parser, after fixes/C15-2.diff it raises DecodingError behind the '
    '5-byte read (Model/FruXfer.readFruArea lenChk; requests_name_fru holds for both)',
    'faults inside a history step (request k answered with a bare completion code; write k storing only n bytes) are '
    'injected by the Lean device wrapper Spec.Fru.respondF (= the reference device while the plan is empty, theorem '
    'faultless_plan_is_reference_device); what a write must raise on an error completion code is C08, here only a short '
    'acknowledge must end in an exception and a read that was answered an injected error may fail but never return '
    'other bytes',
    'the property\'s "reports an error when the device acknowledges a different byte count" is read per Write FRU Data '
    'request: the error is due at the FIRST deviating acknowledge and no further request of that write may follow it '
    '(Props/C10.write_raises_at_first_count_mismatch); a library that only compares a total after the last chunk is '
    'reported (:several when deviations cancel, :reported-late otherwise)',
]
TRUSTED = ['harness/translate/loops10.py', 'harness/sim/dev10.py', 'harness/props/c10.py (generators, oracle)']

REJECT = (0xC8, 0xC9, 0xCA)
_consts = None


def translate(ctx):
    global _consts
    _consts = loops10.generate(need='fru')


# ---------------------------------------------------------------------------------------
# FRU images built from the Platform Management FRU Information Storage Definition

def _info_area(rng, n8):
    a = bytearray(rng.randrange(256) for _ in range(n8 * 8))
    a[0] = 0x01
    a[1] = n8
    a[-1] = (-sum(a[:-1])) & 0xff
    return bytes(a)


def _multirecord(rng, nrec):
    out = bytearray()
    for k in range(nrec):
        ln = rng.choice([0, 1, 3, 5, 8, 11, 27, 40, 64])
        payload = bytes(bytearray(rng.randrange(256) for _ in range(ln)))
        t = rng.choice([0x00, 0x01, 0x02, 0x03, 0xC0, 0xD1])
        b1 = 0x02 | (0x80 if k == nrec - 1 else 0)
        rc = (-sum(payload)) & 0xff
        hc = (-(t + b1 + ln + rc)) & 0xff
        out += bytes(bytearray([t, b1, ln, rc, hc])) + payload
    while len(out) % 8:
        out.append(0)
    return bytes(out)


def fru_image(rng, areas, internal=None):
    """Common header + the chosen areas ('c','b','p','m') in random order + slack.  The bytes between the header
    and the first area are DECLARED as internal use area (header byte 1 = 1, first byte format version 01h) when
    `internal` is true (None: in half of the images that have such bytes) - the usual layout of a board FRU."""
    order = list(areas)
    rng.shuffle(order)
    off = 8 * rng.choice([1, 1, 2, 3])
    body = bytearray(rng.randrange(256) for _ in range(off - 8))
    if internal is None:
        internal = off > 8 and rng.random() < 0.5
    if internal and off == 8:
        off = 16
        body = bytearray(rng.randrange(256) for _ in range(8))
    if internal:
        body[0] = 0x01
    where = {}
    for a in order:
        data = _multirecord(rng, rng.randrange(1, 5)) if a == 'm' else _info_area(rng, rng.choice([1, 2, 3, 4, 5, 9, 17]))
        where[a] = off
        body += data
        off += len(data)
    info = [k for k in 'cbp' if k in where]
    if info and rng.random() < 0.05:
        # an info area whose length byte is 00h (not a well-formed area; exercises the _read_fru_area variant
        # of the model: 0 bytes read and b'' handed on / DecodingError - the oracle does not judge such an image)
        body[where[rng.choice(info)] - 8 + 1] = 0
    hdr = bytearray([0x01, 1 if internal else 0, where.get('c', 0) // 8, where.get('b', 0) // 8,
                     where.get('p', 0) // 8, where.get('m', 0) // 8, 0])
    hdr.append((-sum(hdr)) & 0xff)
    slack = bytes(bytearray(rng.randrange(256) for _ in range(rng.choice([0, 0, 1, 7, 30]))))
    return bytes(hdr) + bytes(body) + slack


def locate(image):
    """Independent reading of an image (Storage Definition 8, 10-12, 16): header offsets, info areas, multirecord
    extent; an area whose offset byte in the common header is 00h "is not present" (None) whatever else the image
    holds.  Returns None where the image does not follow the storage format."""
    if len(image) < 8 or sum(image[:8]) % 256:
        return None
    res = {'hdr': [b * 8 or None for b in image[1:6]]}
    for key, idx in (('c', 2), ('b', 3), ('p', 4)):
        o = image[idx] * 8
        if o:
            if o + 5 > len(image) or o + image[o + 1] * 8 > len(image):
                return None
            if image[o + 1] == 0:
                # an info area is at least 8 bytes: a length byte 00h does not follow the storage format (whether
                # such an area is handed to the parser as b'' or rejected with DecodingError is C15's business)
                return None
            res[key] = image[o:o + image[o + 1] * 8]
        else:
            res[key] = None
    o = image[5] * 8
    if o:
        p = o
        while True:
            if p + 5 > len(image):
                return None
            ln = image[p + 2]
            eol = image[p + 1] & 0x80
            p += 5 + ln
            if p > len(image):
                return None
            if eol:
                break
        res['m'] = image[o:p]
    else:
        res['m'] = None
    return res


# ---------------------------------------------------------------------------------------
# cases

def dev_line(dev):
    frus = ' '.join('%d:%s' % (int(i), h) for i, h in dev['frus'])
    return ('dev %d %d %d %d %s' % (dev['limit'], dev['cc'], 1 if dev['short'] else 0, dev['wmax'], frus)).strip()


def _store(dev):
    return dict((int(i), lean.unhex(h)) for i, h in dev['frus'])


class _Rec(object):
    """Stands in for an area parser: keeps what it is handed."""

    def __init__(self, data=None):
        self.data = bytes(bytearray(data)) if data is not None else b''


def _patch_parsers():
    import pyipmi.fru as F
    names = ['InventoryChassisInfoArea', 'InventoryBoardInfoArea', 'InventoryProductInfoArea',
             'InventoryMultiRecordArea']
    old = dict((n, getattr(F, n)) for n in names)
    for n in names:
        setattr(F, n, _Rec)
    return old


def _unpatch_parsers(old):
    import pyipmi.fru as F
    for n, v in old.items():
        setattr(F, n, v)


def _opt(v):
    return 'n' if v is None else str(v)


def _area_hex(a):
    return 'n' if a is None else lean.hexs(a.data)


def real_op(ipmi, op):
    """Run one operation on the real Ipmi object; returns the canonical outcome string."""
    kind = op[0]
    if kind == 'read':
        # 'n' = the argument is left out (its default None): read_fru_data(offset=None, count=None, fru_id=0)
        kw = {'fru_id': int(op[1])}
        if op[2] != 'n':
            kw['offset'] = int(op[2])
        if op[3] != 'n':
            kw['count'] = int(op[3])
        return 'ok ' + lean.hexs(ipmi.read_fru_data(**kw))
    if kind == 'full':
        return 'ok ' + lean.hexs(ipmi.read_fru_data_full(fru_id=int(op[1])))
    if kind == 'write':
        if len(op) > 4:
            ipmi.write_length = int(op[4])      # the public chunk-size attribute (Fru.__init__: 16)
        ipmi.write_fru_data(lean.unhex(op[3]), offset=int(op[2]), fru_id=int(op[1]))
        return 'ok -'
    if kind == 'hdr':
        h = ipmi.get_fru_inventory_header(fru_id=int(op[1]))
        return 'ok ' + ','.join(_opt(x) for x in (
            h.internal_use_area_offset, h.chassis_info_area_offset, h.board_info_area_offset,
            h.product_info_area_offset, h.multirecord_area_offset))
    if kind == 'area':
        f = {'c': ipmi.get_fru_chassis_area, 'b': ipmi.get_fru_board_area, 'p': ipmi.get_fru_product_area}[op[2]]
        return 'ok ' + _area_hex(f(fru_id=int(op[1])))          # 'n' = the getter returned None
    if kind == 'mr':
        return 'ok ' + _area_hex(ipmi.get_fru_multirecord_area(fru_id=int(op[1])))
    if kind == 'inv':
        inv = ipmi.get_fru_inventory(fru_id=int(op[1]))
        return 'ok ' + ' '.join(_area_hex(a) for a in (
            inv.chassis_info_area, inv.board_info_area, inv.product_info_area, inv.multirecord_area))
    raise ValueError(op)


def run_real(drv, dev, op, cap=300000):
    device = dev10.LeanDevice(drv)
    device.load(dev_line(dev))
    iface = dev10.FakeInterface(device, cap=cap)
    ipmi = dev10.make_ipmi(iface)
    old = _patch_parsers()
    try:
        try:
            out = real_op(ipmi, op)
        except dev10.Hang as e:
            out = dev10.outcome_tag(e)
        except lean.LeanError:
            raise
        except Exception as e:  # noqa
            out = dev10.outcome_tag(e)
    finally:
        _unpatch_parsers(old)
    return out, iface.trace, drv.ask('dump')


def probe_shipped(drv):
    """Does get_fru_multirecord_area of the tree under test drop the FRU id in its inner reads?
    (decides which variant of the model the correspondence uses; DESIGN 2.4)"""
    img0 = fru_image(random.Random('probe-0'), 'm')
    img1 = fru_image(random.Random('probe-1'), 'cm')
    dev = {'limit': 32, 'cc': 0xCA, 'short': False, 'wmax': 16, 'frus': [(0, lean.hexs(img0)), (7, lean.hexs(img1))]}
    try:
        _, trace, _ = run_real(drv, dev, ['mr', '7'])
    except Exception:  # noqa
        return False
    return any(len(t[1]) > 0 and t[1][0] != 7 for t in trace)


def probe_len_chk(drv):
    """Does _read_fru_area of the tree under test reject an info area whose length byte is 0
    (fixes/C15-2.diff: `if count == 0: raise DecodingError` behind the 5-byte read) or read 0 bytes and hand
    b'' to the parser (as shipped)?  (second variant flag of the model, Model/FruXfer.readFruArea lenChk)"""
    img = bytes([0x01, 0x00, 0x01, 0x00, 0x00, 0x00, 0x00, 0xfe, 0x01, 0x00, 0x17, 0xc0, 0xc0, 0xc1, 0x00, 0xa7])
    dev = {'limit': 32, 'cc': 0xCA, 'short': False, 'wmax': 16, 'frus': [(0, lean.hexs(img))]}
    try:
        out, _, _ = run_real(drv, dev, ['area', '0', 'c'])
    except Exception:  # noqa
        return False
    return out == 'DecodingError'


# FRU 4 of the probes: common header declaring an internal use area at offset 8 and nothing else
_BARE = bytes([0x01, 0x01, 0x00, 0x00, 0x00, 0x00, 0x00, 0xfe, 0x01, 0xa1, 0xa2, 0xa3, 0xa4, 0xa5, 0xa6, 0xa7])


def probe_range_fix(drv):
    """Does read_fru_data of the tree under test honour a count given without an offset (fixes/C10-2.diff:
    `off = offset or 0`, the whole-area size only `if count is None`) or drop it (as pinned: whole inventory
    whenever `offset is None`)?  (model flag bit 2, Model/FruXfer.readFruDataV)"""
    dev = {'limit': 32, 'cc': 0xCA, 'short': False, 'wmax': 16, 'frus': [(0, lean.hexs(_BARE)), (4, lean.hexs(_BARE))]}
    try:
        out, _, _ = run_real(drv, dev, ['read', '4', 'n', '3'])
    except Exception:  # noqa
        return False
    return out == 'ok ' + lean.hexs(_BARE[:3])


def probe_abs_guard(drv, which):
    """Does the getter (`c`/`b`/`p`/`m`) of the tree under test return None for an area the common header declares
    absent (fixes/C10-2.diff) or pass the None offset on (as pinned)?  (model flag bits 3..6, Var.absC..absM)"""
    dev = {'limit': 32, 'cc': 0xCA, 'short': False, 'wmax': 16, 'frus': [(0, lean.hexs(_BARE)), (4, lean.hexs(_BARE))]}
    try:
        out, _, _ = run_real(drv, dev, ['mr', '4'] if which == 'm' else ['area', '4', which])
    except Exception:  # noqa
        return False
    return out == 'ok n'


GETTER = {'c': 'get_fru_chassis_area', 'b': 'get_fru_board_area', 'p': 'get_fru_product_area',
          'm': 'get_fru_multirecord_area'}
HDR_BYTE = {'c': 2, 'b': 3, 'p': 4, 'm': 5}


# ---------------------------------------------------------------------------------------
# the property, judged on the real code (oracle independent of the Lean model)

def _limit_ok(dev):
    if dev['short']:
        return dev['limit'] >= 1
    return dev['limit'] >= 2 and dev['cc'] in REJECT


def _effective(faults, trace):
    """the faults of a plan that changed an answer: the request index was reached, and for `s` the
    request is a Write FRU Data carrying more than n data bytes"""
    out = []
    for k, t, v in faults:
        k, v = int(k), int(v)
        if k >= len(trace):
            continue
        if t == 's' and not (trace[k][0] == 0x12 and len(trace[k][1]) - 3 > v):
            continue
        if t == 'a' and not (trace[k][0] == 0x12 and len(trace[k][1]) >= 3 and (len(trace[k][1]) - 3) != v % 256):
            continue
        out.append((k, t, v))
    return out


def _deviations(trace):
    """[(k, sent, acknowledged)] for every Write FRU Data exchange of the trace that the device answered
    'completion code 00h, count written' with a count that differs from the data bytes the request carried -
    read off the wire, whatever made the device do so (fault plan, per-write limit)"""
    out = []
    for k, t in enumerate(trace):
        if t[0] == 0x12 and len(t[1]) >= 3 and len(t[2]) == 2 and t[2][0] == 0 and t[2][1] != len(t[1]) - 3:
            out.append((k, len(t[1]) - 3, t[2][1]))
    return out


def judge(ctx, dev, op, out, trace, dump, case=None, faults=()):
    """Property oracle on the real code's behaviour.  Reports through ctx.violate.
    `dev` describes the device AT THE MOMENT the operation starts (in a history: the contents dumped
    right before the step); `faults` is the step's fault plan (only faults whose request index was
    reached count); `case` is what a replay needs (default: the single case)."""
    store = _store(dev)
    if case is None:
        case = {'dev': dev, 'op': op}
    hit = _effective(faults, trace)
    kind, fid = op[0], int(op[1])
    # -- every request names the FRU id the caller named
    for t in trace:
        if t[0] in (0x10, 0x11, 0x12) and (len(t[1]) == 0 or t[1][0] != fid % 256):
            ctx.violate('C10:%s:fru_id' % t[3],
                        '%s: a request issued by %s addresses FRU %s instead of the FRU id %d named by the caller'
                        % (kind, t[3], t[1][0] if len(t[1]) else '?', fid), case,
                        expected='every Get Info / Read / Write FRU Data request carries fru id %d' % fid,
                        observed='%d:%s' % (t[0], lean.hexs(t[1])))
            return      # whatever else is wrong with this run follows from the misaddressed request
    if fid not in store or fid > 255 or len(store[fid]) > 65536:
        return
    content = store[fid]
    # "FRU contents up to 64 KiB": the 16-bit offset of Read / Write FRU Data addresses bytes 0..FFFFh, so a device may
    # hold 65536 bytes and an explicit range may end at 10000h; the size Get FRU Inventory Area Info reports is a
    # 16-bit field, a 65536-byte device says FFFFh (Spec.Fru.infoSize) and THAT is "the whole inventory area"
    reported = min(len(content), 0xFFFF)
    if kind in ('read', 'full'):
        if not _limit_ok(dev):
            return
        half = False
        if kind == 'full':
            want = content[:reported]
        else:
            # the requested range of read_fru_data(offset=None, count=None): `count` bytes from `offset` (from the
            # start when no offset is given), and - no count given - everything from there to the end of the area
            off = 0 if op[2] == 'n' else int(op[2])
            cnt = max(reported - off, 0) if op[3] == 'n' else int(op[3])
            if off + cnt > len(content):
                return
            want = content[off:off + cnt]
            half = (op[2] == 'n') != (op[3] == 'n')
        exp = 'ok ' + lean.hexs(want)
        if hit and not out.startswith('ok '):
            return      # a request of this read was answered with an injected error: it may fail
        if out != exp:
            if half:
                ctx.violate('C10:read_fru_data:half-range',
                            'read_fru_data(%s, fru_id=%d) - a range given by its %s alone - does not return the %d bytes '
                            'the device stores %s' % (
                                'count=%s' % op[3] if op[2] == 'n' else 'offset=%s' % op[2], fid,
                                'count' if op[2] == 'n' else 'offset', len(want),
                                'from the start of the inventory area' if op[2] == 'n' else 'from that offset to the end '
                                'of the inventory area'), case,
                            expected=exp[:200], observed=('%d bytes: ' % ((len(out) - 3) // 2) if out.startswith('ok ') else '')
                            + out[:200])
                return
            ctx.violate('C10:%s:data' % ('read_fru_data_full' if kind == 'full' else 'read_fru_data'),
                        'the bytes returned differ from the bytes the device stores in the requested range', case,
                        expected=exp[:200], observed=out[:200])
        return
    if kind == 'write':
        off, data = int(op[2]), lean.unhex(op[3])
        if off + len(data) > len(content):
            return
        wl = int(op[4]) if len(op) > 4 else (_consts or {}).get('fru', {}).get('writeLen', 16)
        if not 1 <= wl <= 255:
            return      # not a chunk size (0: ValueError before any request; > 255: more than an acknowledge can count)
        first = min(wl, len(data))      # the longest chunk of this write
        devs = _deviations(trace)
        if devs:
            # an acknowledge that names another count than its request carried (fewer or more; because of a fault
            # plan or of the device's own per-write limit) must be reported, and AT that acknowledge: it is the
            # last exchange of the write (Props/C10.write_raises_at_first_count_mismatch).  Judged on the wire.
            k, sent, ack = devs[0]
            acks = ', '.join('request %d: %d for %d' % (i, a, c) for i, c, a in devs[:6])
            if out.startswith('ok'):
                if len(devs) > 1:
                    sig = 'C10:write_fru_data:count-mismatch:several'
                    what = ('%d Write FRU Data requests of one write_fru_data were acknowledged with another count '
                            'than they carried (%s; the deviations sum to %+d) and write_fru_data reported success'
                            % (len(devs), acks, sum(a - c for _, c, a in devs)))
                else:
                    sig = 'C10:write_fru_data:count-mismatch' + (':larger' if ack > sent else '')
                    what = ('the device acknowledged %s bytes than sent (%d for %d) and write_fru_data reported '
                            'success' % ('more' if ack > sent else 'fewer', ack, sent))
                ctx.violate(sig, what, case, expected='an exception at request %d' % k, observed=out)
            elif len(trace) > k + 1:
                ctx.violate('C10:write_fru_data:count-mismatch:reported-late',
                            'request %d of the write was acknowledged with %d bytes for %d sent; write_fru_data went on '
                            'with %d more request(s) (acknowledged: %s) before it ended with %s'
                            % (k, ack, sent, len(trace) - k - 1, acks, out[:60]), case,
                            expected='an exception after request %d, no further request' % k,
                            observed='%s after %d requests: %s' % (out[:60], len(trace), dev10.show_trace(trace)[:300]))
            return
        if hit:
            # a request was answered with an error completion code (what that must raise is C08)
            return
        if dev['wmax'] >= first:
            want = dict(store)
            want[fid] = content[:off] + data + content[off + len(data):]
            exp_dump = ' '.join('%d:%s' % (int(i), lean.hexs(want[int(i)])) for i, _ in dev['frus']) or '-'
            if out != 'ok -' or dump != exp_dump:
                ctx.violate('C10:write_fru_data:data',
                            'after write_fru_data the device does not hold exactly the given bytes from the given offset',
                            case, expected='ok - / ' + exp_dump[:200], observed=out + ' / ' + dump[:200])
        elif dev['wmax'] < first:
            if out.startswith('ok'):
                ctx.violate('C10:write_fru_data:count-mismatch',
                            'the device acknowledged fewer bytes than sent and write_fru_data reported success', case,
                            expected='an exception', observed=out)
        return
    if not _limit_ok(dev):
        return
    if hit and not out.startswith('ok '):
        return
    which = op[2] if kind == 'area' else 'm' if kind == 'mr' else None
    if which is not None and len(content) >= 8 and sum(content[:8]) % 256 == 0 and content[HDR_BYTE[which]] == 0:
        # the common header (valid checksum) says 00h = "this area is not present": the device stores no such area,
        # whatever its other bytes are.  The getter has nothing to return (None, as FruInventory reports an absent
        # area) and nothing to read beyond the 8 header bytes (Props/C10.absent_area_is_none).
        name = GETTER[which]
        reads = [(t[1][1] | t[1][2] << 8, t[1][3]) for t in trace if t[0] == 0x11 and len(t[1]) == 4]
        beyond = [t for t in trace if t[0] != 0x11 or len(t[1]) != 4 or (t[1][1] | t[1][2] << 8) + t[1][3] > 8]
        if out != 'ok n':
            got = out if not out.startswith('ok ') else \
                'an area object built from %d bytes: %s' % ((len(out) - 3) // 2, out[3:120])
            ctx.violate('C10:%s:absent-area' % name,
                        '%s(fru_id=%d): the common header of FRU %d declares no such area (offset byte %d is 00h); the '
                        'getter %s after %d requests for %d bytes (Get FRU Inventory Area Info: %d) - the inventory '
                        'holds %d bytes, its header 8' % (
                            name, fid, fid, HDR_BYTE[which],
                            'handed its parser bytes the device does not store as that area' if out.startswith('ok ')
                            else 'ended in %s' % out[:60], len(trace), sum(c for _, c in reads),
                            sum(1 for t in trace if t[0] == 0x10), len(content)), case,
                        expected='ok n (None: no area) after reading the 8 header bytes only', observed=got[:300])
        elif beyond:
            ctx.violate('C10:%s:absent-area:reads' % name,
                        '%s(fru_id=%d) returns None for the absent area but transferred more than the common header'
                        % (name, fid), case, expected='Read FRU Data requests inside bytes 0..7 only',
                        observed=dev10.show_trace(trace)[:300])
        return
    loc = locate(content)
    if loc is None:
        return
    if kind == 'hdr':
        exp = 'ok ' + ','.join(_opt(x) for x in loc['hdr'])
    elif kind == 'area':
        if loc[op[2]] is None:
            return
        exp = 'ok ' + lean.hexs(loc[op[2]])
    elif kind == 'mr':
        if loc['m'] is None:
            return
        exp = 'ok ' + lean.hexs(loc['m'])
    elif kind == 'inv':
        exp = 'ok ' + ' '.join('n' if loc[k] is None else lean.hexs(loc[k]) for k in ('c', 'b', 'p', 'm'))
    else:
        return
    if out != exp:
        name = {'hdr': 'get_fru_inventory_header', 'mr': 'get_fru_multirecord_area', 'inv': 'get_fru_inventory',
                'area': 'get_fru_%s_area' % {'c': 'chassis', 'b': 'board', 'p': 'product'}.get(op[2] if len(op) > 2 else '', '?')}[kind]
        ctx.violate('C10:%s:data' % name,
                    '%s hands its parser bytes that differ from the area stored in FRU %d' % (name, fid), case,
                    expected=exp[:300], observed=out[:300])


def _first_diff(a, b):
    xa, xb = a.split(','), b.split(',')
    for i, (p, q) in enumerate(zip(xa, xb)):
        if p != q:
            return 'exchange %d: model %s / code %s' % (i, p[:80], q[:80])
    return 'length: model %d / code %d exchanges' % (len(xa), len(xb))


def one_case(ctx, drv, dev, op, shipped, compare=True):
    out, trace, dump = run_real(drv, dev, op)
    judge(ctx, dev, op, out, trace, dump)
    ctx.case((dev_line(dev), tuple(op)), nontrivial=len(trace) >= 2)
    if compare:
        model = drv.ask('run %d %s' % (int(shipped), ' '.join(op)))
        parts = model.split(' | ')
        code = [out, dev10.show_trace(trace), dump]
        if parts != code:
            if len(parts) == 3 and parts[0] == out and parts[2] == dump:
                what = 'trace: ' + _first_diff(parts[1], code[1])
            elif len(parts) == 3:
                what = 'outcome/contents: model %s / code %s' % (parts[0][:120], out[:120])
            else:
                what = 'driver: ' + model[:200]
            ctx.disagree(op[0], {'dev': dev, 'op': op, 'shipped': shipped}, what, out[:200])
    return out, trace


# ---- histories: several operations on ONE Ipmi object against ONE device ------------------------
#
# A history is a device plus a list of steps {'op': [...], 'faults': [[k, 'c'|'s', v], ...]}.  All
# steps run on the same Ipmi object and the same device; before each step the device's fault plan
# is replaced by the step's own (request indices count from the step's first request).  Every step
# is judged on its own by `judge` against the contents the device holds when the step starts, and
# compared with the Lean model started from that device (the model has no state between calls, so
# "same as on a fresh object" is what the comparison demands).

def _frus_of_dump(dump):
    if dump == '-':
        return []
    return [(int(t.split(':')[0]), t.split(':')[1]) for t in dump.split(' ')]


def run_history(drv, dev, steps, shipped=False, compare=False):
    """-> per step (device description at the start of the step, outcome, trace, dump, model line)"""
    device = dev10.LeanDevice(drv)
    device.load(dev_line(dev))
    iface = dev10.FakeInterface(device, cap=0)
    ipmi = dev10.make_ipmi(iface)
    old = _patch_parsers()
    res = []
    last_dump = None
    planned = False
    try:
        for st in steps:
            if st.get('faults') or planned:
                device.faults(st.get('faults') or [])
                planned = bool(st.get('faults'))
            device.snap()
            cur = dict(dev, frus=_frus_of_dump(last_dump)) if last_dump is not None else \
                dict(dev, frus=[(int(i), h) for i, h in dev['frus']])
            start = len(iface.trace)
            iface.cap = start + 6 * sum(len(h) // 2 for _, h in cur['frus']) + 400
            try:
                out = real_op(ipmi, [str(x) for x in st['op']])
            except dev10.Hang as e:
                out = dev10.outcome_tag(e)
            except lean.LeanError:
                raise
            except Exception as e:  # noqa
                out = dev10.outcome_tag(e)
            model = drv.ask('run %d %s' % (int(shipped), ' '.join(str(x) for x in st['op']))) if compare else None
            last_dump = device.dump()
            res.append((cur, out, iface.trace[start:], last_dump, model))
    finally:
        _unpatch_parsers(old)
    return res


def _judge_step(ctx_cls, dev, steps, k, r):
    """violations of step k (fresh collector)"""
    c2 = ctx_cls('C10', 'quick', 0)
    cur, out, trace, dump, _ = r
    judge(c2, cur, [str(x) for x in steps[k]['op']], out, trace, dump,
          case={'dev': dev, 'steps': steps, 'step': k}, faults=steps[k].get('faults') or ())
    return c2.violations


def _history_shows(ctx_cls, drv, dev, steps, sig):
    """does the LAST step of the history violate `sig`?"""
    res = run_history(drv, dev, steps)
    return any(v['signature'] == sig for v in _judge_step(ctx_cls, dev, steps, len(steps) - 1, res[-1]))


def shrink_history(ctx_cls, drv, dev, steps, k, sig):
    """drop the steps after k and every earlier step the violation does not need"""
    steps = list(steps[:k + 1])
    i = 0
    while i < len(steps) - 1:
        cand = steps[:i] + steps[i + 1:]
        if _history_shows(ctx_cls, drv, dev, cand, sig):
            steps = cand
        else:
            i += 1
    return steps


def history_case(ctx, drv, dev, steps, shipped, tag, compare=True):
    res = run_history(drv, dev, steps, shipped, compare=compare)
    ctx.count('history:' + tag)
    ctx.count('history-steps', len(steps))
    for k, r in enumerate(res):
        cur, out, trace, dump, model = r
        op = [str(x) for x in steps[k]['op']]
        ctx.case(('history', dev_line(dev), json.dumps(steps[:k + 1])), nontrivial=k >= 1)
        ctx.count('history-op:' + op[0] + ('+fault' if _effective(steps[k].get('faults') or (), trace) else ''))
        ctx.count('history-outcome:' + out.split(' ')[0].split(':')[0])
        for v in _judge_step(ctx.__class__, dev, steps, k, r):
            sig = v['signature']
            if k > 0 and not _history_shows(ctx.__class__, drv, cur, [steps[k]], sig):
                # the same operation on a fresh object against the same device contents is fine
                small = shrink_history(ctx.__class__, drv, dev, steps, k, sig)
                v['signature'] = sig + ':after-earlier-operations'
                v['what'] += ' - on an Ipmi object that performed other operations before (the same operation on a ' \
                             'fresh object against the same device contents is served correctly)'
                v['case'] = {'dev': dev, 'steps': small, 'step': len(small) - 1}
            else:
                v['case'] = {'dev': cur, 'steps': [steps[k]], 'step': 0}
            ctx.violate(v['signature'], v['what'], v['case'], expected=v['expected'], observed=v['observed'])
        if not compare:
            continue
        parts = model.split(' | ')
        code = [out, dev10.show_trace(trace), dump]
        if parts != code:
            if len(parts) == 3 and parts[0] == out and parts[2] == dump:
                what = 'trace: ' + _first_diff(parts[1], code[1])
            elif len(parts) == 3:
                what = 'outcome/contents: model %s / code %s' % (parts[0][:120], out[:120])
            else:
                what = 'driver: ' + model[:200]
            ctx.disagree('history step %d (%s)' % (k, op[0]), {'dev': dev, 'steps': steps, 'step': k, 'shipped': shipped},
                         what, out[:200])
    return res


BAD_COUNTS = [1, 2, 3, 5, 8, 16, 31, 32, 33, 64]
FAULT_CODES = [0xC3, 0xC0, 0xFF, 0xC9, 0xCA, 0xD5]


def _bad_read(rng, fid, n):
    """a range that is not inside an area of n bytes (the device refuses it at every size)"""
    c = rng.choice(BAD_COUNTS)
    r = rng.random()
    if r < 0.4:
        off = n
    elif r < 0.8:
        off = max(0, n - rng.randrange(0, c))
        if off + c <= n:
            off = n
    else:
        off = n + rng.randrange(1, 40)
    return ['read', str(fid), str(off), str(c)]


def _prior_op(rng, dev):
    """an operation that leaves the device contents alone (incl. reads that must fail)"""
    store = _store(dev)
    fid = _pick_id(rng, dev)
    n = len(store[fid])
    r = rng.random()
    if r < 0.45:
        return _bad_read(rng, fid, n)
    if r < 0.55:
        off, cnt = _range(rng, n)
        return ['read', str(fid), str(off), str(cnt)]
    if r < 0.6:
        # a half-specified range: a count alone / an offset alone
        return ['read', str(fid), 'n', str(rng.randrange(0, min(n, 40) + 1))] if rng.random() < 0.5 else \
            ['read', str(fid), str(max(0, n - rng.randrange(0, 40))), 'n']
    if r < 0.7 and n <= 300:
        return ['full', str(fid)]
    if r < 0.8:
        return ['read', str(rng.choice([i for i in range(256) if i not in store])), '0', '8']
    if r < 0.9:
        return ['hdr', str(fid)]
    return ['inv', str(fid)]


def _chunk_lens(n, wl):
    return [min(wl, n - i) for i in range(0, n, wl)]


def _zero_sum(rng, m, dmax):
    """m non-zero deviations that sum to zero, |d| <= dmax where possible"""
    dmax = max(1, dmax)
    if m == 2:
        d = rng.randrange(1, dmax + 1)
        return [-d, d]
    if m == 3:
        a, b = rng.randrange(1, dmax + 1), rng.randrange(1, dmax + 1)
        return [-(a + b), a, b]
    a, b = rng.randrange(1, dmax + 1), rng.randrange(1, dmax + 1)
    return rng.choice([[-a, a, -b, b], [-(a + b + 1), a, b, 1], [-a, -b, a, b]])


SHAPES = ['pair-short-first-adjacent', 'pair-long-first-adjacent', 'pair-short-first-apart', 'pair-long-first-apart',
          'triple', 'quad', 'not-cancelling']


def multi_ack_plan(rng, lens, shape=None):
    """A fault plan that mis-acknowledges 2..4 chunks of ONE write whose chunk lengths are `lens` (>= 2 chunks):
    deviations that sum to ZERO (a total over the whole write cannot see them) - pairs short-then-long and
    long-then-short, adjacent or as far apart as the write allows, triples, quadruples - or a few that do not.
    A count below the chunk is a fault `a` (chunk stored, smaller count acknowledged) or `s` (only that many bytes
    stored and acknowledged); a count above it is a fault `a`.  -> (plan, shape) or None."""
    nch = len(lens)
    if nch < 2:
        return None
    shape = shape or rng.choice(SHAPES)
    for _ in range(40):
        if shape.startswith('pair'):
            m = 2
            i = rng.randrange(nch - 1)
            idx = [i, i + 1] if shape.endswith('adjacent') else [0, nch - 1] if rng.random() < 0.6 else \
                sorted(rng.sample(range(nch), 2))
            deltas = _zero_sum(rng, 2, rng.choice([1, 1, 2, 4, min(lens)]))
            if 'long-first' in shape:
                deltas.reverse()
        else:
            m = min(nch, 3 if shape == 'triple' else 4 if shape == 'quad' else rng.randrange(2, 5))
            r = rng.random()
            if r < 0.3:
                i = rng.randrange(nch - m + 1)
                idx = list(range(i, i + m))
            elif r < 0.6:
                idx = [0] + sorted(rng.sample(range(1, nch - 1), m - 2)) + [nch - 1]      # first .. last chunk
            else:
                idx = sorted(rng.sample(range(nch), m))
            m = len(idx)
            if shape == 'not-cancelling':
                deltas = [rng.choice([-2, -1, 1, 2, 3]) for _ in idx]
                if sum(deltas) == 0:
                    deltas[-1] += 1 if deltas[-1] != -1 else 2
            else:
                deltas = _zero_sum(rng, m, rng.choice([1, 2, 3]))
                rng.shuffle(deltas)
        if len(idx) != len(deltas) or any(d == 0 for d in deltas):
            continue
        if all(0 <= lens[i] + d <= 255 for i, d in zip(idx, deltas)):
            plan = []
            for i, d in zip(idx, deltas):
                t = 's' if d < 0 and rng.random() < 0.35 else 'a'
                plan.append([i, t, lens[i] + d])
            return plan, shape
    return None


def _stored_before_error(plan, lens):
    """bytes of the write that are in the device when the FIRST fault of the plan ends it"""
    k, t, v = min(plan)
    return sum(lens[:k]) + (0 if t == 'c' else v if t == 's' else lens[k])


def _faulted_write(rng, fid, off, data, wl):
    """(step with a fault at chunk k, step that resumes the write behind what was stored)"""
    nch = max(1, (len(data) + wl - 1) // wl)
    if nch >= 2 and rng.random() < 0.35:
        # several chunks of the one write are mis-acknowledged (mostly so that the deviations cancel)
        lens = _chunk_lens(len(data), wl)
        mp = multi_ack_plan(rng, lens)
        if mp is not None:
            j = _stored_before_error(mp[0], lens)
            return ({'op': ['write', str(fid), str(off), lean.hexs(data), str(wl)], 'faults': mp[0]},
                    {'op': ['write', str(fid), str(off + j), lean.hexs(data[j:]), str(wl)]})
    k = rng.randrange(nch)
    clen = min(wl, len(data) - k * wl)
    r = rng.random()
    if r < 0.45:
        fault, stored = [k, 'c', rng.choice(FAULT_CODES)], 0
    elif r < 0.75:
        stored = rng.choice([0, 1, clen // 2, max(clen - 1, 0)])
        fault = [k, 's', stored]
    else:
        # the chunk is stored as sent, the acknowledge names another count: one more, a few more, FFh, one less
        ack = rng.choice([clen + 1, clen + 1, clen + rng.randrange(2, 9), 255, max(clen - 1, 0)])
        if ack % 256 == clen:
            ack = clen + 1
        fault, stored = [k, 'a', ack], clen
    j = k * wl + stored
    return ({'op': ['write', str(fid), str(off), lean.hexs(data), str(wl)], 'faults': [fault]},
            {'op': ['write', str(fid), str(off + j), lean.hexs(data[j:]), str(wl)]})


WRITE_LENGTHS = [1, 2, 5, 15, 16, 17, 40, 255]


def _pick_wl(rng, default=16):
    """a value for the public attribute Fru.write_length: the named boundary sizes, the source's default, random"""
    r = rng.random()
    if r < 0.55:
        return rng.choice(WRITE_LENGTHS)
    if r < 0.7:
        return default or 16
    return rng.randrange(1, 256)


def gen_history(rng, wl=16):
    default_wl = wl
    images = rng.random() < 0.45
    dev = gen_device(rng, sizes=[8, 16, 40, 64, 100, 300, 600], images=images)
    r = rng.random()
    if r < 0.3:
        dev['limit'] = rng.choice([2, 3, 4, 255, 255])
    dev['wmax'] = rng.choice([16, 32, 255])
    view = dict((i, bytearray(c)) for i, c in _store(dev).items())      # what the generator believes is stored
    steps = []
    want = rng.randrange(2, 7)
    while len(steps) < want:
        fid = _pick_id(rng, dev)
        n = len(view[fid])
        r = rng.random()
        if r < 0.17:
            off, cnt = _range(rng, n)
            steps.append({'op': ['read', str(fid), str(off), str(cnt)]})
        elif r < 0.2:
            steps.append({'op': ['read', str(fid), 'n', str(rng.randrange(0, min(n, 40) + 1))] if rng.random() < 0.5 else
                          ['read', str(fid), str(max(0, n - rng.randrange(0, 40))), 'n']})
        elif r < 0.28:
            steps.append({'op': ['full', str(fid)]})
        elif r < 0.45:
            steps.append({'op': _bad_read(rng, fid, n)})
        elif r < 0.5:
            steps.append({'op': ['read', str(rng.choice([i for i in range(256) if i not in view])), '0', '8']})
        elif r < 0.78:
            if images and rng.random() < 0.7:
                data = fru_image(rng, [a for a in 'cbpm' if rng.random() < 0.6])
                off = 0
            else:
                ln = min(rng.choice([1, 15, 16, 17, 31, 32, 33, 48, 64]), n)
                data = _blob(rng, ln)
                off = rng.choice([0, n - ln, rng.randrange(0, n - ln + 1)])
            if off + len(data) > n or not data:
                continue
            wl = _pick_wl(rng, default_wl)
            if wl > dev['wmax'] and rng.random() < 0.85:
                wl = rng.choice([x for x in WRITE_LENGTHS if x <= dev['wmax']])
            if rng.random() < 0.5:
                a, b = _faulted_write(rng, fid, off, data, wl)
                steps += [a, b]
            else:
                steps.append({'op': ['write', str(fid), str(off), lean.hexs(data), str(wl)]})
            view[fid][off:off + len(data)] = data
        else:
            q = rng.random()
            op = ['hdr', str(fid)] if q < 0.15 else ['area', str(fid), rng.choice('cbp')] if q < 0.4 else \
                ['mr', str(fid)] if q < 0.55 else ['inv', str(fid)]
            steps.append({'op': op})
    return dev, steps


def directed_histories(rng, wl=16):
    """(tag, device, steps): the shapes earlier seeded changes needed"""
    out = []
    # a read the device refuses at every size (last size tried odd / even), then valid reads
    for cnt in (5, 8, 32, 33, 1, 2):
        for limit in (255, 32, 2):
            n = rng.choice([300, 512, 600])
            dev = {'limit': limit, 'cc': rng.choice(REJECT), 'short': False, 'wmax': 16,
                   'frus': [(0, lean.hexs(_blob(rng, n))), (3, lean.hexs(_blob(rng, n)))]}
            fid, other = rng.choice([(0, 3), (3, 0), (3, 3)])
            out.append(('refused-read-then-reads', dev, [
                {'op': ['read', str(fid), str(n - rng.randrange(0, cnt)), str(cnt)]},
                {'op': ['read', str(other), str(rng.randrange(0, 40)), '8']},
                {'op': ['full', str(other)]}]))
    # image A read, image B written (complete / faulted at chunk k >= 1 and resumed / behind the header), read again
    default_wl = wl
    for mode in ('complete', 'faulted', 'faulted', 'tail-first'):
        for first in ('inv', 'hdr', 'area'):
            wl = rng.choice([default_wl, default_wl, 5, 15, 17, 40, 255, 1])
            a = fru_image(rng, rng.choice(['cbpm', 'bp', 'cm', 'bpm']))
            b = fru_image(rng, rng.choice(['p', 'cb', 'pm', 'bm', 'cbpm']))
            while mode == 'faulted' and len(b) <= wl:      # a fault at chunk k >= 1 needs two chunks
                b = fru_image(rng, rng.choice(['cb', 'pm', 'bm', 'cbpm']))
            n = max(len(a), len(b)) + rng.choice([0, 8, 40])
            fid = rng.choice([0, 5, 255])
            oth = 9
            dev = {'limit': rng.choice([32, 255, 16]), 'cc': rng.choice(REJECT), 'short': False, 'wmax': max(16, wl),
                   'frus': [(fid, lean.hexs(a + _blob(rng, n - len(a)))), (oth, lean.hexs(fru_image(rng, 'cbp')))]}
            steps = [{'op': [first, str(fid)] + (['b' if a[3] else 'p' if a[4] else 'c'] if first == 'area' else [])},
                     {'op': ['inv', str(oth)]}]
            w = ['write', str(fid), '0', lean.hexs(b), str(wl)]
            if mode == 'complete':
                steps.append({'op': w})
            elif mode == 'faulted':
                nch = (len(b) + wl - 1) // wl
                k = rng.randrange(1, nch)
                flt = [k, 'c', rng.choice(FAULT_CODES)] if rng.random() < 0.5 else [k, 's', rng.choice([0, 3])]
                j = k * wl + (flt[2] if flt[1] == 's' else 0)
                steps.append({'op': w, 'faults': [flt]})
                steps.append({'op': ['write', str(fid), str(j), lean.hexs(b[j:]), str(wl)]})
            else:
                steps.append({'op': ['write', str(fid), '8', lean.hexs(b[8:]), str(wl)]})
                steps.append({'op': ['write', str(fid), '0', lean.hexs(b[:8]), str(rng.choice([wl, 3, 8]))]})
            steps.append({'op': ['inv', str(fid)]})
            steps.append({'op': ['mr', str(fid)]})
            out.append(('image-replaced-' + mode, dev, steps))
    # every named chunk size: a complete write, then the same write with chunk k acknowledged with MORE / fewer
    # bytes than it carried (the chunk itself is stored), resumed behind it, read back
    for wl in WRITE_LENGTHS + [default_wl, rng.randrange(1, 256)]:
        for kind in ('larger', 'larger', 'smaller'):
            n = rng.choice([64, 100, 300])
            ln = min(n, rng.choice([wl, wl + 1, 2 * wl, 2 * wl + 1, 3 * wl - 1, 40]))
            nch = (ln + wl - 1) // wl
            k = rng.randrange(nch)
            clen = min(wl, ln - k * wl)
            ack = rng.choice([clen + 1, clen + 2, 255]) if kind == 'larger' else clen - 1
            if ack % 256 == clen:
                ack = clen + 1
            fid = rng.choice([0, 4, 255])
            off = rng.choice([0, n - ln, rng.randrange(0, n - ln + 1)])
            data = _blob(rng, ln)
            dev = {'limit': 32, 'cc': rng.choice(REJECT), 'short': False, 'wmax': 255,
                   'frus': [(fid, lean.hexs(_blob(rng, n))), (9, lean.hexs(_blob(rng, 40)))]}
            j = k * wl + clen
            steps = [{'op': ['write', str(fid), str(off), lean.hexs(data), str(wl)]},
                     {'op': ['write', str(fid), str(off), lean.hexs(_blob(rng, ln)), str(wl)], 'faults': [[k, 'a', ack]]},
                     {'op': ['read', str(fid), str(off), str(ln)]}]
            out.append(('write-acknowledge-' + kind, dev, steps))
    # every named chunk size x every shape of SEVERAL mis-acknowledged chunks in one write (deviations that cancel:
    # short then long, long then short, adjacent, far apart, triples, quadruples; some that do not cancel):
    # complete write - same range written again under the plan - resumed behind what was stored - read back
    for wl in WRITE_LENGTHS + [default_wl, rng.randrange(1, 256)]:
        for shape in SHAPES:
            nch = rng.choice([2, 3, 4, 5, 6]) if wl <= 40 else rng.choice([2, 3])
            ln = nch * wl - rng.choice([0, 0, 1, wl // 2, wl - 1])
            lens = _chunk_lens(ln, wl)
            mp = multi_ack_plan(rng, lens, shape)
            if mp is None:
                continue
            n = ln + rng.choice([0, 7, 40])
            fid = rng.choice([0, 4, 255])
            off = rng.choice([0, n - ln, rng.randrange(0, n - ln + 1)])
            data = _blob(rng, ln)
            dev = {'limit': 32, 'cc': rng.choice(REJECT), 'short': False, 'wmax': 255,
                   'frus': [(fid, lean.hexs(_blob(rng, n))), (9, lean.hexs(_blob(rng, 40)))]}
            j = _stored_before_error(mp[0], lens)
            steps = [{'op': ['write', str(fid), str(off), lean.hexs(_blob(rng, ln)), str(wl)]},
                     {'op': ['write', str(fid), str(off), lean.hexs(data), str(wl)], 'faults': mp[0]},
                     {'op': ['write', str(fid), str(off + j), lean.hexs(data[j:]), str(wl)]},
                     {'op': ['read', str(fid), str(off), str(ln)]}]
            out.append(('write-several-acknowledges-' + shape, dev, steps))
    return out


# ---- generators --------------------------------------------------------------------------

SIZES = [0, 1, 2, 3, 7, 8, 9, 15, 16, 17, 31, 32, 33, 34, 63, 64, 65, 100, 255, 256, 257, 1000]
LIMITS = [2, 2, 3, 4, 5, 6, 7, 8, 15, 16, 17, 22, 23, 30, 31, 32, 33, 34, 64, 128, 254, 255]


def _blob(rng, n):
    return bytes(bytearray(rng.randrange(256) for _ in range(n)))


def gen_device(rng, sizes=None, images=False, big=None):
    ids = [0] + rng.sample(range(1, 256), rng.randrange(1, 4))
    if rng.random() < 0.25 and 255 not in ids:
        ids[-1] = 255          # (ids stay distinct: a device holds one area per FRU id)
    rng.shuffle(ids)
    frus = []
    for i in ids:
        if images:
            areas = [a for a in 'cbpm' if rng.random() < 0.7]
            c = fru_image(rng, areas)
        elif big is not None and i == ids[0]:
            c = _blob(rng, big)
        else:
            c = _blob(rng, rng.choice(sizes or SIZES))
        frus.append((i, lean.hexs(c)))
    r = rng.random()
    short = r < 0.15
    limit = rng.choice(LIMITS) if rng.random() < 0.7 else rng.randrange(2, 256)
    if short and rng.random() < 0.3:
        limit = 1
    return {'limit': limit, 'cc': rng.choice(REJECT), 'short': short,
            'wmax': rng.choice([16, 16, 17, 32, 255]), 'frus': frus}


def _pick_id(rng, dev):
    return int(rng.choice(dev['frus'])[0])


def _range(rng, n):
    """Boundary-biased (offset, count) inside an area of n bytes."""
    if n == 0:
        return 0, 0
    r = rng.random()
    if r < 0.2:
        return 0, n
    if r < 0.35:
        off = rng.randrange(n)
        return off, n - off
    if r < 0.5:
        cnt = rng.choice([1, 2, 5, 8, 31, 32, 33])
        cnt = min(cnt, n)
        return rng.choice([0, n - cnt]), cnt
    off = rng.randrange(n)
    return off, rng.randrange(0, n - off + 1)


def run(ctx):
    drv = ctx.driver('drv_c10')
    rng = ctx.rng('c10')
    mr_shipped = probe_shipped(drv)
    len_chk = probe_len_chk(drv)
    range_fix = probe_range_fix(drv)
    guards = dict((k, probe_abs_guard(drv, k)) for k in 'cbpm')
    # model flags of `run`: bit 0 = get_fru_multirecord_area as shipped, bit 1 = _read_fru_area rejects area length 0,
    # bit 2 = read_fru_data honours a count / an offset given alone, bits 3..6 = the chassis / board / product /
    # multirecord getter returns None for an area the header declares absent
    shipped = (1 if mr_shipped else 0) | (2 if len_chk else 0) | (4 if range_fix else 0) | \
        sum(8 << i for i, k in enumerate('cbpm') if guards[k])
    ctx.extra['model_variant'] = ('get_fru_multirecord_area as shipped (inner reads use FRU 0)' if mr_shipped
                                  else 'get_fru_multirecord_area intended') + \
        ('; _read_fru_area rejects an area length byte 0 (fixes/C15-2.diff)' if len_chk
         else '; _read_fru_area as shipped (area length byte 0: reads nothing, parser gets b\'\')') + \
        ('; read_fru_data honours a count / an offset given alone (fixes/C10-2.diff)' if range_fix
         else '; read_fru_data as pinned (whole inventory whenever offset is None, offset alone: TypeError)') + \
        '; getters returning None for an absent area: %s' % (
            ', '.join(GETTER[k] for k in 'cbpm' if guards[k]) or 'none (as pinned: the None offset is passed on)')
    quick = ctx.tier == 'quick'
    default_wl = (_consts or {}).get('fru', {}).get('writeLen', 16) or 16
    nsample = 0
    hrng = ctx.rng('c10-history')

    def go(dev, op, tag):
        out, trace = one_case(ctx, drv, dev, op, shipped)
        if tag != 'large' and (len(trace) <= 30 or hrng.random() < (0.15 if quick else 0.3)):
            # the same case as SECOND operation of an Ipmi object that did something else before
            history_case(ctx, drv, dev, [{'op': _prior_op(hrng, dev)}, {'op': op}], shipped, 'single-case-as-second-operation')
        ctx.count('op:' + op[0])
        ctx.count('gen:' + tag)
        ctx.count('limit:%s' % ('1' if dev['limit'] == 1 else '2' if dev['limit'] == 2 else '3-31' if dev['limit'] < 32
                                else '32' if dev['limit'] == 32 else '33-255'))
        ctx.count('reject:short' if dev['short'] else 'reject:%#x' % dev['cc'])
        ctx.count('outcome:' + out.split(' ')[0].split(':')[0])
        ctx.count('exchanges', len(trace))
        if len(ctx.samples) < 6 and len(trace) >= 3 and len(trace) < 12:
            ctx.sample({'device': dev_line(dev)[:160], 'op': ' '.join(op)[:80], 'outcome': out[:80],
                        'trace': dev10.show_trace(trace)[:240]})

    def faulted(dev, op, lens, shape):
        """one write on a FRESH Ipmi object under a plan that mis-acknowledges several of its chunks
        (a one-step history: judged on the request trace, compared with the Lean model under the same plan)"""
        mp = multi_ack_plan(rng, lens, shape)
        if mp is None:
            return
        res = history_case(ctx, drv, dev, [{'op': op, 'faults': mp[0]}], shipped, 'write-several-acknowledges')
        ctx.count('gen:write-several-acknowledges')
        ctx.count('ack-plan:' + mp[1])
        ctx.count('ack-plan-faults:%d' % len(mp[0]))
        ctx.count('ack-plan-sum:%s' % ('zero' if sum(v - lens[k] for k, _, v in mp[0]) == 0 else 'non-zero'))
        ctx.count('ack-plan-first-deviation:%s' % ('shorter' if min(mp[0])[2] < lens[min(mp[0])[0]] else 'longer'))
        ctx.count('ack-plan-outcome:' + res[0][1].split(' ')[0].split(':')[0])

    # 0. directed, first (smallest replays): a count alone / an offset alone on a 16-byte inventory
    arng = ctx.rng('c10-absent')
    bare = {'limit': 32, 'cc': 0xCA, 'short': False, 'wmax': 16, 'frus': [(0, lean.hexs(_blob(arng, 16))), (3, lean.hexs(_BARE))]}
    go(bare, ['read', '3', 'n', '8'], 'half-range')
    go(bare, ['read', '3', '8', 'n'], 'half-range')
    # 1. directed: every limit 2..40 and a few above, each rejection code, clamped tails 1..5
    lims = list(range(2, 41)) + [63, 64, 65, 127, 128, 254, 255]
    if not quick:
        lims = list(range(2, 256))
    for L in lims:
        for cc in REJECT:
            n = rng.choice([41, 70, 71, 99])
            dev = {'limit': L, 'cc': cc, 'short': False, 'wmax': 16,
                   'frus': [(0, lean.hexs(_blob(rng, n + 3))), (L % 255 + 1, lean.hexs(_blob(rng, n)))]}
            off = rng.randrange(0, 4)
            go(dev, ['read', str(L % 255 + 1), str(off), str(n - off)], 'limit-sweep')
    # 2. random ranges / full reads on small and boundary sizes
    for _ in range(350 if quick else 4000):
        dev = gen_device(rng)
        fid = _pick_id(rng, dev)
        n = len(_store(dev)[fid])
        if rng.random() < 0.3:
            go(dev, ['full', str(fid)], 'full')
        else:
            off, cnt = _range(rng, n)
            go(dev, ['read', str(fid), str(off), str(cnt)], 'range')
    # 2b. HALF-SPECIFIED RANGES of read_fru_data(offset=None, count=None, fru_id=0): a count given alone (that many
    #     bytes from the start), an offset given alone (from there to the end of the inventory area); boundary sizes,
    #     count 0, the whole area, and a few that leave the area (compared with the model only)
    for _ in range(110 if quick else 1500):
        dev = gen_device(arng)
        fid = _pick_id(arng, dev)
        n = len(_store(dev)[fid])
        r = arng.random()
        if r < 0.45:
            cnt = min(arng.choice([0, 1, 2, 5, 8, 31, 32, 33, 64, n, n - 1 if n else 0, arng.randrange(0, n + 1)]), n)
            op = ['read', str(fid), 'n', str(cnt)]
        elif r < 0.9:
            off = min(arng.choice([0, 0, 1, 7, 8, 32, n, n - 1 if n else 0, arng.randrange(0, n + 1)]), n)
            op = ['read', str(fid), str(off), 'n']
        elif r < 0.95:
            op = ['read', str(fid), 'n', str(n + arng.randrange(1, 40))]
        else:
            op = ['read', str(fid), str(n + arng.randrange(1, 40)), 'n']
        go(dev, op, 'half-range')
        ctx.count('half-range:%s' % ('count-only' if op[2] == 'n' else 'offset-only'))
    # 3. large areas (boundary of the 16-bit offset)
    #    (quick: the full read is done on the 65536-byte device - it reports FFFFh like the 65535-byte one, which
    #    gets its ranges, an offset alone and writes in 3b)
    for big in ([4096, 65536] if quick else [4096, 32768, 65534, 65535, 65535, 65536]):
        dev = gen_device(rng, sizes=[0, 9, 300], big=big)
        dev['limit'] = rng.choice([32, 33, 64, 255]) if quick else rng.choice([8, 31, 32, 255])
        fid = int(dev['frus'][0][0])
        go(dev, ['full', str(fid)], 'large')
        go(dev, ['read', str(fid), str(big - 40), '40'], 'large')
    # 3b. THE END OF THE 16-BIT OFFSET SPACE ("contents up to 64 KiB, all (offset, count) ranges"): devices holding
    #     exactly 65536 / 65535 / 65534 bytes, explicit ranges that touch the last byte(s) - (n-1, 1), (n-2, 2),
    #     (n-16, 16), ... a range longer than one request, offsets FF00h..FFFFh with counts that stay inside - a full
    #     read, an offset alone, writes whose last byte lands at the end; a range that leaves the 64 KiB (model only)
    erng = ctx.rng('c10-64k')
    for n in ([65536, 65535, 65534] if quick else [65536, 65535, 65534, 65536, 65533, 65280]):
        ends = [(n - 1, 1), (n - 2, 2), (n - 16, 16), (n - 7, 7), (n - 32, 32), (n - 33, 33), (n - 255, 255),
                (n - 256, 256), (0xFC00, n - 0xFC00), (0xFF00, 16), (0xFFF0, min(15, n - 0xFFF0)), (n - 2, 1),
                (0xFFFD, 1), (0xFF00 + erng.randrange(0, 0xF0), erng.randrange(1, 16))]
        ends = [(o, c) for o, c in ends if o >= 0 and c >= 1 and o + c <= n]
        if n != 65536 and quick:
            ends = ends[:4] + [erng.choice(ends[4:])]
        for lim, cc, short in ((255, 0xCA, False), (16, 0xC8, False), (2, 0xC9, False), (5, 0xCA, False), (31, 0xCA, True)):
            dev = gen_device(erng, sizes=[0, 9, 300], big=n)
            dev.update(limit=lim, cc=cc, short=short, wmax=255)
            fid = int(dev['frus'][0][0])
            picks = ends if (lim == 255 or not quick) else \
                [ends[0], erng.choice(ends[1:4]), erng.choice([e for e in ends[3:] if e[1] <= 64 or lim > 5])]
            for off, cnt in picks:
                go(dev, ['read', str(fid), str(off), str(cnt)], 'large')
                ctx.count('64k:range-ends-at:%s' % ('10000h' if off + cnt == 65536 else 'FFFFh' if off + cnt == 65535
                                                    else 'below'))
            ctx.count('64k:device-bytes:%d' % n)
            if lim == 255:
                if not quick:
                    go(dev, ['full', str(fid)], 'large')
                go(dev, ['read', str(fid), str(n - 5), 'n'], 'large')
                go(dev, ['read', str(fid), str(n - 1), '2'], 'large')          # leaves the contents: model only
                for ln, wl in ((1, 16), (16, 16), (17, 16), (40, 255), (33, 5)):
                    go(dev, ['write', str(fid), str(n - ln), lean.hexs(_blob(erng, ln)), str(wl)], 'large')
                    ctx.count('64k:write-ends-at:%s' % ('10000h' if n == 65536 else 'below'))
    # 4. writes: aligned / unaligned chunks, short acknowledges
    for _ in range(120 if quick else 1500):
        dev = gen_device(rng, sizes=[16, 17, 40, 64, 100, 300])
        fid = _pick_id(rng, dev)
        n = len(_store(dev)[fid])
        ln = rng.choice([0, 1, 15, 16, 17, 31, 32, 33, 48, n])
        ln = min(ln, n)
        off = rng.choice([0, n - ln, rng.randrange(0, n - ln + 1)])
        if rng.random() < 0.2:
            dev['wmax'] = rng.choice([0, 1, 8, 15])
        # the chunk size: the caller's ipmi.write_length (the model takes the same value)
        wl = _pick_wl(rng, default_wl)
        if rng.random() < 0.5:
            ln = min(n, rng.choice([0, 1, wl - 1, wl, wl + 1, 2 * wl - 1, 2 * wl, 2 * wl + 1, 48, n]))
            off = rng.choice([0, n - ln, rng.randrange(0, n - ln + 1)])
        if dev['wmax'] < wl and rng.random() < 0.75:
            dev['wmax'] = rng.choice([wl, wl, wl + 1, 255])
        r = rng.random()
        if r < 0.03:
            wl = 0                  # outside the quantifier: ValueError, no request (compared with the model only)
        elif r < 0.06:
            wl = rng.choice([256, 257, 300])
        wdata = _blob(rng, ln)
        go(dev, ['write', str(fid), str(off), lean.hexs(wdata), str(wl)], 'write')
        ctx.count('write_length:%s' % (wl if wl in WRITE_LENGTHS or wl == 0 else '3-14' if wl < 15 else '18-254' if wl < 255 else '>255'))
        if 1 <= wl <= 255 and ln > wl and rng.random() < 0.6:
            # the same write against the same device, several of its chunks mis-acknowledged
            faulted(dict(dev, wmax=255), ['write', str(fid), str(off), lean.hexs(wdata), str(wl)], _chunk_lens(ln, wl), None)
    # 4b. directed: every named chunk size x lengths around its multiples (default-sized object apart from write_length)
    for wl in WRITE_LENGTHS + ([] if quick else list(range(1, 256))):
        for ln in sorted(set([1, wl - 1, wl, wl + 1, 2 * wl, 2 * wl + 1, 3 * wl - 1]) - set([0])):
            n = max(ln + rng.choice([0, 3, 20]), 8)
            if n > 2000:
                continue
            fid = rng.choice([0, 3, 255])
            dev = {'limit': 32, 'cc': rng.choice(REJECT), 'short': False, 'wmax': rng.choice([wl, 255]),
                   'frus': [(fid, lean.hexs(_blob(rng, n))), (8, lean.hexs(_blob(rng, 24)))]}
            go(dev, ['write', str(fid), str(rng.choice([0, n - ln])), lean.hexs(_blob(rng, ln)), str(wl)], 'write-chunk-size')
            ctx.count('write_length:%s' % (wl if wl in WRITE_LENGTHS else '3-14' if wl < 15 else '18-254'))
    # 4c. directed: every named chunk size (and the default, random ones; all 1..255 in the thorough tier) x every
    #     shape of 2..4 mis-acknowledged chunks in ONE write on a fresh object (SHAPES: deviations that cancel -
    #     short/long first, adjacent/apart, triples, quadruples - and some that do not), last chunk full or short
    for wl in WRITE_LENGTHS + [default_wl, rng.randrange(1, 256), rng.randrange(1, 256)] + ([] if quick else list(range(1, 256))):
        for shape in SHAPES:
            nch = rng.choice([2, 3, 4, 5, 6, 8]) if wl <= 40 else rng.choice([2, 3])
            ln = nch * wl - rng.choice([0, 0, 1, wl // 2, wl - 1])
            n = ln + rng.choice([0, 3, 20])
            fid = rng.choice([0, 3, 255])
            dev = {'limit': 32, 'cc': rng.choice(REJECT), 'short': False, 'wmax': 255,
                   'frus': [(fid, lean.hexs(_blob(rng, n))), (8, lean.hexs(_blob(rng, 24)))]}
            faulted(dev, ['write', str(fid), str(rng.choice([0, n - ln])), lean.hexs(_blob(rng, ln)), str(wl)],
                    _chunk_lens(ln, wl), shape)
    # 5a. directed: an info area whose length byte is 00h (the _read_fru_area variant of the model; not judged)
    zimg = bytes([0x01, 0x00, 0x01, 0x02, 0x00, 0x00, 0x00, 0xfc,
                  0x01, 0x00, 0x17, 0xc0, 0xc0, 0xc1, 0x00, 0xa7,
                  0x01, 0x01, 0x00, 0x00, 0x00, 0x00, 0x00, 0xfe])
    for fid in (0, 6):
        zdev = {'limit': rng.choice([32, 8, 255]), 'cc': rng.choice(REJECT), 'short': False, 'wmax': 16,
                'frus': [(0, lean.hexs(zimg if fid == 0 else _blob(rng, 24))), (6, lean.hexs(zimg))][:1 if fid == 0 else 2]}
        for op in (['area', str(fid), 'c'], ['area', str(fid), 'b'], ['inv', str(fid)]):
            go(zdev, op, 'zero-length-area')
    # 5b. ABSENT AREAS, directed: every subset of {chassis, board, product, multirecord} present x internal use area
    #     declared or not x every getter (and header, whole inventory) - on an image whose common header says 00h for
    #     an area the getter has nothing to return and nothing to read beyond the header
    for rep in range(1 if quick else 8):
        for mask in range(16):
            areas = ''.join(a for i, a in enumerate('cbpm') if mask >> i & 1)
            for internal in (False, True):
                img = fru_image(arng, areas, internal=internal)
                fid = arng.choice([0, 1, 3, 77, 255])
                frus = [(fid, lean.hexs(img))]
                if fid != 0:
                    frus.insert(0, (0, lean.hexs(fru_image(arng, arng.choice(['cbpm', 'b', 'cm', ''])))))
                adev = {'limit': arng.choice([2, 3, 5, 8, 16, 32, 255]), 'cc': arng.choice(REJECT), 'short': False,
                        'wmax': 16, 'frus': frus}
                for op in (['area', str(fid), 'c'], ['area', str(fid), 'b'], ['area', str(fid), 'p'], ['mr', str(fid)],
                           ['inv', str(fid)], ['hdr', str(fid)]):
                    go(adev, op, 'absent-area-sweep')
                    which = op[2] if op[0] == 'area' else 'm' if op[0] == 'mr' else None
                    if which:
                        ctx.count('getter-on:%s' % ('present-area' if which in areas else 'absent-area'))
                ctx.count('areas-present:%d' % len(areas))
                ctx.count('internal-use-area:%s' % ('declared' if internal else 'none'))
    # 5. inventory images: header, each area, multirecord, whole inventory
    for _ in range(150 if quick else 1500):
        dev = gen_device(rng, images=True)
        fid = _pick_id(rng, dev)
        r = rng.random()
        if r < 0.15:
            op = ['hdr', str(fid)]
        elif r < 0.45:
            op = ['area', str(fid), rng.choice('cbp')]
        elif r < 0.7:
            op = ['mr', str(fid)]
        else:
            op = ['inv', str(fid)]
        go(dev, op, 'image')
    # 6. outside the property's premises (model must still mirror the code): unknown FRU id,
    #    range beyond the area, limit 1, count 0, ids >= 256
    for _ in range(60 if quick else 600):
        dev = gen_device(rng, sizes=[0, 5, 40, 64])
        fid = _pick_id(rng, dev)
        n = len(_store(dev)[fid])
        r = rng.random()
        if r < 0.25:
            missing = rng.choice([i for i in range(256) if i not in _store(dev)])
            op = ['read', str(missing), '0', '8']
        elif r < 0.5:
            op = ['read', str(fid), str(rng.randrange(0, n + 3)), str(rng.randrange(n + 1, n + 50))]
        elif r < 0.75:
            dev['limit'], dev['short'] = 1, False
            op = ['read', str(fid), '0', str(n)]
        elif r < 0.9:
            op = ['area', str(fid), rng.choice('cbp')]
        else:
            op = ['mr', str(fid)]
        go(dev, op, 'outside-premise')
        if ctx.time_left() < 20:
            ctx.notes.append('time budget reached in generator 6')
            break
    # 7. histories on one Ipmi object: directed shapes, then random sequences of 2..6 operations
    wl = (_consts or {}).get('fru', {}).get('writeLen', 16) or 16
    for rep in range(1 if quick else 6):
        for tag, dev, steps in directed_histories(hrng, wl):
            history_case(ctx, drv, dev, steps, shipped, tag)
    for _ in range(200 if quick else 5000):
        dev, steps = gen_history(hrng, wl)
        history_case(ctx, drv, dev, steps, shipped, 'random')
        if ctx.time_left() < 15:
            ctx.notes.append('time budget reached in generator 7 (histories)')
            break
    ctx.extra['constants'] = (_consts or {}).get('fru')


def search(ctx):
    """A tie broke (translator / theorem over the generated constants / correspondence) and `run`
    saw no violation: sweep the real code against the oracle where the loop constants matter -
    every limit 2..255 x rejection code x area tails - and writes of every length 0..70."""
    drv = ctx.driver('drv_c10')
    rng = ctx.rng('c10-search')
    before = len(ctx.violations)
    for L in range(2, 256):
        for cc in REJECT:
            for n in (1, 2, 3, 4, 5, 6, 7, 8, 9, 31, 32, 33, 34, 35, 36, 37, 66, 67):
                dev = {'limit': L, 'cc': cc, 'short': False, 'wmax': 16,
                       'frus': [(0, lean.hexs(_blob(rng, n + 1))), (9, lean.hexs(_blob(rng, n)))]}
                one_case(ctx, drv, dev, ['read', '9', '0', str(n)], False, compare=False)
                if len(ctx.violations) > before:
                    return
        if ctx.time_left() < 30:
            break
    for short_l in (1, 2, 3, 31, 32, 33):
        for n in range(0, 80):
            dev = {'limit': short_l, 'cc': 0xCA, 'short': True, 'wmax': 16,
                   'frus': [(0, lean.hexs(_blob(rng, n + 1))), (9, lean.hexs(_blob(rng, n)))]}
            one_case(ctx, drv, dev, ['full', '9'], False, compare=False)
            if len(ctx.violations) > before:
                return
    for n in range(0, 71):
        for wmax in (16, 255):
            dev = {'limit': 32, 'cc': 0xCA, 'short': False, 'wmax': wmax,
                   'frus': [(0, lean.hexs(_blob(rng, 90))), (9, lean.hexs(_blob(rng, 90)))]}
            one_case(ctx, drv, dev, ['write', '9', str(rng.randrange(0, 20)), lean.hexs(_blob(rng, n))], False,
                     compare=False)
            if len(ctx.violations) > before:
                return
    # several mis-acknowledged chunks in one write: every pair of chunks (both orders of short / long) and the
    # triples of 2..5-chunk writes for the named chunk sizes, then seeded random plans
    default_wl = (_consts or {}).get('fru', {}).get('writeLen', 16) or 16
    for wl in [default_wl] + WRITE_LENGTHS:
        for nch in (2, 3, 4, 5):
            if nch * wl > 1200:
                continue
            for tail in (0, 1):
                ln = nch * wl - (tail if wl > 1 else 0)
                lens = _chunk_lens(ln, wl)
                plans = []
                for i in range(nch):
                    for j in range(i + 1, nch):
                        for d in (1, 2):
                            for sgn in (-1, 1):
                                plans.append([[i, 'a', lens[i] + sgn * d], [j, 'a', lens[j] - sgn * d]])
                        plans.append([[i, 's', max(lens[i] - 1, 0)], [j, 'a', lens[j] + 1]])
                        for k in range(j + 1, nch):
                            plans.append([[i, 'a', lens[i] - 2], [j, 'a', lens[j] + 1], [k, 'a', lens[k] + 1]])
                            plans.append([[i, 'a', lens[i] + 1], [j, 'a', lens[j] + 1], [k, 'a', lens[k] - 2]])
                for plan in plans:
                    if not all(0 <= v <= 255 and v != lens[k] for k, _, v in plan):
                        continue
                    dev = {'limit': 32, 'cc': 0xCA, 'short': False, 'wmax': 255,
                           'frus': [(0, lean.hexs(_blob(rng, ln + 9))), (9, lean.hexs(_blob(rng, ln + 9)))]}
                    history_case(ctx, drv, dev, [{'op': ['write', '9', str(rng.randrange(0, 9)), lean.hexs(_blob(rng, ln)),
                                                         str(wl)], 'faults': plan}], False,
                                 'search-several-acknowledges', compare=False)
                    if len(ctx.violations) > before:
                        return
        if ctx.time_left() < 30:
            break
    for _ in range(400):
        wl = _pick_wl(rng, default_wl)
        nch = rng.choice([2, 3, 4, 6]) if wl <= 40 else 2
        ln = nch * wl - rng.choice([0, 1, wl // 2])
        mp = multi_ack_plan(rng, _chunk_lens(ln, wl))
        if mp is None:
            continue
        dev = {'limit': 32, 'cc': 0xCA, 'short': False, 'wmax': 255,
               'frus': [(0, lean.hexs(_blob(rng, ln + 9))), (9, lean.hexs(_blob(rng, ln + 9)))]}
        history_case(ctx, drv, dev, [{'op': ['write', '9', str(rng.randrange(0, 9)), lean.hexs(_blob(rng, ln)), str(wl)],
                                      'faults': mp[0]}], False, 'search-several-acknowledges', compare=False)
        if len(ctx.violations) > before:
            return
    for wl in range(1, 256):
        for n in sorted(set([1, wl - 1, wl, wl + 1, 2 * wl, 2 * wl + 1]) - set([0])):
            dev = {'limit': 32, 'cc': 0xCA, 'short': False, 'wmax': 255,
                   'frus': [(0, lean.hexs(_blob(rng, n + 9))), (9, lean.hexs(_blob(rng, n + 9)))]}
            one_case(ctx, drv, dev, ['write', '9', str(rng.randrange(0, 9)), lean.hexs(_blob(rng, n)), str(wl)], False,
                     compare=False)
            if len(ctx.violations) > before:
                return
        if ctx.time_left() < 15:
            break


def replay(ctx, v):
    case = v['case']
    dev = case['dev']
    dev['frus'] = [(int(i), h) for i, h in dev['frus']]
    drv = ctx.driver('drv_c10')
    global _consts
    if 'steps' in case:
        if _consts is None:
            try:
                _consts = loops10.extract_lenient()
            except Exception:  # noqa
                _consts = None
        steps = case['steps']
        print('device : %s' % dev_line(dev)[:300])
        print('history on ONE Ipmi object (%d operations; each judged against the contents at its start):' % len(steps))
        res = run_history(drv, dev, steps)
        bad = False
        for k, r in enumerate(res):
            cur, out, trace, dump, _ = r
            print(' step %d : %s%s' % (k, ' '.join(str(x) for x in steps[k]['op'])[:120],
                                       '   faults %s' % steps[k]['faults'] if steps[k].get('faults') else ''))
            print('   code  : %s' % out[:200])
            print('   trace : %s' % dev10.show_trace(trace)[:400])
            for x in _judge_step(ctx.__class__, dev, steps, k, r):
                bad = True
                print('   violated: %s' % x['what'][:300])
                print('     expected: %s' % (json.dumps(x['expected'])[:300]))
                print('     observed: %s' % (json.dumps(x['observed'])[:300]))
        return bad
    op = [str(x) for x in case['op']]
    if _consts is None:
        try:
            _consts = loops10.extract_lenient()
        except Exception:  # noqa
            _consts = None
    out, trace, dump = run_real(drv, dev, op)
    print('device : %s' % dev_line(dev)[:300])
    print('op     : %s' % ' '.join(op)[:200])
    print('code   : %s' % out[:300])
    print('trace  : %s' % dev10.show_trace(trace)[:600])
    c2 = ctx.__class__('C10', 'quick', 0)
    judge(c2, dev, op, out, trace, dump)
    for x in c2.violations:
        print('violated: %s' % x['what'])
        print('  expected: %s' % (json.dumps(x['expected'])[:300]))
        print('  observed: %s' % (json.dumps(x['observed'])[:300]))
    return any(x['signature'] == v['signature'] for x in c2.violations) or bool(c2.violations)
