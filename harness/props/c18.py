"""C18 — HPM.1 images parse faithfully; firmware uploads completely and in order."""
import hashlib
import os
import shutil

from ..lib import lean, repo
from ..sim import dev18, pristine
from ..translate import hpm as T

ID = 'C18'
TARGETS = ['PyIpmi.Props.C18', 'drv_c18']
LEVEL = 'proof'
RULE = ('PARSE: images built by an independent HPM.1 encoder (harness twin of Spec/HpmFormat.lean, cross-checked '
        'byte for byte against the Lean encoder on every image): 1..8 action records of types 0,1,2,3, firmware '
        'length 0..4096 (directed 0,1,21,22,23,4095,4096), OEM data 0..255 bytes (directed 0,1,2,254,255), minor '
        'revisions 0..99 and 0xFF, descriptions plain / NUL-padded / Latin-1 / with backslashes (valid, malformed, '
        'doubled, trailing escape), written to a scratch file and parsed by UpgradeImage; every attribute is compared '
        'with the view the specification demands and with the Lean model; plus a malformed stream (truncations, '
        'unknown record type, non-BCD minor) compared with the model only.  HISTORIES: 2-5 images written and parsed one '
        'after the other in one process - through the SAME path (another image of exactly the same size: other header / '
        'other firmware and versions / same records in another order, with the modification time pinned by os.utime, '
        'natural, or the file replaced by rename; other sizes; back to the first image), through other paths, by '
        'UpgradeImage, Hpm.open_upgrade_image (class and Ipmi object) and Hpm.get_upgrade_version_from_file; every parse is '
        'judged against the image in the file at that moment (and compared with the Lean parser model, a function of the '
        'bytes), kept results are re-read at the end; each history runs in a pristine child process and a finding is '
        're-tried as a single parse (signature C18:history:* when only the history shows it).  UPLOAD: binaries of 0..6000 bytes '
        '(directed around 22-byte and 256-block boundaries) sent by Hpm.upload_binary through a fake interface to a '
        'reference device that parses the request bytes, under plans answering any subset of blocks with 80h '
        '(0..n further in-progress status answers, also more than the time-out allows, then the final completion code of '
        'the long duration command in Get upgrade status: 00h or a failure code), one block with another code, or '
        'silence (any subset of blocks unanswered 1..retry+1 times in a row, crossed with 80h, another code and the 255 -> 0 '
        'wrap: the unanswered block must be sent again with the same number, or the call must raise); virtual clock; the recorded requests are compared with the model and judged by the property '
        '(data exact, numbered i mod 256, 0 < len <= 22, status poll right after every 80h, the next block only after '
        'the status reported the final 00h, HpmError and nothing sent after another code - be it the answer to the block '
        'or the final code of its long duration command -, no further block and no normal return while 80h is still '
        'reported).  ARGUMENT FORM of the binary (generator dimension, harness/sim/dev18.FORMS): bytes, bytearray, list of '
        'ints, array(\'B\') and str with one character per byte over the full range 00h..FFh (the form '
        'upload_firmware_block has its isinstance(data, str) branch for) - every directed size in all five forms, ten '
        'directed binaries chosen for their VALUES (7F 80 FF, every byte value, 7-bit only, FFh x 45, a high byte at a '
        'block end, UTF-8 looking) x five forms x {no 80h, some blocks 80h}, and the form of every random upload '
        'drawn from the five; the oracle is the same (the device must see the byte values of the binary, blocks <= 22) and so '
        'is the model line (the model is a function of the byte values).  BLOCK: Hpm.upload_firmware_block(number, block) '
        'itself with directed and random blocks of 0..22 bytes (all 7-bit, all 80h..FFh, mixed), numbers 0..255, in the '
        'five forms: exactly one Upload firmware block request with that number and those bytes (harness oracle only).  A '
        'finding of a non-bytes form is re-run with a bytes object; when that conforms the signature carries the form '
        '(C18:upload:data:str-binary).  Distinct by (image bytes) / (binary, plan, timing, form) / (number, block, form); '
        'non-trivial = at least one record / one block / one byte.')
ASSUMPTIONS = [
    'models of pyipmi/hpm.py (parser, upload loop), fields.VersionField and utils.chunks are tied by the translator '
    '(offsets, lengths, byte orders, block size, masks, completion codes; statement-level AST templates, fail closed) '
    'and by this correspondence run',
    'time.time/time.sleep in pyipmi.hpm are substituted by a virtual clock; the model uses the same integer ticks',
    'the MD5 trailer is an arbitrary 16-byte digest function in the theorems (the parser never evaluates it); the '
    'harness uses hashlib.md5',
    'record type 3 ("upload for compare") is emitted as a header-only record, which is how the library reads it; '
    'HPM.1 R1.0 defines image record types 0..2 only',
    'device limit for one firmware block is 22 bytes (DESIGN §C18); the device answers status requests with '
    'completion code 00h (the outcome of the long duration command is in the response DATA: last completion code); '
    'interface time-outs / IOError during status polling are not generated',
    'a block request that is not answered at all (the interface raises IpmiTimeoutError) is a fault of the upload like '
    'any other: the agent cannot tell a lost request from a lost response, so the oracle takes the block as NOT delivered '
    '(HPM.1: the agent repeats the block with the same number; a device that already has it ignores the duplicate) - the '
    'next request must carry the same number and bytes, or the call must raise (which exception is not judged); an '
    'unanswered request followed by its exact repetition counts once for the rest of the oracle.  How many repetitions '
    'the retry argument allows is not judged (1..retry+1 consecutive silences are generated)',
    'when the time-out expires while the status still reports 80h the upload must not go on and must not return normally; '
    'which library error it raises is not judged (the repaired code raises HpmError)',
    'histories: Hpm.install_component_from_file (parse + whole upgrade procedure) is not driven; it opens the file with the '
    'same UpgradeImage(filename) call the history stream drives',
    'the firmware description string is observed but, not being named by the property, only its ability to make '
    'the parse fail is judged',
    'argument forms: a str binary means one character per byte, code points 00h..FFh (what the isinstance(data, str) '
    'branch of upload_firmware_block converts with ord()); characters above FFh are not bytes and are not generated; '
    'memoryview / file objects / iterators without len() are not generated (chunks() needs len and slicing).  The Lean '
    'upload model takes the byte values (it has no notion of the Python type carrying them): a form-dependent '
    'behaviour shows as a disagreement with the model and is judged by the device-side oracle on the real code',
]
TRUSTED = ['harness/translate/hpm.py', 'harness/sim/dev18.py', 'harness/sim/pristine.py (fork server: histories run in a '
           'process that has parsed nothing yet)', 'harness/props/c18.py (independent encoder, oracle)']

DEVICE_BLOCK_LIMIT = 22
SIGNATURE = b'PICMGFWU'
_k = None
_RESEND = 0         # upload variant the real code has (probed): 1 = an unanswered block is sent again, same number
_CHECKED = 0        # upload variant the real code has (probed): 1 = the outcome of the status polls is checked


def translate(ctx):
    global _k
    _k = None
    _k = T.generate()


# ------------------------------------------------------------------------------------------
# independent HPM.1 encoder and the view it demands (twin of lean/PyIpmi/Spec/HpmFormat.lean)
# ------------------------------------------------------------------------------------------
def _le(v, n):
    return bytes((v >> (8 * i)) & 0xff for i in range(n))


def _bcd(minor):
    return 0xff if minor == 255 else 16 * (minor // 10) + minor % 10


def _zero_sum(bs):
    return (256 - sum(bs) % 256) % 256


def header_body(h):
    oem = bytes.fromhex(h['oem'])
    return (SIGNATURE + bytes([h['fv'], h['dev']]) + _le(h['man'], 3) + _le(h['prod'], 2) + _le(h['time'], 4) +
            bytes([h['cap'], h['comps'], h['st'], h['rb'], h['ina']]) +
            bytes([h['ecr'][0], _bcd(h['ecr'][1])]) +
            bytes([h['fr'][0], _bcd(h['fr'][1])]) + bytes(h['fr'][2:6]) + _le(len(oem), 2) + oem)


def encode_record(r):
    head = bytes([r['k'], r['c']])
    head += bytes([_zero_sum(head)])
    if r['k'] != 2:
        return head
    fw = bytes.fromhex(r['fw'])
    return (head + bytes([r['ver'][0], _bcd(r['ver'][1])]) + bytes(r['ver'][2:6]) + bytes.fromhex(r['desc']) +
            _le(len(fw), 4) + fw)


def encode_image(img):
    hb = header_body(img['hdr'])
    body = hb + bytes([_zero_sum(hb)]) + b''.join(encode_record(r) for r in img['recs'])
    return body + hashlib.md5(body).digest()


def _hx(b):
    b = bytes(bytearray(b))
    return b.hex() if b else '-'


def _nl(l):
    return ','.join(str(int(x)) for x in l) if len(l) else '-'


def view_of(img):
    h = img['hdr']
    hb = header_body(h)
    oem = bytes.fromhex(h['oem'])
    data = encode_image(img)
    parts = ['H sig=%s fv=%d dev=%d man=%d prod=%d time=%d cap=%d comps=%s st=%d rb=%d ina=%d ecr=%d.%d.n '
             'fr=%d.%d.%s oemlen=%d oem=%s chk=%d len=%d' % (
                 _hx(SIGNATURE), h['fv'], h['dev'], h['man'], h['prod'], h['time'], h['cap'],
                 _nl([i for i in range(8) if h['comps'] >> i & 1]), h['st'], h['rb'], h['ina'],
                 h['ecr'][0], h['ecr'][1], h['fr'][0], h['fr'][1], _hx(h['fr'][2:6]),
                 len(oem), _hx(oem), _zero_sum(hb), 34 + len(oem) + 1)]
    for r in img['recs']:
        s = 'A t=%d c=%d k=%d l=%d' % (r['k'], r['c'], _zero_sum([r['k'], r['c']]),
                                       3 if r['k'] != 2 else 34 + len(r['fw']) // 2)
        if r['k'] == 2:
            s += ' U v=%d.%d.%s d=%s n=%d fw=%s' % (r['ver'][0], r['ver'][1], _hx(r['ver'][2:6]),
                                                  _nl(bytes.fromhex(r['desc'])), len(r['fw']) // 2,
                                                  r['fw'] or '-')
        parts.append(s)
    parts.append('T tr=%s ex=%s' % (_hx(data[-16:]), _hx(data[-16:])))
    return ' | '.join(parts)


def spec_line(img):
    h = img['hdr']
    body = encode_image(img)
    toks = ['spec'] + [str(h[x]) for x in ('fv', 'dev', 'man', 'prod', 'time', 'cap', 'comps', 'st', 'rb', 'ina')]
    toks += [str(x) for x in h['ecr'][:2]] + [str(x) for x in h['fr'][:6]]
    toks += [h['oem'] or '-', _hx(body[-16:])]
    for r in img['recs']:
        if r['k'] != 2:
            toks.append('s:%d:%d' % (r['k'], r['c']))
        else:
            toks.append('u:%d:%s:%s:%s' % (r['c'], ':'.join(str(x) for x in r['ver'][:6]), r['desc'] or '-',
                                         r['fw'] or '-'))
    return ' '.join(toks)


# ------------------------------------------------------------------------------------------
# the real parser, canonicalised
# ------------------------------------------------------------------------------------------
def _tag(e):
    n = type(e).__name__
    if n in ('DecodingError', 'HpmError', 'IpmiTimeoutError', 'RetryError', 'EncodingError'):
        return n
    if n == 'CompletionCodeError':
        return 'CompletionCodeError:%d' % e.cc
    return 'py:' + n


def _ver(v):
    aux = getattr(v, 'auxiliary', None)
    return '%d.%d.%s' % (v.major, v.minor, 'n' if aux is None else _hx(aux))


class Work(object):
    def __init__(self, ctx):
        self.dir = os.path.join(lean.WORK, 'c18-%d-%d' % (os.getpid(), ctx.seed))
        os.makedirs(self.dir, exist_ok=True)
        self.path = os.path.join(self.dir, 'image.hpm')

    def close(self):
        shutil.rmtree(self.dir, ignore_errors=True)


def real_parse(work, data):
    """UpgradeImage(file) -> canonical view string, or the exception tag."""
    import pyipmi.hpm as H
    with open(work.path, 'wb') as f:
        f.write(data)
    try:
        im = H.UpgradeImage(work.path)
    except Exception as e:  # noqa
        return _tag(e)
    finally:
        try:
            os.unlink(work.path)
        except OSError:
            pass
    out = _view(im)
    if _KEEP is not None and len(_KEEP) < 300 and ' | ' in out:
        _KEEP.append((im, out, bytes(data)))
    return out


_KEEP = None      # when a list: parsed images are kept alive and re-read after later parses


def recheck_kept(ctx):
    """an UpgradeImage object must keep the values of ITS file after other images were parsed"""
    kept = _KEEP or []
    for i, (im, out, data) in enumerate(kept):
        ctx.case(('re-read', data))
        ctx.count('parse:re-read-after-later-parses')
        now = _view(im)
        if now != out:
            later = kept[i + 1:i + 3] + kept[-2:]
            ctx.violate('C18:parse:result-changed-by-later-parse',
                        'a parsed image reads differently after later images were parsed (state shared between '
                        'parsed objects)', {'kind': 'reread', 'data': _hx(data), 'later': [_hx(x[2]) for x in later]},
                        expected=_first_diff(out, now), observed=_first_diff(now, out))
            return


def _view(im):
    try:
        h = im.header
        parts = ['H sig=%s fv=%d dev=%d man=%d prod=%d time=%d cap=%d comps=%s st=%d rb=%d ina=%d ecr=%s fr=%s '
                 'oemlen=%d oem=%s chk=%d len=%d' % (
                     _hx(h.signature), h.format_version, h.device_id, h.manufacturer_id, h.product_id, h.time,
                     h.capabilities, _nl(h.components), h.selftest_timeout, h.rollback_timeout,
                     h.inaccessibility_timeout, _ver(h.earliest_compatible_revision), _ver(h.firmware_revision),
                     h.oem_data_length, _hx(h.oem_data) if hasattr(h, 'oem_data') else 'MISSING', h.checksum,
                     h.length)]
        for a in im.actions:
            s = 'A t=%d c=%d k=%d l=%d' % (a.action_type, a.components, a.checksum, a.length)
            if a.action != a.action_type:
                s += ' action=%d' % a.action
            if hasattr(a, 'firmware_image_data'):
                d = a.firmware_description_string
                d = [ord(c) for c in d] if isinstance(d, str) else list(bytearray(d))
                s += ' U v=%s d=%s n=%d fw=%s' % (_ver(a.firmware_version), _nl(d), a.firmware_length,
                                                _hx(a.firmware_image_data))
            parts.append(s)
        parts.append('T tr=%s ex=%s' % (_hx(getattr(im.checksum, 'data', b'')), _hx(im.checksum_expected)))
        return ' | '.join(parts)
    except Exception as e:  # noqa  (an attribute the specification demands is missing / of another type)
        return 'py:view:' + type(e).__name__


def _kv(part):
    d = {}
    for t in part.split()[1:]:
        if '=' in t:
            a, b = t.split('=', 1)
            d[a] = b
        else:
            d[t] = ''
    return d


HDR_NAMES = {'sig': 'signature', 'fv': 'format_version', 'dev': 'device_id', 'man': 'manufacturer_id',
             'prod': 'product_id', 'time': 'time', 'cap': 'capabilities', 'comps': 'components',
             'st': 'selftest_timeout', 'rb': 'rollback_timeout', 'ina': 'inaccessibility_timeout',
             'ecr': 'earliest_compatible_revision', 'fr': 'firmware_revision', 'oemlen': 'oem_data_length',
             'oem': 'oem_data', 'chk': 'checksum', 'len': 'length'}
ACT_NAMES = {'t': 'action_type', 'c': 'components', 'k': 'checksum', 'l': 'length', 'v': 'firmware_version',
             'n': 'firmware_length', 'fw': 'firmware_image_data', 'U': 'upload-fields', 'action': 'action'}


def judge_parse(ctx, case, expected, real):
    """Property oracle: the real parser's view against the view the specification demands."""
    if real == expected:
        return
    if ' | ' not in real and not real.startswith('H '):
        sig = 'C18:parse:description-escape' if real == 'py:UnicodeDecodeError' else 'C18:parse:raises:' + real
        ctx.violate(sig, 'UpgradeImage() fails with %s on a well-formed HPM.1 image' % real, case,
                    expected=expected[:400], observed=real)
        return
    e, r = expected.split(' | '), real.split(' | ')
    eh, rh = _kv(e[0]), _kv(r[0])
    for key in eh:
        if key == 'oem' and rh.get(key) == 'MISSING':
            ctx.violate('C18:parse:header.oem_data-missing',
                        'the parsed header has no oem_data attribute (AttributeError) for an image with %s OEM bytes' %
                        eh.get('oemlen'), case, expected='oem=%s' % eh[key][:200], observed='no attribute oem_data')
            return
        if rh.get(key) != eh[key]:
            ctx.violate('C18:parse:header.%s' % HDR_NAMES.get(key, key),
                        'image header field %s is not what the image contains' % HDR_NAMES.get(key, key), case,
                        expected='%s=%s' % (key, eh[key][:200]), observed='%s=%s' % (key, str(rh.get(key))[:200]))
            return
    if len(e) != len(r):
        ctx.violate('C18:parse:actions.count', 'number of action records differs', case,
                    expected=len(e) - 2, observed=len(r) - 2)
        return
    for i, (ea, ra) in enumerate(zip(e[1:-1], r[1:-1])):
        ek, rk = _kv(ea), _kv(ra)
        for key in list(ek) + [x for x in rk if x not in ek]:
            if key == 'd':
                continue        # description: observed, not demanded by the property
            if rk.get(key) != ek.get(key):
                ctx.violate('C18:parse:action.%s' % ACT_NAMES.get(key, key),
                            'action record %d: %s is not what the image contains' % (i, ACT_NAMES.get(key, key)),
                            case, expected='%s=%s' % (key, str(ek.get(key))[:200]),
                            observed='%s=%s' % (key, str(rk.get(key))[:200]))
                return
    if e[-1] != r[-1]:
        ctx.violate('C18:parse:trailer', 'the 16 trailing checksum bytes are not reported as they are', case,
                    expected=e[-1], observed=r[-1])


# ------------------------------------------------------------------------------------------
# image generators
# ------------------------------------------------------------------------------------------
def _rb(rng, n):
    return bytes(rng.randrange(256) for _ in range(n))


def _minor(rng):
    return rng.choice([0, 9, 10, 99, 255, 1, 50]) if rng.random() < 0.4 else rng.randrange(100)


DESC_DIRECTED = [
    b'IPM Controller'.ljust(21, b'\0'),
    b'fw\\update 1.0'.ljust(21, b'\0'),          # "\u" followed by non-hex: malformed escape
    b'a\\u0041bc'.ljust(21, b'\0'),              # valid escape
    b'x\\\\u0041'.ljust(21, b'\0'),              # doubled backslash
    b'end\\'.rjust(21, b'.'),                     # trailing backslash
    b'\\U0001F600'.ljust(21, b' '),              # valid 8-digit escape
    b'\\U00110000'.ljust(21, b' '),              # out of range
    b'\\u12'.rjust(21, b'-'),                     # truncated at the end of the field
    b'C:\\firmware\\user.bin'.ljust(21, b'\0'),
    bytes(range(0xe0, 0xf5)),
]


def _desc(rng):
    r = rng.random()
    if r < 0.3:
        n = rng.randrange(0, 22)
        return bytes(rng.randrange(0x20, 0x7f) for _ in range(n)).replace(b'\\', b'/').ljust(21, b'\0')
    if r < 0.55:
        return bytes(rng.randrange(0x20, 0x7f) for _ in range(21))     # any printable ASCII, backslash included
    if r < 0.7:
        return _rb(rng, 21)
    if r < 0.85:
        alphabet = b'\\\\\\uUx0123456789abcdefABCDEFg '
        return bytes(rng.choice(alphabet) for _ in range(21))
    return rng.choice(DESC_DIRECTED)


def _fw_len(rng, tier):
    r = rng.random()
    if r < 0.3:
        return rng.choice([0, 1, 21, 22, 23, 255, 256, 4095, 4096])
    if r < 0.75:
        return rng.randrange(0, 200)
    return rng.randrange(0, 4097)


def gen_image(rng, tier, nrec=None, oem_len=None):
    if oem_len is None:
        r = rng.random()
        oem_len = 0 if r < 0.25 else rng.choice([1, 2, 16, 254, 255]) if r < 0.5 else rng.randrange(0, 256)
    from ..lib.rng import boundary_int as bi
    hdr = {'fv': rng.choice([0, 0, bi(rng, 8)]), 'dev': bi(rng, 8), 'man': bi(rng, 24), 'prod': bi(rng, 16),
           'time': bi(rng, 32), 'cap': bi(rng, 8), 'comps': bi(rng, 8), 'st': bi(rng, 8), 'rb': bi(rng, 8),
           'ina': bi(rng, 8), 'ecr': [bi(rng, 8), _minor(rng)],
           'fr': [bi(rng, 8), _minor(rng)] + list(_rb(rng, 4)), 'oem': _rb(rng, oem_len).hex()}
    if nrec is None:
        nrec = rng.choice([1, 8]) if rng.random() < 0.2 else rng.randrange(1, 9)
    recs = []
    for _ in range(nrec):
        k = rng.choice([0, 1, 2, 2, 2, 3])
        if k != 2:
            recs.append({'k': k, 'c': bi(rng, 8)})
        else:
            recs.append({'k': 2, 'c': bi(rng, 8), 'ver': [bi(rng, 8), _minor(rng)] + list(_rb(rng, 4)),
                         'desc': _desc(rng).hex(), 'fw': _rb(rng, _fw_len(rng, tier)).hex()})
    return {'hdr': hdr, 'recs': recs}


def directed_images(rng):
    out = []
    for n in (0, 1, 2, 254, 255):
        out.append(('oem%d' % n, gen_image(rng, 'quick', oem_len=n)))
    for n in (0, 1, 21, 22, 23, 4095, 4096):
        img = gen_image(rng, 'quick', nrec=2)
        img['recs'][0] = {'k': 2, 'c': 1, 'ver': [1, 23, 0, 0, 0, 1], 'desc': DESC_DIRECTED[0].hex(),
                          'fw': _rb(rng, n).hex()}
        out.append(('fw%d' % n, img))
    for i, d in enumerate(DESC_DIRECTED):
        img = gen_image(rng, 'quick', nrec=3, oem_len=0)
        img['recs'][1] = {'k': 2, 'c': 2, 'ver': [2, 99, 1, 2, 3, 4], 'desc': d.hex(), 'fw': _rb(rng, 30).hex()}
        out.append(('desc%d' % i, img))
    for kinds in ([0], [1], [2], [3], [0, 1, 2, 3, 3, 2, 1, 0], [2] * 8):
        img = gen_image(rng, 'quick', nrec=len(kinds))
        for j, kd in enumerate(kinds):
            if kd != 2:
                img['recs'][j] = {'k': kd, 'c': 1 << (j % 8)}
            elif img['recs'][j]['k'] != 2:
                img['recs'][j] = {'k': 2, 'c': 0xff, 'ver': [0, 255, 9, 9, 9, 9], 'desc': (b'z' * 21).hex(),
                                  'fw': _rb(rng, 17).hex()}
        out.append(('kinds' + ''.join(map(str, kinds)), img))
    # a firmware image that itself looks like records / an image
    inner = encode_image(gen_image(rng, 'quick', nrec=2, oem_len=3))[:600]
    img = gen_image(rng, 'quick', nrec=2, oem_len=5)
    img['recs'][0] = {'k': 2, 'c': 4, 'ver': [7, 7, 0, 0, 0, 0], 'desc': (b'nested'.ljust(21, b'\0')).hex(),
                      'fw': inner.hex()}
    out.append(('nested', img))
    return out


# ------------------------------------------------------------------------------------------
# variant probe (DESIGN §2.4): which of the two admissible forms does the code have today?
# ------------------------------------------------------------------------------------------
PROBE = {'hdr': {'fv': 0, 'dev': 1, 'man': 15000, 'prod': 2, 'time': 3, 'cap': 0, 'comps': 1, 'st': 0, 'rb': 0,
                 'ina': 0, 'ecr': [1, 0], 'fr': [1, 1, 0, 0, 0, 0], 'oem': 'aabb'},
         'recs': [{'k': 2, 'c': 1, 'ver': [1, 1, 0, 0, 0, 0], 'desc': (b'a\\u0041'.ljust(21, b'\0')).hex(),
                   'fw': '11223344'}]}


def probe_variant(ctx, work):
    _PARSELOG.append(PROBE)
    real = real_parse(work, encode_image(PROBE))
    oem_whole, desc_esc, oem_unset = 0, 0, 0
    if ' | ' in real:
        parts = real.split(' | ')
        oem_whole = 0 if _kv(parts[0]).get('oem') == 'aabb' else 1
        desc_esc = 0 if _kv(parts[1]).get('d') == _nl(bytes.fromhex(PROBE['recs'][0]['desc'])) else 1
    else:
        ctx.notes.append('variant probe did not parse: %s' % real)
    probe0 = dict(PROBE, hdr=dict(PROBE['hdr'], oem=''))
    _PARSELOG.append(probe0)
    real0 = real_parse(work, encode_image(probe0))
    if ' | ' in real0:
        oem_unset = 1 if _kv(real0.split(' | ')[0]).get('oem') == 'MISSING' else 0
    else:
        ctx.notes.append('variant probe (no OEM data) did not parse: %s' % real0)
    ctx.extra['variant'] = {'oem_data_whole_rest(as shipped)': bool(oem_whole),
                            'description_raw_unicode_escape(as shipped)': bool(desc_esc),
                            'oem_data_unset_for_length_0(as shipped)': bool(oem_unset)}
    return oem_whole, desc_esc, oem_unset


def probe_upload_variant(ctx):
    """does upload_binary look at what the status polls report?  (one block accepted with 80h, the first status
    poll reports that the long duration command failed)"""
    tag, _, _ = run_upload(bytes(10), [('f', 0, 0xFF)], 20, 1, 0, 3)
    checked = 1 if tag == 'HpmError' else 0
    ctx.extra.setdefault('variant', {})['status_poll_outcome_ignored(as shipped)'] = not checked
    return checked


def probe_resend_variant(ctx):
    """is a block whose request got no answer sent again?  (two blocks, the first request unanswered once)"""
    _, _, dev = run_upload(bytes(range(30)), [('t',)], 20, 1, 0, 3)
    b = [(ev[1], ev[2]) for ev in dev.trace if ev[0] == 'B']
    resend = 1 if len(b) >= 2 and b[0] == b[1] else 0
    ctx.extra.setdefault('variant', {})['unanswered_block_skipped(as shipped)'] = not resend
    if _k is not None and _k.get('upload_resend') is not None and int(_k['upload_resend']) != resend:
        ctx.disagree('upload-resend-variant', {}, 'translator reads resend=%s' % _k.get('upload_resend'),
                     'probe on the real code: resend=%d' % resend)
    return resend


def _parse_line(variant, data):
    return 'parse %d %d %d %s' % (variant[0], variant[1], variant[2], _hx(data))


# ------------------------------------------------------------------------------------------
# parse streams
# ------------------------------------------------------------------------------------------
_PARSELOG = []      # every well-formed image this process has parsed through check_image, in order


def check_image(ctx, drv, work, variant, label, img, sample=False):
    data = encode_image(img)
    expected = view_of(img)
    case = {'kind': 'parse', 'label': label, 'image': img, '_parsed_before': len(_PARSELOG)}
    _PARSELOG.append(img)
    ctx.case(('parse', data), nontrivial=len(img['recs']) > 0)
    ctx.count('parse:records=%d' % len(img['recs']))
    oem_len = len(img['hdr']['oem']) // 2
    ctx.count('parse:oem=' + ('0' if oem_len == 0 else '1..254' if oem_len < 255 else '255'))
    for r in img['recs']:
        ctx.count('parse:record-type-%d' % r['k'])
        if r['k'] == 2:
            n = len(r['fw']) // 2
            ctx.count('parse:fw=' + ('0' if n == 0 else '1..22' if n <= 22 else '23..4095' if n < 4096 else '4096'))
            if b'\\' in bytes.fromhex(r['desc']):
                ctx.count('parse:description-with-backslash')
    real = real_parse(work, data)
    ctx.count('parse:real=' + ('ok' if ' | ' in real else real))
    judge_parse(ctx, case, expected, real)
    if drv is not None:
        sp = drv.ask(spec_line(img))
        if ' # ' not in sp:
            ctx.disagree('spec-encoder', case, sp[:200], 'harness encoder produced an image')
            return
        sbytes, sview = sp.split(' # ', 1)
        if sbytes != _hx(data):
            ctx.disagree('spec-encoder', case, sbytes[:300], _hx(data)[:300])
        if sview != expected:
            ctx.disagree('spec-view', case, sview[:600], expected[:600])
        model = drv.ask(_parse_line(variant, data))
        if model != real:
            ctx.disagree('parse', case, _first_diff(model, real), _first_diff(real, model))
        if sample:
            ctx.sample({'image_bytes': len(data), 'records': len(img['recs']), 'oem_len': oem_len,
                        'real==spec': real == expected, 'model==real': model == real})


def _first_diff(a, b):
    pa, pb = a.split(' | '), b.split(' | ')
    for i, x in enumerate(pa):
        if i >= len(pb) or pb[i] != x:
            ta, tb = x.split(), (pb[i].split() if i < len(pb) else [])
            for j, t in enumerate(ta):
                if j >= len(tb) or tb[j] != t:
                    return 'part %d: %s' % (i, t[:160])
            return 'part %d: %s' % (i, x[:160])
    return a[:160] if len(pa) == len(pb) else '%d parts' % len(pa)


def malformed_stream(ctx, drv, work, variant, rng, n):
    """Code vs model only (the property says nothing about malformed images)."""
    if drv is None:
        return
    for i in range(n):
        img = gen_image(rng, 'quick', nrec=rng.randrange(1, 4), oem_len=rng.choice([0, 3]))
        for r in img['recs']:
            if r['k'] == 2 and len(r['fw']) > 80:
                r['fw'] = r['fw'][:80]
        data = bytearray(encode_image(img))
        kind = rng.choice(['truncate', 'truncate', 'type', 'minor', 'length', 'extend'])
        if kind == 'truncate':
            data = data[:rng.randrange(0, len(data))]
        elif kind == 'type':
            off = 35 + len(img['hdr']['oem']) // 2
            data[off] = rng.randrange(4, 256)
        elif kind == 'minor':
            data[rng.choice([25, 27])] = rng.randrange(256)
        elif kind == 'length':
            pos = rng.randrange(30, len(data))
            data[pos] = rng.randrange(256)
        else:
            data += _rb(rng, rng.randrange(1, 40))
        data = bytes(data)
        ctx.case(('malformed', data), nontrivial=len(data) > 0)
        ctx.count('malformed:' + kind)
        real = real_parse(work, data)
        model = drv.ask(_parse_line(variant, data))
        ctx.count('malformed:real=' + ('ok' if ' | ' in real else real))
        if model != real:
            ctx.disagree('parse-malformed', {'kind': 'parse-bytes', 'data': _hx(data)},
                         _first_diff(model, real), _first_diff(real, model))


# ------------------------------------------------------------------------------------------
# histories: several images parsed one after the other in ONE process (same path, other paths)
# ------------------------------------------------------------------------------------------
PIN_NS = 1500000000 * 10 ** 9          # the modification time every "pinned" file carries
SLOTS = ('image.hpm', 'other.hpm', 'third.hpm')
PARSE_APIS = ('UpgradeImage', 'open_upgrade_image', 'ipmi.open_upgrade_image', 'version_from_file')


def available_apis():
    import pyipmi.hpm as H
    out = ['UpgradeImage']
    if hasattr(H.Hpm, 'open_upgrade_image'):
        out += ['open_upgrade_image', 'ipmi.open_upgrade_image']
    if hasattr(H.Hpm, 'get_upgrade_version_from_file'):
        out.append('version_from_file')
    return out


def exec_history(steps):
    """Write and parse the images of `steps` one after the other in THIS process.  Each step:
    {'slot': 0..2, 'image': img, 'mtime': 'pin'|'natural', 'write': 'rewrite'|'replace', 'api': …}.
    Returns what every parse gave (canonical view / exception tag), the size and modification time the
    file had, and what the kept result objects read like after all later parses."""
    import pyipmi.hpm as H
    d = os.path.join(lean.WORK, 'c18h-%d' % os.getpid())
    shutil.rmtree(d, ignore_errors=True)
    os.makedirs(d)
    kept, out = [], []
    try:
        for st in steps:
            p = os.path.join(d, SLOTS[st.get('slot', 0)])
            data = encode_image(st['image'])
            pin = st.get('mtime', 'pin') == 'pin'
            if st.get('write') == 'replace':
                with open(p + '.new', 'wb') as f:
                    f.write(data)
                os.replace(p + '.new', p)
            else:
                with open(p, 'wb') as f:
                    f.write(data)
            if pin:
                os.utime(p, ns=(PIN_NS, PIN_NS))
            s = os.stat(p)
            api = st.get('api', 'UpgradeImage')
            im = None
            try:
                if api == 'UpgradeImage':
                    im = H.UpgradeImage(p)
                elif api == 'open_upgrade_image':
                    im = H.Hpm.open_upgrade_image(p)
                elif api == 'ipmi.open_upgrade_image':
                    im = dev18.make_ipmi(dev18.HpmDevice([])).open_upgrade_image(p)
                elif api == 'version_from_file':
                    v = H.Hpm.get_upgrade_version_from_file(p)
                    view = 'V none' if v is None else 'V ' + _ver(v)
                else:
                    raise ValueError(api)
                if im is not None:
                    view = _view(im)
            except Exception as e:  # noqa
                view, im = _tag(e), None
            out.append({'view': view, 'size': s.st_size, 'mtime_ns': s.st_mtime_ns})
            if im is not None:
                kept.append((len(out) - 1, im))
            if st.get('unlink'):
                os.unlink(p)
        reread = [[i, _view(im)] for i, im in kept]
    finally:
        shutil.rmtree(d, ignore_errors=True)
    return {'steps': out, 'reread': reread}


def expected_step(st):
    if st.get('api') == 'version_from_file':
        for r in st['image']['recs']:
            if r['k'] == 2:
                return 'V %d.%d.%s' % (r['ver'][0], r['ver'][1], _hx(r['ver'][2:6]))
        return 'V none'
    return view_of(st['image'])


def history_findings(case, res):
    """Property oracle for a history: every parse is judged against the image that was in the file at
    that moment; kept results must still read as they did.  -> [(step, signature, what, expected, observed)]"""
    out = []
    for i, (st, got) in enumerate(zip(case['steps'], res['steps'])):
        exp = expected_step(st)
        if got['view'] == exp:
            continue
        if st.get('api') == 'version_from_file':
            out.append((i, 'C18:parse:version_from_file', 'get_upgrade_version_from_file does not return the version '
                        'of the first upload record of the image in the file', exp, got['view']))
            continue
        c = _Collect()
        judge_parse(c, case, exp, got['view'])
        for v in c.violations[:1]:
            out.append((i, v['signature'], v['what'], v['expected'], v['observed']))
    views = dict((i, r['view']) for i, r in enumerate(res['steps']))
    for i, now in res['reread']:
        if now != views[i]:
            out.append((i, 'C18:parse:result-changed-by-later-parse', 'a parsed image reads differently after later '
                        'images were parsed', _first_diff(views[i], now), _first_diff(now, views[i])))
    return out


def _describe_step(st, got=None):
    img = st['image']
    s = '%s <- image of %d bytes (%d records, device id %d), %s, mtime %s, parsed by %s' % (
        SLOTS[st.get('slot', 0)], len(encode_image(img)), len(img['recs']), img['hdr']['dev'],
        st.get('write', 'rewrite'), st.get('mtime', 'pin'), st.get('api', 'UpgradeImage'))
    return s


def small_image(rng, nrec=None):
    img = gen_image(rng, 'quick', nrec=nrec if nrec is not None else rng.randrange(1, 5),
                    oem_len=rng.choice([0, 0, 1, 2, 16]))
    for r in img['recs']:
        if r['k'] == 2:
            r['fw'] = r['fw'][:2 * rng.choice([0, 1, 22, 23, 64, 150])]
    if not any(r['k'] == 2 for r in img['recs']) and rng.random() < 0.7:
        img['recs'][0] = {'k': 2, 'c': 1, 'ver': [1, 2, 3, 4, 5, 6], 'desc': DESC_DIRECTED[0].hex(),
                          'fw': _rb(rng, rng.choice([1, 22, 40])).hex()}
    return img


def same_size_variant(rng, img, mode=None):
    """Another well-formed image with exactly as many bytes: other header values / other firmware bytes and
    versions / the same records in another order."""
    import copy
    from ..lib.rng import boundary_int as bi
    mode = mode or rng.choice(['all', 'all', 'header', 'firmware', 'order'])
    for _ in range(20):
        v = copy.deepcopy(img)
        if mode in ('all', 'header'):
            h = v['hdr']
            h.update({'dev': (h['dev'] + rng.randrange(1, 256)) % 256, 'man': bi(rng, 24), 'prod': bi(rng, 16),
                      'time': bi(rng, 32), 'cap': bi(rng, 8), 'comps': bi(rng, 8), 'st': bi(rng, 8), 'rb': bi(rng, 8),
                      'ina': bi(rng, 8), 'ecr': [bi(rng, 8), _minor(rng)], 'fr': [bi(rng, 8), _minor(rng)] + list(_rb(rng, 4)),
                      'oem': _rb(rng, len(h['oem']) // 2).hex()})
        if mode in ('all', 'firmware'):
            for r in v['recs']:
                r['c'] = (r['c'] + rng.randrange(1, 256)) % 256
                if r['k'] == 2:
                    r['ver'] = [bi(rng, 8), _minor(rng)] + list(_rb(rng, 4))
                    r['fw'] = _rb(rng, len(r['fw']) // 2).hex()
                elif rng.random() < 0.5:
                    r['k'] = rng.choice([0, 1, 3])
        if mode == 'order' and len(v['recs']) > 1:
            v['recs'] = v['recs'][1:] + v['recs'][:1]
            if rng.random() < 0.5:
                v['recs'].reverse()
        if encode_image(v) != encode_image(img):
            assert len(encode_image(v)) == len(encode_image(img))
            return v
        mode = 'all'
    return v


def _st(slot, img, mtime='pin', write='rewrite', api='UpgradeImage'):
    return {'slot': slot, 'image': img, 'mtime': mtime, 'write': write, 'api': api}


def gen_histories(rng, apis, n_random):
    out = []
    # directed: the same path re-written with another image of the same size and the same modification time
    for api2 in apis:
        for api1 in (['UpgradeImage'] if api2 != 'UpgradeImage' else apis):
            for mode in ('all', 'header', 'firmware', 'order'):
                a = small_image(rng, nrec=3 if mode == 'order' else None)
                b = same_size_variant(rng, a, mode)
                out.append(('same-path/same-size/pinned/%s>%s/%s' % (api1, api2, mode),
                            [_st(0, a, api=api1), _st(0, b, api=api2)]))
    a = small_image(rng)
    b = same_size_variant(rng, a)
    c = small_image(rng)
    e = same_size_variant(rng, c)
    out.append(('same-path/replaced-file', [_st(0, a), _st(0, b, write='replace')]))
    out.append(('same-path/natural-mtime', [_st(0, a, 'natural'), _st(0, b, 'natural')]))
    out.append(('same-path/back-to-first', [_st(0, a), _st(0, b), _st(0, a)]))
    out.append(('same-path/other-size-between', [_st(0, a), _st(0, c), _st(0, b)]))
    out.append(('same-path/other-size', [_st(0, a), _st(0, c)]))
    out.append(('other-path/same-size', [_st(0, a), _st(1, b)]))
    out.append(('other-path-between', [_st(0, a), _st(1, c), _st(0, b), _st(1, e)]))
    out.append(('same-image-twice-then-other', [_st(0, a), _st(0, a), _st(0, b), _st(0, b)]))
    out.append(('two-paths-swapped', [_st(0, a), _st(1, b), _st(0, b), _st(1, a)]))
    big = gen_image(rng, 'quick', nrec=2, oem_len=255)
    big['recs'][0] = {'k': 2, 'c': 1, 'ver': [1, 23, 0, 0, 0, 1], 'desc': DESC_DIRECTED[0].hex(), 'fw': _rb(rng, 4096).hex()}
    out.append(('same-path/same-size/4096-byte-firmware', [_st(0, big), _st(0, same_size_variant(rng, big, 'firmware'))]))
    for i in range(n_random):
        cur = {}
        seen = []
        steps = []
        for _ in range(rng.choice([2, 2, 3, 3, 4, 5])):
            slot = rng.choice([0, 0, 0, 1, 2])
            r = rng.random()
            if slot in cur and r < 0.55:
                img = same_size_variant(rng, cur[slot])
            elif seen and r < 0.7:
                img = rng.choice(seen)
            else:
                img = small_image(rng)
            cur[slot] = img
            seen.append(img)
            steps.append(_st(slot, img, rng.choice(['pin', 'pin', 'pin', 'natural']), rng.choice(['rewrite', 'rewrite', 'replace']),
                             rng.choice(apis)))
        out.append(('random%d' % i, steps))
    return out


def _history_sig(sig):
    return 'C18:history:' + sig[len('C18:'):]


def history_stream(ctx, drv, variant, rng, n_random):
    """Every history is executed in a pristine child process (harness/sim/pristine.py): what a parse returns may
    depend on nothing but the bytes in the file, whatever this process parsed before."""
    p = _pristine()
    apis = available_apis()
    nsteps = 0
    for label, steps in gen_histories(rng, apis, n_random):
        if ctx.time_left() < 30:
            ctx.notes.append('history stream cut short by the time budget')
            break
        case = {'kind': 'history', 'label': label, 'steps': steps}
        try:
            res = p.call('history', steps) if p is not None else exec_history(steps)
        except pristine.PristineError as e:
            ctx.notes.append('history %s could not be executed: %s' % (label, str(e)[-200:]))
            continue
        ctx.case(('history', label, tuple(encode_image(s['image']) for s in steps),
                  tuple((s['slot'], s['mtime'], s['write'], s['api']) for s in steps)))
        ctx.count('history:steps=%d' % len(steps))
        ctx.count('history:' + label.split('/')[0].rstrip('0123456789'))
        prev = {}
        for st, got in zip(steps, res['steps']):
            nsteps += 1
            ctx.count('history:api=' + st['api'])
            key = st['slot']
            if key in prev:
                same_size = prev[key][0] == got['size']
                same_time = prev[key][1] == got['mtime_ns']
                ctx.count('history:rewrite:%s-size/%s-mtime' % ('same' if same_size else 'other', 'same' if same_time else 'other'))
            prev[key] = (got['size'], got['mtime_ns'])
        ctx.count('history:kept-results-re-read', len(res['reread']))
        # tie: the Lean parser model is a function of the bytes alone
        if drv is not None:
            lines = [_parse_line(variant, encode_image(s['image'])) for s in steps
                     if s['api'] != 'version_from_file']
            models = iter(drv.ask_many(lines))
            for i, (st, got) in enumerate(zip(steps, res['steps'])):
                if st['api'] == 'version_from_file':
                    continue
                m = next(models)
                if m != got['view']:
                    ctx.disagree('parse-history', dict(case, step=i), _first_diff(m, got['view']), _first_diff(got['view'], m))
        found = history_findings(case, res)
        if not found:
            continue
        i, sig, what, exp, obs = found[0]
        # is the history needed?  the failing step alone, in a process that has parsed nothing yet
        alone = None
        if p is not None:
            try:
                alone = history_findings({'steps': [steps[i]]}, p.call('history', [steps[i]]))
            except pristine.PristineError:
                alone = None
        if alone:
            if steps[i]['api'] == 'version_from_file':
                ctx.violate(sig, what, {'kind': 'history', 'label': 'single', 'steps': [steps[i]]}, expected=exp, observed=obs)
            else:
                judge_parse(ctx, {'kind': 'parse', 'label': label, 'image': steps[i]['image']},
                            view_of(steps[i]['image']), res['steps'][i]['view'])
            continue
        _report_history(ctx, p, case, res, sig)
    ctx.extra['history_parses'] = nsteps


def shrink_history(p, case, res, sig):
    """drop steps that are not needed for the finding (each candidate in a pristine child)"""
    steps = list(case['steps'])
    progress = True
    budget = 30
    while p is not None and progress and budget > 0:
        progress = False
        for k in range(len(steps) - 1, -1, -1):
            if len(steps) <= 1:
                break
            cand = steps[:k] + steps[k + 1:]
            budget -= 1
            try:
                r2 = p.call('history', cand)
            except pristine.PristineError:
                continue
            if any(f[1] == sig for f in history_findings({'steps': cand}, r2)):
                steps, res, progress = cand, r2, True
                break
    return dict(case, steps=steps), res


def _report_history(ctx, p, case, res, sig, label_note=''):
    case, res = shrink_history(p, case, res, sig)
    i, sig, what, exp, obs = [f for f in history_findings(case, res) if f[1] == sig][0]
    stale = [j for j in range(i) if res['steps'][i]['view'] == expected_step(dict(case['steps'][j], api=case['steps'][i]['api']))]
    if stale:
        sig = 'C18:parse:earlier-image-returned'
        what = 'the parse returns the image that was in %s at step %d, not the one in the file (%s)' % (
            'the file' if case['steps'][stale[-1]]['slot'] == case['steps'][i]['slot'] else 'another file', stale[-1], what)
    ctx.violate(_history_sig(sig),
                'step %d of a history of %d parses in one process: %s (the same file parses correctly in a process '
                'that has parsed nothing before)%s' % (i, len(case['steps']), what, label_note), case, expected=exp, observed=obs)


def confirm_single_parses(ctx, first_index):
    """The single-parse stream parses hundreds of images in this process, all through one path.  A violation it reports is
    re-run alone in a pristine child; when it does not show there, the earlier parses it needs are searched for (images of
    the same size first, then the parses just before it) and the finding is reported as a history with its own replay."""
    p = _pristine()
    if p is None:
        return
    settled, dependent, explained = set(), {}, set()
    alone_budget, search_budget, dropped = 40, 8, 0
    keep = ctx.violations[:first_index]
    for v in ctx.violations[first_index:]:
        case, sig = v['case'], v['signature']
        n = case.pop('_parsed_before', None) if isinstance(case, dict) else None
        if not isinstance(case, dict) or case.get('kind') != 'parse' or sig in settled:
            keep.append(v)
            continue
        if sig in explained and dependent.get(sig, 0) >= 3:
            dropped += 1        # three findings of this signature were effects of earlier parses; a history replay is reported
            continue
        if alone_budget <= 0:
            keep.append(v)
            continue
        alone_budget -= 1
        last = dict(_st(0, case['image'], 'natural'), unlink=True)
        found = None
        try:
            if any(f[1] == sig for f in history_findings({'steps': [last]}, p.call('history', [last]))):
                settled.add(sig)
                keep.append(v)
                continue
            dependent[sig] = dependent.get(sig, 0) + 1
            if sig in explained:
                dropped += 1
                continue
            if n is not None and search_budget > 0:
                search_budget -= 1
                size = len(encode_image(case['image']))
                earlier = _PARSELOG[:n]
                cands = [[e] for e in earlier if len(encode_image(e)) == size][-4:]
                cands += [earlier[-k:] for k in (1, 2, 4, 8, 16) if earlier[-k:]]
                for prior in cands:
                    steps = [dict(_st(0, e, 'natural'), unlink=True) for e in prior] + [last]
                    res = p.call('history', steps)
                    if any(f[1] == sig and f[0] == len(steps) - 1 for f in history_findings({'steps': steps}, res)):
                        found = (steps, res)
                        break
        except pristine.PristineError as e:
            ctx.notes.append('confirmation of %s in a new process failed: %s' % (sig, str(e)[-160:]))
            keep.append(v)
            continue
        if found is None:
            v['signature'] = _history_sig(sig)
            v['what'] += ' - NOT reproduced by this parse alone in a new process, nor after the parses that preceded it: it ' \
                         'depends on process state the replay does not rebuild'
            keep.append(v)
            continue
        explained.add(sig)
        saved, ctx.violations = ctx.violations, keep
        try:
            _report_history(ctx, p, {'kind': 'history', 'label': 'found by the single-parse stream: ' + str(case.get('label')),
                                     'steps': found[0]}, found[1], sig)
        finally:
            keep = ctx.violations
            ctx.violations = saved
    if dropped:
        ctx.notes.append('%d further findings of the single-parse stream were effects of earlier parses in this process (not '
                         'reproducible alone); their signatures are reported with a history replay' % dropped)
    ctx.violations[:] = keep
    for v in ctx.violations:
        if isinstance(v.get('case'), dict):
            v['case'].pop('_parsed_before', None)


_PRISTINE = None


def _preload():
    import pyipmi  # noqa: F401
    import pyipmi.hpm  # noqa: F401


def _pristine():
    """the fork server, created the first time a stream asks for it (run() asks before it parses anything)"""
    global _PRISTINE
    if _PRISTINE is None:
        try:
            _PRISTINE = pristine.Pristine({'history': exec_history}, _preload)
        except OSError:
            _PRISTINE = False
    return _PRISTINE or None


# ------------------------------------------------------------------------------------------
# upload
# ------------------------------------------------------------------------------------------
def run_upload(binary, plan, timeout, interval, lat, retry, prior=(), form='bytes'):
    """Drive the real Hpm.upload_binary against the reference device.  Returns (tag, now, device).
    `form`: the argument form the binary is handed over in (dev18.FORMS: bytes, bytearray, list of ints, array('B'),
    str with one character per byte) - the byte values, and so everything the device must see, are the same.
    `prior`: (binary hex, plan string) of uploads made BEFORE on the same Ipmi object (each against a device of
    its own); only the last upload is observed - it must not depend on what the object did earlier."""
    clock = dev18.VirtualClock()
    dev = dev18.HpmDevice(plan, clock, lat)
    ipmi = dev18.make_ipmi(dev)
    if prior:
        for pbin, pplan in prior:
            pclock = dev18.VirtualClock()
            ipmi.interface.device = dev18.HpmDevice(parse_plan(pplan), pclock, lat)
            with dev18.virtual_time(pclock):
                try:
                    ipmi.upload_binary(b'' if pbin == '-' else bytes.fromhex(pbin), timeout=timeout, interval=interval,
                                       retry=retry)
                except Exception:  # noqa
                    pass
        ipmi.interface.device = dev
    with dev18.virtual_time(clock):
        try:
            r = ipmi.upload_binary(dev18.to_form(binary, form), timeout=timeout, interval=interval, retry=retry)
            tag = 'ok' if r is None else 'py:returned:%r' % (r,)
        except Exception as e:  # noqa
            tag = _tag(e)
    return tag, clock.now, dev


def polls_after(trace):
    """number of status requests recorded after each block (before the next block / the end)"""
    out = []
    for ev in trace:
        if ev[0] == 'B':
            out.append(0)
        elif ev[0] == 'S' and out:
            out[-1] += 1
    return out


def first_stop(plan, dev, timeout):
    """The first block after which a correct upload cannot go on, from what the DEVICE did:
    (index, 'rejected', cc)   the block was answered with a code other than 00h / 80h
    (index, 'failed', cc)     accepted with 80h; a status poll then reported the final code cc != 00h
    (index, 'pending', k)     accepted with 80h; every status poll made for it still said 80h (k of them would have)
    None                      every block sent was accepted, directly or by a final 00h that was polled"""
    polls = polls_after(dev.trace)
    for i, a in enumerate(dev.answers):
        if a is None or a == 0:
            continue
        if a != 0x80:
            return (i, 'rejected', a)
        item = plan[i] if i < len(plan) else ('o',)
        k = item[1]
        f = item[2] if item[0] == 'f' else 0
        if timeout > 0:
            if polls[i] <= k:
                return (i, 'pending', k)
            if f != 0:
                return (i, 'failed', f)
    return None


class _DevView(object):
    """what a device recorded, with the unanswered requests that were repeated taken out"""

    def __init__(self, trace, answers):
        self.trace, self.answers = trace, answers


def judge_upload(ctx, case, binary, plan, timeout, tag, dev):
    """Property oracle on the requests the reference device recorded."""
    trace = dev.trace
    blocks = [(ev[1], ev[2]) for ev in trace if ev[0] == 'B']
    if any(ev[0] == 'X' for ev in trace):
        bad = [ev for ev in trace if ev[0] == 'X'][0]
        ctx.violate('C18:upload:malformed-request', 'a request the device cannot interpret was sent', case,
                    expected='Upload firmware block / Get upgrade status', observed=repr(bad)[:200])
        return False
    # Requests that got NO answer (the interface raises IpmiTimeoutError).  The agent cannot tell a lost request from a
    # lost response, so the block has to be taken as NOT delivered: HPM.1 has the agent repeat it with the SAME number
    # and the SAME bytes (a device that did take it sees the number it already has and ignores the duplicate), or the
    # upload ends with an error.  Going on with the next block leaves a hole in the firmware the device holds.
    bpos = [p for p, ev in enumerate(trace) if ev[0] == 'B']
    dropped = set()
    for i, p in enumerate(bpos):
        if dev.answers[i] is not None:
            continue
        if i + 1 < len(bpos):
            nxt = trace[bpos[i + 1]]
            if (nxt[1], nxt[2]) != (trace[p][1], trace[p][2]):
                ctx.violate('C18:upload:block-skipped-after-timeout',
                            'request %d (block number %d, %d bytes) got no answer (IpmiTimeoutError): it was not sent '
                            'again - the next request carries number %d and %s; upload ends with %s, the %d bytes are '
                            'missing on the device' % (i, trace[p][1], len(trace[p][2]), nxt[1],
                                                      'the FOLLOWING bytes' if nxt[2] != trace[p][2] else 'the same bytes',
                                                      tag, len(trace[p][2])), case,
                            expected='B%d:%s again, or an error' % (trace[p][1], _hx(trace[p][2])[:48]),
                            observed='B%d:%s, %s' % (nxt[1], _hx(nxt[2])[:48], tag))
                return False
            dropped.add(i)
        elif tag == 'ok':
            ctx.violate('C18:upload:block-skipped-after-timeout',
                        'the last request (block number %d, %d bytes) got no answer (IpmiTimeoutError): it was not sent '
                        'again and upload_binary returned normally' % (trace[p][1], len(trace[p][2])), case,
                        expected='B%d again, or an error' % trace[p][1], observed='ok')
            return False
    if dropped:
        # judge the rest on what the device ACCEPTS: an unanswered request followed by its exact repetition counts once
        drop_pos = set(bpos[i] for i in dropped)
        dev = _DevView([ev for p, ev in enumerate(trace) if p not in drop_pos],
                       [a for i, a in enumerate(dev.answers) if i not in dropped])
        plan = [x for i, x in enumerate(plan) if i not in dropped]
        trace = dev.trace
        blocks = [(ev[1], ev[2]) for ev in trace if ev[0] == 'B']
    # what the plan means for this binary
    nblocks_needed = (len(binary) + DEVICE_BLOCK_LIMIT - 1) // DEVICE_BLOCK_LIMIT
    sent = b''.join(b for _, b in blocks)
    silent = any(a is None for a in dev.answers)   # the unanswered request the upload ended with an error at
    ok = True
    for i, (num, blk) in enumerate(blocks):
        if num != i % 256:
            ctx.violate('C18:upload:numbering', 'block %d carries number %d, expected %d' % (i, num, i % 256), case,
                        expected=i % 256, observed=num)
            return False
        if not (0 < len(blk) <= DEVICE_BLOCK_LIMIT):
            ctx.violate('C18:upload:block-size', 'block %d has %d bytes (device limit %d)' % (
                i, len(blk), DEVICE_BLOCK_LIMIT), case, expected='1..%d' % DEVICE_BLOCK_LIMIT, observed=len(blk))
            return False
    if sent != binary[:len(sent)]:
        ctx.violate('C18:upload:data', 'the bytes sent are not the binary, in order, once', case,
                    expected=_hx(binary[:64]), observed=_hx(sent[:64]))
        return False
    if timeout > 0:
        bi = -1
        for p, ev in enumerate(trace):
            if ev[0] == 'B':
                bi += 1
                if dev.answers[bi] == 0x80 and not (p + 1 < len(trace) and trace[p + 1][0] == 'S'):
                    ctx.violate('C18:upload:no-status-poll',
                                'block %d was answered "in progress" but no status poll follows it' % bi, case,
                                expected='Get upgrade status', observed=repr(trace[p + 1:p + 2])[:120])
                    return False
    if silent:
        return True
    stop = first_stop(plan, dev, timeout)
    if stop is None:
        if tag != 'ok':
            ctx.violate('C18:upload:raises:' + tag, 'upload fails although no block was rejected', case,
                        expected='ok', observed=tag)
            return False
        if sent != binary:
            ctx.violate('C18:upload:data', 'upload returned but %d of %d bytes were sent' % (len(sent), len(binary)),
                        case, expected=len(binary), observed=len(sent))
            return False
    elif stop[1] == 'rejected':
        first_err = stop[0]
        if tag != 'HpmError':
            ctx.violate('C18:upload:error-not-hpmerror',
                        'block %d rejected with 0x%02x: upload ends with %s instead of HpmError' % (
                            first_err, dev.answers[first_err], tag), case, expected='HpmError', observed=tag)
            return False
        if len(blocks) != first_err + 1 or trace[-1][0] != 'B':
            ctx.violate('C18:upload:continues-after-error', 'requests were sent after the rejected block', case,
                        expected=first_err + 1, observed=len(blocks))
            return False
    elif stop[1] == 'failed':
        j, cc = stop[0], stop[2]
        if tag != 'HpmError' or len(blocks) != j + 1:
            ctx.violate('C18:upload:long-duration-failure-ignored',
                        'block %d was accepted with 80h and Get upgrade status then reported that it FAILED (last '
                        'completion code 0x%02x): %d more block(s) were sent and the upload ends with %s instead of '
                        'HpmError' % (j, cc, len(blocks) - j - 1, tag), case,
                        expected='HpmError, %d blocks' % (j + 1), observed='%s, %d blocks' % (tag, len(blocks)))
            return False
    else:
        j = stop[0]
        if tag == 'ok' or len(blocks) != j + 1:
            ctx.violate('C18:upload:continues-while-in-progress',
                        'block %d was accepted with 80h and every status poll made for it still reported 80h: the upload '
                        'went on all the same (%d more block(s) sent, ends with %s) - it did not wait for the status before '
                        'continuing' % (j, len(blocks) - j - 1, tag), case,
                        expected='an error, %d blocks' % (j + 1), observed='%s, %d blocks' % (tag, len(blocks)))
            return False
    return ok and nblocks_needed >= 0


def _form_sig(sig, form):
    return '%s:%s-binary' % (sig, form)


def upload_findings(case, binary, plan, tag, dev):
    """judge_upload on what the device recorded -> [violation].  When the binary was handed over in another form
    than bytes and the SAME upload (binary, plan, timing) made with a bytes object does not show a finding, the
    finding belongs to the argument form: its signature says so (C18:upload:data:str-binary)."""
    c = _Collect()
    judge_upload(c, case, binary, plan, case['timeout'], tag, dev)
    form = case.get('form', 'bytes')
    if c.violations and form != 'bytes':
        tag0, _, dev0 = run_upload(binary, plan, case['timeout'], case['interval'], case['lat'], case['retry'],
                                   [tuple(x) for x in case.get('prior', [])])
        c0 = _Collect()
        judge_upload(c0, case, binary, plan, case['timeout'], tag0, dev0)
        plain = set(v['signature'] for v in c0.violations)
        for v in c.violations:
            if v['signature'] not in plain:
                v['signature'] = _form_sig(v['signature'], form)
                v['what'] = 'binary given as %s: %s (the same upload made with a bytes object conforms)' % (
                    FORM_NAMES[form], v['what'])
    return c.violations


FORM_NAMES = {'bytes': 'bytes', 'bytearray': 'bytearray', 'list': 'list of ints', 'array': "array('B')",
              'str': 'str (one character per byte)'}


def gen_plan(rng, nblocks, kind):
    if kind == 'none' or nblocks == 0:
        return []
    plan = [('o',)] * nblocks
    if kind in ('inprog', 'inprog+err', 'inprog+silent', 'inprog+fail'):
        p = rng.choice([0.05, 0.3, 1.0])
        plan = [('p', rng.choice([0, 0, 1, 2, 3, 7, 40])) if rng.random() < p else ('o',) for _ in range(nblocks)]
        if not any(x[0] == 'p' for x in plan):
            plan[rng.randrange(nblocks)] = ('p', 1)
    if kind in ('fail', 'inprog+fail'):
        # one block accepted with 80h whose long duration command then FAILS (HPM.1: final code in the status)
        j = rng.choice([0, nblocks - 1, rng.randrange(nblocks)])
        cc = rng.choice([0xFF, 0x81, 0x82, 0x83, 0xC0, 0xC9, 0xD5, 0x01, 0x7f, rng.randrange(1, 256)])
        if cc == 0x80:
            cc = 0x82
        plan[j] = ('f', rng.choice([0, 0, 1, 2, 3]), cc)
    if kind in ('err', 'inprog+err'):
        j = rng.choice([0, nblocks - 1, rng.randrange(nblocks)])
        cc = rng.choice([0xC0, 0xC1, 0xC7, 0xC9, 0xD5, 0xFF, 0x81, 0x82, 0x01, 0x7f, rng.randrange(1, 256)])
        if cc == 0x80:
            cc = 0x81
        plan[j] = ('e', cc)
    if kind in ('silent', 'inprog+silent'):
        for _ in range(rng.choice([1, 1, 2, 3, 4])):
            plan[rng.randrange(nblocks)] = ('t',)
    while plan and plan[-1] == ('o',):
        plan.pop()
    return plan


UPLOAD_SIZES = [0, 1, 21, 22, 23, 43, 44, 45, 255 * 22 - 1, 255 * 22, 255 * 22 + 1, 256 * 22 - 1, 256 * 22,
                256 * 22 + 1, 257 * 22, 5999, 6000]
TIMINGS = [(20, 1, 0), (20, 1, 0), (5, 2, 1), (1, 1, 0), (3, 1, 2), (7, 3, 0)]


def check_upload(ctx, drv, bs, binary, plan, timing, retry, label, judge=True, sample=False, prior=(), form='bytes'):
    timeout, interval, lat = timing
    case = {'kind': 'upload', 'label': label, 'binary': _hx(binary), 'plan': dev18.plan_str(plan),
            'timeout': timeout, 'interval': interval, 'lat': lat, 'retry': retry, 'form': form}
    if prior:
        case['prior'] = [[a, b] for a, b in prior]
        ctx.count('upload:after-%d-earlier-uploads-on-the-same-object' % len(prior))
    tag, now, dev = run_upload(binary, plan, timeout, interval, lat, retry, prior, form)
    toks = dev18.trace_tokens(dev.trace)
    nb = sum(1 for ev in dev.trace if ev[0] == 'B')
    ctx.case(('upload', binary, case['plan'], timing, retry) + ((form,) if form != 'bytes' else ()), nontrivial=nb > 0)
    ctx.count('upload:form=' + form)
    if form == 'str':
        ctx.count('upload:form=str:' + ('with-characters-80h..FFh' if any(b >= 0x80 for b in binary) else '7-bit-only'))
    ctx.count('upload:blocks=' + ('0' if nb == 0 else '1..255' if nb < 256 else '256' if nb == 256 else '>256'))
    ctx.count('upload:outcome=' + tag)
    ctx.count('upload:answered-80h', sum(1 for a in dev.answers if a == 0x80))
    ctx.count('upload:status-polls', sum(1 for ev in dev.trace if ev[0] == 'S'))
    ctx.count('upload:rejected', sum(1 for a in dev.answers if a not in (0, 0x80, None)))
    ctx.count('upload:silent', sum(1 for a in dev.answers if a is None))
    good = True
    silent = any(a is None for a in dev.answers)
    if judge:
        found = upload_findings(case, binary, plan, tag, dev)
        ctx.violations.extend(found)
        good = not found
    if drv is not None:
        m = drv.ask('%s %d %d %d %d %d %d %s %s' % ('uploadr' if _RESEND else 'upload', _CHECKED, bs, timeout, interval, lat, retry, _hx(binary),
                                                         case['plan']))
        code = ('%s %d %s' % (tag, now, ' '.join(toks))).strip()
        if m.strip() != code:
            ctx.disagree('upload', case, _tok_diff(m, code), _tok_diff(code, m))
        # the Lean Spec oracle must agree with the harness oracle on what the real code did
        if judge and timeout > 0 and not silent and not any(ev[0] == 'X' for ev in dev.trace):
            stop = first_stop(plan, dev, timeout)
            if stop is None:
                j = drv.ask('judge %d %s %s %s' % (DEVICE_BLOCK_LIMIT, case['plan'], _hx(binary), ' '.join(toks)))
                lean_ok = j.startswith('exact=1') and tag == 'ok'
            elif stop[1] == 'rejected':
                j = drv.ask('judgeabort %d %s %s %d %s' % (DEVICE_BLOCK_LIMIT, case['plan'], _hx(binary), stop[0],
                                                          ' '.join(toks)))
                lean_ok = j == 'aborted=1' and tag == 'HpmError'
            else:
                item = plan[stop[0]]
                j = drv.ask('judgelong %d %s %s %d %d %s' % (DEVICE_BLOCK_LIMIT, case['plan'], _hx(binary), stop[0],
                                                             item[1], ' '.join(toks)))
                if stop[1] == 'failed':
                    lean_ok = j == 'abortedlong=1 sawfinal=1' and tag == 'HpmError'
                else:
                    lean_ok = j == 'abortedlong=1 sawfinal=0' and tag != 'ok'
                ctx.count('upload:long-duration-' + stop[1])
            if lean_ok != good:
                ctx.disagree('oracle', case, j, 'harness oracle says %s' % ('conforms' if good else 'violated'))
        if sample:
            ctx.sample({'binary_len': len(binary), 'plan': case['plan'][:60], 'timing': timing, 'outcome': tag,
                        'blocks': nb, 'model==real': m.strip() == code})


def _tok_diff(a, b):
    ta, tb = a.split(), b.split()
    for i, t in enumerate(ta):
        if i >= len(tb) or tb[i] != t:
            return 'token %d: %s (of %d)' % (i, t[:80], len(ta))
    return '%d tokens' % len(ta)


# binaries whose VALUES matter for the argument forms (text form: characters 80h..FFh, NUL, bytes that read as UTF-8)
FORM_BINARIES = [
    ('7f-80-ff', bytes([0x7f, 0x80, 0xff])),
    ('every-byte-value', bytes(range(256))),
    ('every-7-bit-value', bytes(range(128))),
    ('ascii-text', b'plain ASCII firmware text 0123456789' * 3),
    ('45xFF', b'\xff' * 45),
    ('22x80', b'\x80' * 22),
    ('one-high-byte-at-the-block-end', b'A' * 21 + b'\xe9' + b'B' * 21 + b'\x80'),
    ('utf8-looking', 'Gr\u00fc\u00dfe \u20ac \u00e9t\u00e9'.encode('utf-8') * 3),
    ('23-zero-bytes', bytes(23)),
    ('high-half-descending', bytes(range(255, 127, -1))),
]


def upload_streams(ctx, drv, rng, scale, frng=None):
    import pyipmi.hpm as H
    try:
        bs = int(H.Hpm._determine_max_block_size())
    except Exception:  # noqa
        bs = 22
    frng = frng or ctx.rng('upload-form')
    kinds = ['none', 'inprog', 'inprog', 'err', 'inprog+err', 'silent', 'inprog+silent', 'fail', 'inprog+fail']
    n = 0
    for size in UPLOAD_SIZES:
        binary = _rb(rng, size)
        nblocks = (size + bs - 1) // bs if bs > 0 else 0
        for kind in (kinds if size in (0, 23, 256 * 22 + 1, 6000) else ['none', rng.choice(kinds[1:])]):
            plan = gen_plan(rng, nblocks, kind)
            check_upload(ctx, drv, bs, binary, plan, rng.choice(TIMINGS), rng.choice([3, 3, 1, 2, 5]),
                         'size%d/%s' % (size, kind), sample=(n % 9 == 0))
            n += 1
        # the same binary in every other argument form (the byte values are the same: so must the requests be)
        for form in dev18.FORMS[1:]:
            kind = 'none' if form != frng.choice(dev18.FORMS[1:]) else frng.choice(['inprog', 'inprog+err', 'fail'])
            check_upload(ctx, drv, bs, binary, gen_plan(frng, nblocks, kind), frng.choice(TIMINGS), 3,
                         'size%d/form-%s/%s' % (size, form, kind), form=form)
    for name, binary in FORM_BINARIES:
        nblocks = (len(binary) + bs - 1) // bs if bs > 0 else 0
        for form in dev18.FORMS:
            check_upload(ctx, drv, bs, binary, [], (20, 1, 0), 3, 'form-%s/%s/none' % (form, name), form=form,
                         sample=(form == 'str' and name == 'every-byte-value'))
            check_upload(ctx, drv, bs, binary, gen_plan(frng, nblocks, 'inprog'), (20, 1, 0), 3,
                         'form-%s/%s/inprog' % (form, name), form=form)
    # every block answered 80h across the 255 -> 0 wrap; error exactly at the wrap
    binary = _rb(rng, 258 * 22)
    check_upload(ctx, drv, bs, binary, [('p', 1)] * 258, (20, 1, 0), 3, 'all-in-progress', sample=True)
    check_upload(ctx, drv, bs, binary, [('o',)] * 255 + [('p', 2), ('e', 0xC3)], (20, 1, 0), 3, 'error-at-wrap')
    check_upload(ctx, drv, bs, binary[:100], [('p', 100)], (20, 1, 0), 3, 'poll-time-out')
    check_upload(ctx, drv, bs, binary[:100], [('o',), ('f', 0, 0xFF)], (20, 1, 0), 3, 'long-duration-failure')
    check_upload(ctx, drv, bs, binary[:100], [('p', 2), ('f', 3, 0x82), ('e', 0xC1)], (20, 1, 0), 3,
                 'long-duration-failure-after-wait')
    check_upload(ctx, drv, bs, binary, [('o',)] * 255 + [('f', 1, 0xD5)], (20, 1, 0), 3, 'long-duration-failure-at-wrap')
    check_upload(ctx, drv, bs, binary[:100], [('o',), ('o',), ('o',), ('o',), ('f', 2, 0x81)], (20, 1, 0), 3,
                 'long-duration-failure-last-block')
    check_upload(ctx, drv, bs, binary[:100], [('f', 30, 0x81)], (5, 2, 1), 3, 'failure-after-the-time-out')
    check_upload(ctx, drv, bs, binary[:100], [('p', 2)], (0, 1, 0), 3, 'timeout-zero', judge=False)
    silent_streams(ctx, drv, bs, binary, ctx.rng('upload-silent'), scale)
    # the same Ipmi object used for several uploads in a row (a finished one, an empty one, an aborted one before):
    # every upload numbers its blocks from zero and sends exactly its own binary
    for prior in ([(_hx(_rb(rng, 100)), '-')], [('-', '-'), (_hx(_rb(rng, 45)), '-')],
                  [(_hx(_rb(rng, 200)), dev18.plan_str([('o',), ('o',), ('e', 0xC1)]))],
                  [(_hx(_rb(rng, 257 * 22)), '-')], [(_hx(_rb(rng, 30)), dev18.plan_str([('p', 1)]))]):
        for size in (22, 0, 23 * 22 + 1):
            binary = _rb(rng, size)
            nblocks = (size + bs - 1) // bs if bs > 0 else 0
            check_upload(ctx, drv, bs, binary, gen_plan(rng, nblocks, rng.choice(['none', 'inprog'])), (20, 1, 0), 3,
                         'after-earlier-uploads', prior=prior)
    for _ in range(int(40 * scale)):
        r = rng.random()
        size = rng.randrange(0, 200) if r < 0.45 else rng.randrange(0, 6001)
        binary = _rb(rng, size)
        nblocks = (size + bs - 1) // bs if bs > 0 else 0
        kind = rng.choice(kinds)
        check_upload(ctx, drv, bs, binary, gen_plan(rng, nblocks, kind), rng.choice(TIMINGS),
                     rng.choice([3, 3, 1, 2, 5, 0]), 'random/' + kind, form=frng.choice(dev18.FORMS))
        if ctx.time_left() < 20:
            break


def plan_with_silences(rng, nblocks, retry, p, inprog=0.0, err=False):
    """request-indexed plan built PER BLOCK: with probability p a block's request goes unanswered 1..retry+1 times in
    a row before the device answers it (00h, 80h with 0..3 further in-progress polls, or - once - another code)"""
    plan, hit = [], False
    for j in range(nblocks):
        if rng.random() < p or (j == nblocks - 1 and not hit):
            hit = True
            plan += [('t',)] * rng.choice([1, 1, 1, 2, max(1, retry - 1), max(1, retry), retry + 1])
        if err and j == nblocks // 2:
            plan.append(('e', rng.choice([0xC0, 0xC1, 0xD5, 0x81, 0xFF])))
        elif rng.random() < inprog:
            plan.append(('p', rng.choice([0, 1, 2, 3])))
        else:
            plan.append(('o',))
    return plan


def silent_streams(ctx, drv, bs, binary, rng, scale):
    """outcome "no answer" (the interface raises IpmiTimeoutError) in the per-block alphabet: any subset of blocks,
    1..retry+1 consecutive silences, crossed with 80h blocks, another code and the 255 -> 0 wrap"""
    b100 = binary[:100]
    for retry in (3, 1, 2, 5):
        for j in (0, 1, 4):
            for k in sorted(set([1, retry - 1, retry, retry + 1]) - set([0])):
                check_upload(ctx, drv, bs, b100, [('o',)] * j + [('t',)] * k, (20, 1, 0), retry,
                             'silent/block%d-x%d/retry%d' % (j, k, retry), sample=(retry == 3 and j == 1 and k == 1))
    check_upload(ctx, drv, bs, b100, [('o',), ('t',), ('p', 2), ('t',), ('t',), ('o',)], (20, 1, 0), 3,
                 'silent/then-in-progress')
    check_upload(ctx, drv, bs, b100, [('p', 1), ('t',), ('f', 1, 0xC3)], (20, 1, 0), 3, 'silent/then-long-failure')
    check_upload(ctx, drv, bs, b100, [('t',), ('e', 0xC1)], (20, 1, 0), 3, 'silent/then-rejected')
    check_upload(ctx, drv, bs, b100, [('t',), ('p', 1), ('t',), ('o',), ('t',), ('p', 0), ('t',), ('o',), ('t',), ('o',)],
                 (20, 1, 0), 3, 'silent/every-block-once')
    check_upload(ctx, drv, bs, b100[:22], [('t',)], (20, 1, 0), 3, 'silent/only-block')
    check_upload(ctx, drv, bs, binary, [('o',)] * 255 + [('t',)], (20, 1, 0), 3, 'silent/number-255')
    check_upload(ctx, drv, bs, binary, [('o',)] * 256 + [('t',), ('t',)], (20, 1, 0), 3, 'silent/wrap-to-0', sample=True)
    check_upload(ctx, drv, bs, binary, [('o',)] * 10 + [('t',)] + [('o',)] * 189 + [('t',)], (20, 1, 0), 3,
                 'silent/two-far-apart')
    for _ in range(int(5 * scale)):
        size = rng.randrange(1, 300) if rng.random() < 0.7 else rng.randrange(300, 6001)
        nblocks = (size + bs - 1) // bs if bs > 0 else 0
        retry = rng.choice([3, 3, 1, 2, 5])
        mode = rng.choice(['plain', 'inprog', 'inprog', 'err'])
        plan = plan_with_silences(rng, nblocks, retry, rng.choice([0.02, 0.2, 1.0]) if nblocks < 40 else 0.02,
                                  inprog=0.3 if mode != 'plain' else 0.0, err=(mode == 'err'))
        check_upload(ctx, drv, bs, _rb(rng, size), plan, rng.choice(TIMINGS), retry, 'silent/random-' + mode)
        if ctx.time_left() < 20:
            break


# ------------------------------------------------------------------------------------------
# one block: Hpm.upload_firmware_block(number, block) in every argument form
# ------------------------------------------------------------------------------------------
def run_block(number, block, form):
    """-> (tag, device): the requests one call of upload_firmware_block produces"""
    dev = dev18.HpmDevice([])
    ipmi = dev18.make_ipmi(dev)
    try:
        r = ipmi.upload_firmware_block(number, dev18.to_form(block, form))
        tag = 'ok' if r is None else 'py:returned:%r' % (r,)
    except Exception as e:  # noqa
        tag = _tag(e)
    return tag, dev


def block_findings(case):
    """Property oracle for one block: exactly one Upload firmware block request, carrying the number and the byte
    values of the block.  A finding that the bytes form of the same block does not show is named after the form."""
    block = b'' if case['block'] == '-' else bytes.fromhex(case['block'])

    def judge(form):
        tag, dev = run_block(case['number'], block, form)
        want = ['B%d:%s' % (case['number'], _hx(block))]
        got = dev18.trace_tokens(dev.trace)
        c = _Collect()
        if got != want:
            sig = 'C18:upload-block:data'
            if len(got) == 1 and got[0].startswith('B') and got[0].split(':')[0] != want[0].split(':')[0]:
                sig = 'C18:upload-block:number'
            c.violate(sig, 'upload_firmware_block(%d, <%d bytes>) does not send one Upload firmware block request with '
                      'that number and exactly those bytes' % (case['number'], len(block)), case,
                      expected=' '.join(want)[:200], observed=(' '.join(got) or 'no request')[:200] + ' -> ' + tag)
        elif tag != 'ok':
            c.violate('C18:upload-block:raises:' + tag, 'upload_firmware_block fails although the device accepted the '
                      'block', case, expected='ok', observed=tag)
        return c.violations
    form = case.get('form', 'bytes')
    found = judge(form)
    if found and form != 'bytes':
        plain = set(v['signature'] for v in judge('bytes'))
        for v in found:
            if v['signature'] not in plain:
                v['signature'] = _form_sig(v['signature'], form)
                v['what'] = 'block given as %s: %s (the same call with a bytes object conforms)' % (FORM_NAMES[form], v['what'])
    return found


def block_stream(ctx, rng, n):
    directed = [b'', b'\x00', b'\x7f', b'\x80', b'\xff', bytes(range(0x75, 0x8b)), bytes(range(0xea, 0x100)),
                b'\xff' * 22, b'\x80' * 22, b'\x00' * 22, b'ASCII only block 22 b.', b'\xc3\xa9\xc2\x80', b'A' * 21 + b'\xe9']
    numbers = [0, 1, 0x7f, 0x80, 0xfe, 0xff]
    cases = [(numbers[i % len(numbers)], blk) for i, blk in enumerate(directed)]
    for _ in range(n):
        ln = rng.choice([1, 2, 21, 22]) if rng.random() < 0.4 else rng.randrange(0, 23)
        r = rng.random()
        blk = _rb(rng, ln) if r < 0.6 else bytes(rng.randrange(0x80, 0x100) for _ in range(ln)) if r < 0.8 \
            else bytes(rng.randrange(0x80) for _ in range(ln))
        cases.append((rng.choice(numbers) if rng.random() < 0.5 else rng.randrange(256), blk))
    for number, blk in cases:
        for form in dev18.FORMS:
            case = {'kind': 'block', 'number': number, 'block': _hx(blk), 'form': form}
            ctx.case(('block', number, blk, form), nontrivial=len(blk) > 0)
            ctx.count('block:form=' + form)
            if form == 'str':
                ctx.count('block:form=str:' + ('with-characters-80h..FFh' if any(b >= 0x80 for b in blk) else '7-bit-only'))
            ctx.count('block:len=' + ('0' if not blk else '1..21' if len(blk) < 22 else '22'))
            ctx.violations.extend(block_findings(case))


def chunks_stream(ctx, drv, rng, n):
    from pyipmi.utils import chunks
    for i in range(n):
        cnt = rng.choice([1, 2, 3, 7, 16, 22, 23, 255, 256]) if rng.random() < 0.5 else rng.randrange(1, 40)
        ln = rng.choice([0, 1, cnt - 1, cnt, cnt + 1, 2 * cnt, 2 * cnt + 1]) if rng.random() < 0.5 \
            else rng.randrange(0, 300)
        data = _rb(rng, max(0, ln))
        got = [bytes(c) for c in chunks(data, cnt)]
        ctx.case(('chunks', cnt, data), nontrivial=len(data) > 0)
        ctx.count('chunks')
        if b''.join(got) != data or any(not (0 < len(c) <= cnt) for c in got):
            ctx.violate('C18:chunks', 'chunks(data, %d) does not partition the data into pieces of 1..%d bytes' % (
                cnt, cnt), {'kind': 'chunks', 'count': cnt, 'data': _hx(data)},
                expected='pieces concatenating to the data', observed=[_hx(c) for c in got][:6])
        if drv is not None:
            m = drv.ask('chunks %d %s' % (cnt, _hx(data)))
            code = ' '.join(_hx(c) for c in got)
            if m.strip() != code.strip():
                ctx.disagree('chunks', {'kind': 'chunks', 'count': cnt, 'data': _hx(data)}, m[:200], code[:200])


# ------------------------------------------------------------------------------------------
# minimisation of failing inputs
# ------------------------------------------------------------------------------------------
class _Collect(object):
    def __init__(self):
        self.violations = []

    def violate(self, signature, what, case, expected=None, observed=None):
        self.violations.append({'signature': signature, 'what': what, 'case': case,
                                'expected': expected, 'observed': observed})


def _parse_violation(work, img, label, sig):
    c = _Collect()
    judge_parse(c, {'kind': 'parse', 'label': label, 'image': img}, view_of(img),
                real_parse(work, encode_image(img)))
    for v in c.violations:
        if v['signature'] == sig:
            return v
    return None


def shrink_parse(work, v):
    import copy
    sig, img = v['signature'], copy.deepcopy(v['case']['image'])
    best = v
    progress = True
    while progress:
        progress = False
        cands = []
        for i in range(len(img['recs'])):
            if len(img['recs']) > 1:
                c = copy.deepcopy(img)
                del c['recs'][i]
                cands.append(c)
        for i, r in enumerate(img['recs']):
            if r['k'] == 2:
                for fw in ('', r['fw'][:2]):
                    if len(fw) < len(r['fw']):
                        c = copy.deepcopy(img)
                        c['recs'][i]['fw'] = fw
                        cands.append(c)
                c = copy.deepcopy(img)
                c['recs'][i] = {'k': 0, 'c': 1}
                cands.append(c)
                if r['ver'] != [1, 0, 0, 0, 0, 0]:
                    c = copy.deepcopy(img)
                    c['recs'][i]['ver'] = [1, 0, 0, 0, 0, 0]
                    cands.append(c)
            elif (r['k'], r['c']) != (0, 1):
                c = copy.deepcopy(img)
                c['recs'][i] = {'k': 0, 'c': 1}
                cands.append(c)
        oem = img['hdr']['oem']
        for o in ('', oem[:2]):
            if len(o) < len(oem):
                c = copy.deepcopy(img)
                c['hdr']['oem'] = o
                cands.append(c)
        plain = {'fv': 0, 'dev': 0, 'man': 0, 'prod': 0, 'time': 0, 'cap': 0, 'comps': 0, 'st': 0, 'rb': 0, 'ina': 0,
                 'ecr': [0, 0], 'fr': [0, 0, 0, 0, 0, 0]}
        if any(img['hdr'][k] != plain[k] for k in plain):
            c = copy.deepcopy(img)
            c['hdr'].update(copy.deepcopy(plain))
            cands.append(c)
        for c in cands:
            nv = _parse_violation(work, c, 'minimised', sig)
            if nv is not None:
                img, best, progress = c, nv, True
                break
    return best


def _upload_violation(case, sig):
    binary = b'' if case['binary'] == '-' else bytes.fromhex(case['binary'])
    plan = parse_plan(case['plan'])
    tag, now, dev = run_upload(binary, plan, case['timeout'], case['interval'], case['lat'], case['retry'],
                               form=case.get('form', 'bytes'))
    for v in upload_findings(case, binary, plan, tag, dev):
        if v['signature'] == sig:
            return v
    return None


def parse_plan(s):
    plan = []
    if s != '-':
        for t in s.split(','):
            if t[0] == 'f':
                k, cc = t[1:].split('.')
                plan.append(('f', int(k), int(cc)))
            else:
                plan.append((t[0],) if t in ('o', 't') else (t[0], int(t[1:])))
    return plan


def shrink_upload(v):
    sig, case = v['signature'], dict(v['case'])
    binary = b'' if case['binary'] == '-' else bytes.fromhex(case['binary'])
    plan = parse_plan(case['plan'])
    best = v

    def attempt(b, p):
        c = dict(case, binary=_hx(b), plan=dev18.plan_str(p), label='minimised')
        return _upload_violation(c, sig)
    # smallest prefix (whole blocks of 22, then single bytes) that still fails
    sizes = sorted(set([n * 22 for n in range(0, len(binary) // 22 + 1)] + list(range(0, 45))))
    for n in sizes:
        if n >= len(binary):
            break
        nv = attempt(binary[:n], plan[:(n + 21) // 22])
        if nv is not None:
            best, binary, plan = nv, binary[:n], plan[:(n + 21) // 22]
            break
    for i in range(len(plan)):
        if plan[i] != ('o',):
            p2 = list(plan)
            p2[i] = ('o',)
            nv = attempt(binary, p2)
            if nv is not None:
                best, plan = nv, p2
    nv = attempt(bytes(len(binary)), plan)
    if nv is not None:
        best = nv
    return best


def minimise(ctx, work):
    seen = set()
    for v in ctx.violations:
        if v['signature'] in seen:
            continue
        seen.add(v['signature'])
        try:
            kind = v['case'].get('kind')
            nv = shrink_parse(work, v) if kind == 'parse' else shrink_upload(v) if kind == 'upload' else None
        except Exception as e:  # noqa  (minimisation is best effort)
            ctx.notes.append('minimisation of %s failed: %s' % (v['signature'], type(e).__name__))
            nv = None
        if nv is not None and nv is not v and kind == 'parse' and _pristine() is not None:
            # this process has parsed a lot by now: the minimised image must show the finding in a new process too
            try:
                st = _st(0, nv['case']['image'], 'natural')
                if not any(f[1] == v['signature'] for f in history_findings({'steps': [st]}, _pristine().call('history', [st]))):
                    nv = None
            except pristine.PristineError:
                nv = None
        if nv is not None and nv is not v:
            v.update(nv)


# ------------------------------------------------------------------------------------------
# entry points
# ------------------------------------------------------------------------------------------
def _driver(ctx):
    try:
        drv = ctx.driver('drv_c18')
        if drv.ask('ping') != 'pong':
            return None
        return drv
    except lean.LeanError:
        return None


def _streams(ctx, tag, scale):
    drv = _driver(ctx)
    if drv is None:
        ctx.notes.append('driver not available: the real code is judged by the harness oracle only')
    _pristine()         # forked now: this process has not parsed anything yet
    work = Work(ctx)
    try:
        if drv is not None and _k is not None:
            want = [_k[x] for x in ('block_size', 'block_mask', 'block_incr', 'first_block', 'cc_in_progress',
                                    'oem_start', 'trailer_len', 'up_data_start', 'up_len_extra', 'rec_header_len',
                                    'default_retry', 'default_timeout_tenths', 'default_interval_tenths',
                                    'minor_bcd_max', 'minor_undefined')]
            got = drv.ask('consts')
            if got != _nl(want):
                ctx.disagree('generated-constants', {}, got, _nl(want))
        variant = probe_variant(ctx, work)
        global _CHECKED
        _CHECKED = probe_upload_variant(ctx)
        global _RESEND
        _RESEND = probe_resend_variant(ctx)
        history_stream(ctx, drv, variant, ctx.rng(tag + '/history'), int(10 * scale))
        first = len(ctx.violations)
        global _KEEP
        _KEEP = []
        rng = ctx.rng(tag + '/parse')
        n = 0
        for label, img in directed_images(rng):
            check_image(ctx, drv, work, variant, label, img, sample=(n % 12 == 0))
            n += 1
        for i in range(int(70 * scale)):
            check_image(ctx, drv, work, variant, 'random%d' % i, gen_image(rng, ctx.tier), sample=(i % 40 == 0))
            if ctx.time_left() < 40:
                break
        recheck_kept(ctx)
        ctx.extra['kept_results_re_read'] = len(_KEEP or [])
        _KEEP = None
        confirm_single_parses(ctx, first)
        malformed_stream(ctx, drv, work, variant, ctx.rng(tag + '/malformed'), int(60 * scale))
        chunks_stream(ctx, drv, ctx.rng(tag + '/chunks'), int(150 * scale))
        block_stream(ctx, ctx.rng(tag + '/block'), int(15 * scale))
        upload_streams(ctx, drv, ctx.rng(tag + '/upload'), scale, ctx.rng(tag + '/upload-form'))
        minimise(ctx, work)
    finally:
        work.close()


def run(ctx):
    _streams(ctx, "run", 4.0 if ctx.tier == "quick" else 200.0)


def search(ctx):
    """Every property clause is judged on the real code in `run` already; when a tie broke and
    nothing was found, look again with fresh and more inputs."""
    if ctx.time_left() > 30:
        _streams(ctx, 'search', 6.0)


def replay(ctx, v):
    case = v['case']
    c2 = ctx.__class__('C18', 'quick', 0)
    if case.get('kind') == 'parse':
        work = Work(c2)
        try:
            img = case['image']
            data = encode_image(img)
            real = real_parse(work, data)
            exp = view_of(img)
            print('image of %d bytes, %d records, %d OEM bytes' % (len(data), len(img['recs']),
                                                                   len(img['hdr']['oem']) // 2))
            print('  specification demands: %s' % exp[:300])
            print('  UpgradeImage() gives : %s' % real[:300])
            judge_parse(c2, case, exp, real)
        finally:
            work.close()
    elif case.get('kind') == 'reread':
        import pyipmi.hpm as H
        work = Work(c2)
        try:
            def load(hx):
                with open(work.path, 'wb') as f:
                    f.write(bytes.fromhex(hx) if hx != '-' else b'')
                return H.UpgradeImage(work.path)
            im = load(case['data'])
            first = _view(im)
            keep = [load(hx) for hx in case['later']]
            now = _view(im)
            print('  right after parsing  : %s' % first[:300])
            print('  after %d later parses : %s' % (len(keep), now[:300]))
            return now != first
        finally:
            work.close()
    elif case.get('kind') == 'history':
        # the whole history, in this (new) process
        res = exec_history(case['steps'])
        found = history_findings(case, res)
        bad = dict((f[0], f) for f in reversed(found))
        for i, (st, got) in enumerate(zip(case['steps'], res['steps'])):
            print('step %d: %s' % (i, _describe_step(st)))
            print('    file: %d bytes, mtime %d ns -> %s' % (got['size'], got['mtime_ns'],
                                                           'as the image in the file demands' if i not in bad else 'WRONG'))
            if i in bad:
                print('    %s: %s' % (bad[i][1], bad[i][2]))
                print('    image in the file: %s' % str(bad[i][3])[:200])
                print('    parser returned  : %s' % str(bad[i][4])[:200])
        return bool(found)
    elif case.get('kind') == 'upload':
        binary = b'' if case['binary'] == '-' else bytes.fromhex(case['binary'])
        plan = parse_plan(case['plan'])
        prior = [tuple(x) for x in case.get('prior', [])]
        form = case.get('form', 'bytes')
        tag, now, dev = run_upload(binary, plan, case['timeout'], case['interval'], case['lat'], case['retry'], prior, form)
        print('binary handed to upload_binary as %s%s' % (FORM_NAMES[form], '' if form != 'str' else
              ' (%d of its characters are 80h..FFh)' % sum(1 for b in binary if b >= 0x80)))
        if prior:
            print('after %d earlier upload(s) on the same Ipmi object: %s' % (
                len(prior), ', '.join('%d bytes' % (0 if a == '-' else len(a) // 2) for a, _ in prior)))
        print('upload of %d bytes, plan %s -> %s' % (len(binary), case['plan'][:80], tag))
        print('  requests: %s' % ' '.join(dev18.trace_tokens(dev.trace))[:400])
        sent = b''.join(ev[2] for ev in dev.trace if ev[0] == 'B')
        print('  binary  : %d bytes %s' % (len(binary), _hx(binary[:32])))
        print('  on wire : %d bytes %s, largest block %d bytes' % (
            len(sent), _hx(sent[:32]), max([len(ev[2]) for ev in dev.trace if ev[0] == 'B'] or [0])))
        c2.violations.extend(upload_findings(case, binary, plan, tag, dev))
    elif case.get('kind') == 'block':
        tag, dev = run_block(case['number'], b'' if case['block'] == '-' else bytes.fromhex(case['block']),
                             case.get('form', 'bytes'))
        print('upload_firmware_block(%d, %s as %s) -> %s' % (case['number'], case['block'],
                                                           FORM_NAMES[case.get('form', 'bytes')], tag))
        print('  requests: %s' % (' '.join(dev18.trace_tokens(dev.trace)) or 'none')[:300])
        c2.violations.extend(block_findings(case))
    elif case.get('kind') == 'chunks':
        from pyipmi.utils import chunks
        data = b'' if case['data'] == '-' else bytes.fromhex(case['data'])
        got = [bytes(c) for c in chunks(data, case['count'])]
        print('chunks(%d bytes, %d) -> %s' % (len(data), case['count'], [len(c) for c in got]))
        if b''.join(got) != data or any(not (0 < len(c) <= case['count']) for c in got):
            c2.violate('C18:chunks', 'not a partition', case)
    for x in c2.violations:
        print('  %s: %s (expected %s, observed %s)' % (x['signature'], x['what'], str(x['expected'])[:120],
                                                      str(x['observed'])[:120]))
    return bool(c2.violations)
