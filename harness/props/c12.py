"""C12 - SEL retrieval is exact and get-and-clear is atomic."""
import json

from ..lib import lean
from ..sim import dev10
from ..translate import loops10

ID = 'C12'
TARGETS = ['PyIpmi.Props.C12', 'drv_c12']
LEVEL = 'proof'
RULE = ('a case = (reference SEL device: log of 0..50 16-byte records with distinct arbitrary ids, system-event and '
        'OEM types; partial-read limit 1..16 with or without "entire record" support; starting reservation counter; '
        'script of concurrent changes - cancel / append a record / delete the oldest - one slot per request) x one '
        'operation of the real Ipmi object (get_sel_entries / get_sel_entry / get_and_clear_sel_entry) run through '
        'the real codec against the Lean device; compared with the Lean model: outcome, record bytes, complete '
        'request/response trace, final device state (log, deletion record, reservation).  Independently every case is '
        'judged by the property: entries = log, once each, in order; empty log -> nothing; get-and-clear returns '
        'exactly the record the device deleted, the delete carries the reservation of the completed read, nothing is '
        'deleted when an error is raised.  For get-and-clear a cancellation is placed before every request index of '
        'the fault-free run.  Distinct by (device, operation); non-trivial = at least three exchanges.')
ASSUMPTIONS = [
    'the device is the Lean reference device (Spec/SelDevice.lean): CAh for what it does not serve, C5h for a lost '
    'reservation, reservation checked on Get SEL Entry when one is given or the offset is not 0, always on delete',
    'a concurrent log change is a scripted event applied before a request; the real wall clock plays no role',
    'model max_req_len saturates at 0 where Python goes negative: only on a device with partial-read limit 0 '
    '(outside the property, not generated)',
]
TRUSTED = ['harness/translate/loops10.py', 'harness/sim/dev10.py', 'harness/props/c12.py (generators, oracle)']

_consts = None


def translate(ctx):
    global _consts
    _consts = loops10.generate(need='sel')


# ---------------------------------------------------------------------------------------

def dev_line(dev):
    evs = ','.join(dev['evs']) if dev['evs'] else '-'
    return ('dev %d %d %d %d %s %s' % (dev['limit'], 1 if dev['whole'] else 0, dev['cur'], 1 if dev['valid'] else 0,
                                       evs, ' '.join(dev['log']))).strip()


def _entry_hex(e):
    return lean.hexs(bytes(bytearray(e.data.array)))


def real_op(ipmi, op):
    if op[0] == 'entries':
        es = ipmi.get_sel_entries()
        return 'ok ' + (','.join(_entry_hex(e) for e in es) if es else '-')
    if op[0] == 'get':
        e, nxt = ipmi.get_sel_entry(int(op[1]), int(op[2]))
        return 'ok %s %d' % (_entry_hex(e), nxt)
    if op[0] == 'gac':
        e = ipmi.get_and_clear_sel_entry(int(op[1]))
        return 'ok ' + _entry_hex(e)
    raise ValueError(op)


def run_real(drv, dev, op, cap=20000):
    device = dev10.LeanDevice(drv)
    device.load(dev_line(dev))
    iface = dev10.FakeInterface(device, cap=cap, files=('pyipmi/sel.py',), leaves=())
    ipmi = dev10.make_ipmi(iface)
    try:
        out = real_op(ipmi, op)
    except dev10.Hang as e:
        out = dev10.outcome_tag(e)
    except lean.LeanError:
        raise
    except Exception as e:  # noqa
        out = dev10.outcome_tag(e)
    return out, iface.trace, drv.ask('state')


def parse_state(s):
    d = dict(kv.split('=', 1) for kv in s.split(' '))
    log = [] if d['log'] == '-' else d['log'].split(',')
    deleted = [] if d['deleted'] == '-' else [tuple(x.split(':')) for x in d['deleted'].split(',')]
    return {'log': log, 'deleted': deleted, 'cur': int(d['cur']), 'valid': d['valid'] == '1', 'evs': int(d['evs'])}


def _eid(h):
    b = lean.unhex(h)
    return b[0] | b[1] << 8


def _entry_ok(h):
    b = lean.unhex(h)
    return len(b) == 16 and (b[2] == 2 or b[2] >= 0xC0) and _eid(h) not in (0, 0xFFFF)


def _wf(dev):
    ids = [_eid(h) for h in dev['log']]
    adds = [e[1:] for e in dev['evs'] if e.startswith('a')]
    return (all(_entry_ok(h) for h in dev['log'] + adds) and len(set(ids)) == len(ids)
            and 1 <= dev['limit'] and len(dev['log']) < 65535)


def _find(log, rid):
    """(index) of the record a Get/Delete SEL Entry with `rid` designates, or None."""
    if not log:
        return None
    if rid == 0:
        return 0
    if rid == 0xFFFF:
        return len(log) - 1
    for i, h in enumerate(log):
        if _eid(h) == rid:
            return i
    return None


def judge(ctx, dev, op, out, trace, state):
    case = {'dev': dev, 'op': op}
    if not _wf(dev):
        return
    st = parse_state(state)
    log = dev['log']
    faults = [e for e in dev['evs'] if e != 'n']
    if op[0] == 'entries':
        if faults:
            # the log changes while it is read: whatever is returned must still be records exactly as the
            # device stored them at some time during the call (never a mixture of two records), each at most once
            if out.startswith('ok ') and out != 'ok -':
                ever = set(log) | set(e[1:] for e in dev['evs'] if e.startswith('a'))
                got = out[3:].split(',')
                bad = [g for g in got if g not in ever]
                if bad:
                    ctx.violate('C12:get_sel_entries:entry-never-stored',
                                'get_sel_entries returned an entry the device never stored (log changed while it was read)',
                                case, expected='only records of the log (before or after the change)', observed=bad[0])
                elif len(set(got)) != len(got):
                    ctx.violate('C12:get_sel_entries:duplicate', 'get_sel_entries returned a record twice', case,
                                expected='each record at most once', observed=out[:300])
            return
        exp = 'ok ' + (','.join(log) if log else '-')
        if out != exp:
            ctx.violate('C12:get_sel_entries:%s' % ('empty' if not log else 'data'),
                        'get_sel_entries does not return the log as stored (every record once, in order)', case,
                        expected=exp[:300], observed=out[:300])
        elif not log and any(t[0] in (0x43,) for t in trace):
            ctx.violate('C12:get_sel_entries:empty', 'records are requested from an empty log', case,
                        expected='no Get SEL Entry', observed=dev10.show_trace(trace)[:200])
        return
    if op[0] == 'get':
        if faults or not dev['valid'] or int(op[2]) != dev['cur']:
            return
        i = _find(log, int(op[1]))
        if i is None:
            return
        nxt = _eid(log[i + 1]) if i + 1 < len(log) else 0xFFFF
        exp = 'ok %s %d' % (log[i], nxt)
        if out != exp:
            ctx.violate('C12:get_sel_entry:data', 'get_sel_entry does not return the stored record / next record id',
                        case, expected=exp, observed=out[:200])
        return
    if op[0] == 'gac':
        rid = int(op[1])
        if out.startswith('ok '):
            got = out[3:]
            if len(st['deleted']) != 1 or st['deleted'][0][0] != got:
                ctx.violate('C12:get_and_clear_sel_entry:atomic',
                            'get_and_clear_sel_entry returned a record other than the one record the device deleted',
                            case, expected='deletion record = [returned record %s]' % got,
                            observed='deleted=%s' % (st['deleted'],))
                return
            # the delete carried the reservation of the completed read
            res_used = int(st['deleted'][0][1])
            last_reserve = max(i for i, t in enumerate(trace) if t[0] == 0x42)
            rsp = trace[last_reserve][2]
            handed = rsp[1] | rsp[2] << 8 if len(rsp) == 3 else None
            tail = trace[last_reserve + 1:]
            gets = [t for t in tail if t[0] == 0x43]
            dels = [t for t in tail if t[0] == 0x46]
            same = (handed == res_used and gets and len(dels) == 1 and tail[-1][0] == 0x46
                    and all((t[1][0] | t[1][1] << 8) == handed for t in tail)
                    and sum(len(t[2]) - 3 for t in gets if t[2][:1] == b'\x00') >= 16)
            if not same:
                ctx.violate('C12:get_and_clear_sel_entry:reservation',
                            'the delete was not issued under the reservation under which the record was read', case,
                            expected='reserve -> complete read -> delete, all under one reservation',
                            observed=dev10.show_trace(trace[last_reserve:])[:300])
                return
        else:
            if st['deleted']:
                ctx.violate('C12:get_and_clear_sel_entry:atomic',
                            'get_and_clear_sel_entry raised %s although the device deleted a record' % out, case,
                            expected='nothing deleted', observed='deleted=%s' % (st['deleted'],))
                return
        # with cancellations only (the log itself never changes) the call must succeed with the stored record
        if all(e in ('n', 'c') for e in dev['evs']):
            i = _find(log, rid)
            if i is not None:
                exp = 'ok ' + log[i]
                rest = log[:i] + log[i + 1:]
                if out != exp or st['log'] != rest:
                    ctx.violate('C12:get_and_clear_sel_entry:result',
                                'get_and_clear_sel_entry does not return and remove the addressed record', case,
                                expected=exp + ' / log=' + ','.join(rest)[:200],
                                observed=out[:120] + ' / log=' + ','.join(st['log'])[:200])


def _first_diff(a, b):
    xa, xb = a.split(','), b.split(',')
    for i, (p, q) in enumerate(zip(xa, xb)):
        if p != q:
            return 'exchange %d: model %s / code %s' % (i, p[:80], q[:80])
    return 'length: model %d / code %d exchanges' % (len(xa), len(xb))


def one_case(ctx, drv, dev, op, compare=True):
    out, trace, state = run_real(drv, dev, op)
    judge(ctx, dev, op, out, trace, state)
    ctx.case((dev_line(dev), tuple(op)), nontrivial=len(trace) >= 3)
    if compare:
        mop = list(op)
        if op[0] == 'gac':
            mop = ['gac', op[1], str(len(dev['evs']) + 2)]
        model = drv.ask('run ' + ' '.join(mop))
        parts = model.split(' | ')
        code = [out, dev10.show_trace(trace), state]
        if parts != code:
            if len(parts) == 3 and parts[0] == out and parts[2] == state:
                what = 'trace: ' + _first_diff(parts[1], code[1])
            elif len(parts) == 3:
                what = 'outcome/state: model %s %s / code %s %s' % (parts[0][:100], parts[2][-60:], out[:100], state[-60:])
            else:
                what = 'driver: ' + model[:200]
            ctx.disagree(op[0], {'dev': dev, 'op': op}, what, out[:200])
    return out, trace


# ---- generators --------------------------------------------------------------------------

def gen_entry(rng, rid):
    t = 2 if rng.random() < 0.5 else rng.randrange(0xC0, 0x100)
    if rng.random() < 0.1:
        t = rng.choice([0xC0, 0xDF, 0xE0, 0xFF])
    body = [rng.randrange(256) for _ in range(13)]
    if rng.random() < 0.15:
        body = [rng.choice([0, 0xFF])] * 13
    return lean.hexs(bytes(bytearray([rid & 0xff, rid >> 8, t] + body)))


def gen_log(rng, n):
    pool = [1, 2, 3, 0xFF, 0x100, 0x101, 0xFFFE, 0xFFFD, 0x8000, 0x7FFF]
    ids = set()
    while len(ids) < n:
        ids.add(rng.choice(pool) if rng.random() < 0.3 else rng.randrange(1, 0xFFFF))
    ids = list(ids)
    if rng.random() < 0.5:
        ids.sort()
    else:
        rng.shuffle(ids)
    return [gen_entry(rng, i) for i in ids]


def gen_device(rng, n=None):
    if n is None:
        n = rng.choice([0, 1, 1, 2, 3, 5, 8, 13, 21, 50]) if rng.random() < 0.8 else rng.randrange(0, 51)
    whole = rng.random() < 0.35
    limit = rng.randrange(1, 17)
    if rng.random() < 0.1:
        limit = rng.choice([16, 17, 32, 255])
    return {'log': gen_log(rng, n), 'limit': limit, 'whole': whole,
            'cur': rng.choice([0, 1, 0x7FFF, 0xFFFD, 0xFFFE, 0xFFFF, rng.randrange(0x10000)]),
            'valid': False, 'evs': []}


def _fresh_entry(rng, dev):
    used = set(_eid(h) for h in dev['log'])
    while True:
        rid = rng.randrange(1, 0xFFFF)
        if rid not in used:
            return gen_entry(rng, rid)


def run(ctx):
    drv = ctx.driver('drv_c12')
    rng = ctx.rng('c12')
    quick = ctx.tier == 'quick'

    def go(dev, op, tag):
        out, trace = one_case(ctx, drv, dev, op)
        ctx.count('op:' + op[0])
        ctx.count('gen:' + tag)
        ctx.count('serves:' + ('whole' if dev['whole'] else 'partial-%s' % (
            '1' if dev['limit'] == 1 else '2-15' if dev['limit'] < 16 else '16+')))
        ctx.count('log:%s' % ('0' if not dev['log'] else '1' if len(dev['log']) == 1 else '2-9' if len(dev['log']) < 10 else '10-50'))
        ctx.count('outcome:' + out.split(' ')[0].split(':')[0])
        nf = sum(1 for e in dev['evs'] if e != 'n')
        ctx.count('faults:%s' % ('0' if nf == 0 else '1' if nf == 1 else '2+'))
        ctx.count('exchanges', len(trace))
        if len(ctx.samples) < 6 and 3 <= len(trace) < 14:
            ctx.sample({'device': dev_line(dev)[:200], 'op': ' '.join(op), 'outcome': out[:80],
                        'trace': dev10.show_trace(trace)[:300]})
        return out, trace

    # 1. whole log: every limit 1..16 and whole-record, empty log, one record, many
    for limit in range(1, 17):
        for whole in (False, True):
            for n in ((0, 1, 4) if quick else (0, 1, 2, 7, 20, 50)):
                dev = gen_device(rng, n)
                dev['limit'], dev['whole'] = limit, whole
                go(dev, ['entries'], 'entries-sweep')
    for _ in range(60 if quick else 800):
        go(gen_device(rng), ['entries'], 'entries-random')
    # 2. single records by id / first / last under a valid reservation
    for _ in range(150 if quick else 2000):
        dev = gen_device(rng, rng.choice([1, 2, 5, 9]))
        dev['valid'] = True
        dev['cur'] = rng.choice([1, 0xFFFF, rng.randrange(1, 0x10000)])
        rid = rng.choice([0, 0xFFFF] + [_eid(h) for h in dev['log']])
        go(dev, ['get', str(rid), str(dev['cur'])], 'get')
    # 2b. listing with one cancellation / deletion / addition before every request index (partial and whole reads)
    for _ in range(12 if quick else 120):
        dev = gen_device(rng, rng.choice([2, 2, 3, 4]))
        if rng.random() < 0.7:
            dev['whole'], dev['limit'] = False, rng.choice([1, 5, 8, 8, 15, rng.randrange(1, 16)])
        out, trace = go(dev, ['entries'], 'entries-clean')
        for k in range(min(len(trace) + 1, 24)):
            for ev in ('c', 'd', 'a'):
                d2 = dict(dev)
                d2['evs'] = ['n'] * k + [ev if ev != 'a' else 'a' + _fresh_entry(rng, dev)]
                go(d2, ['entries'], 'entries-one-fault')
    # 3. get-and-clear: fault-free, then one cancellation / change before every request index
    for _ in range(25 if quick else 200):
        dev = gen_device(rng, rng.choice([1, 2, 3, 6]))
        rid = rng.choice([0, 0xFFFF] + [_eid(h) for h in dev['log']] * 2)
        out, trace = go(dev, ['gac', str(rid)], 'gac-clean')
        for k in range(len(trace) + 1):
            for ev in (('c',) if quick and k % 2 else ('c', 'd', 'a')):
                d2 = dict(dev)
                slot = ev if ev != 'a' else 'a' + _fresh_entry(rng, dev)
                d2['evs'] = ['n'] * k + [slot]
                go(d2, ['gac', str(rid)], 'gac-one-fault')
    # 4. get-and-clear under random fault scripts
    for _ in range(250 if quick else 4000):
        dev = gen_device(rng, rng.choice([1, 2, 3, 4, 8]))
        rid = rng.choice([0, 0xFFFF] + [_eid(h) for h in dev['log']] * 2)
        evs = []
        p = rng.choice([0.05, 0.15, 0.4])
        for _k in range(rng.randrange(0, 60)):
            if rng.random() < p:
                r = rng.random()
                evs.append('c' if r < 0.5 else 'd' if r < 0.75 else 'a' + _fresh_entry(rng, dev))
            else:
                evs.append('n')
        dev['evs'] = evs
        go(dev, ['gac', str(rid)], 'gac-random')
        if ctx.time_left() < 20:
            ctx.notes.append('time budget reached in generator 4')
            break
    # 5. outside the premises (model must mirror): absent record id, reservation missing for partial reads,
    #    malformed records (unknown type / wrong id bytes), faults during get_sel_entries
    for _ in range(80 if quick else 800):
        dev = gen_device(rng, rng.choice([0, 1, 3]))
        r = rng.random()
        if r < 0.25:
            op = ['gac', str(rng.randrange(1, 0xFFFF))]
        elif r < 0.5:
            op = ['get', str(rng.choice([0, 0xFFFF, 5])), '0']
        elif r < 0.75:
            if dev['log']:
                b = bytearray(lean.unhex(dev['log'][0]))
                b[2] = rng.choice([0, 1, 3, 0xBF])
                dev['log'][0] = lean.hexs(bytes(b))
            op = ['entries']
        else:
            dev['evs'] = [rng.choice(['n', 'c', 'd']) for _k in range(rng.randrange(1, 30))]
            op = ['entries']
        go(dev, op, 'outside-premise')
    ctx.extra['constants'] = (_consts or {}).get('sel')


def search(ctx):
    """A tie broke and `run` saw no violation: exhaustive small sweep of the real code against the
    oracle - every limit x whole x log size 0..4 for the listing; get-and-clear with a fault of every
    kind before every request index, for every addressing mode."""
    drv = ctx.driver('drv_c12')
    rng = ctx.rng('c12-search')
    before = len(ctx.violations)
    for limit in range(1, 17):
        for whole in (False, True):
            for n in range(0, 5):
                dev = gen_device(rng, n)
                dev['limit'], dev['whole'] = limit, whole
                one_case(ctx, drv, dev, ['entries'], compare=False)
                if n:
                    for rid in (0, 0xFFFF, _eid(dev['log'][n // 2])):
                        out, trace = one_case(ctx, drv, dev, ['gac', str(rid)], compare=False)
                        for k in range(len(trace) + 1):
                            for ev in ('c', 'd', 'a'):
                                d2 = dict(dev)
                                d2['evs'] = ['n'] * k + [ev if ev != 'a' else 'a' + _fresh_entry(rng, dev)]
                                one_case(ctx, drv, d2, ['gac', str(rid)], compare=False)
                if len(ctx.violations) > before:
                    return
        if ctx.time_left() < 30:
            return


def replay(ctx, v):
    case = v['case']
    dev, op = case['dev'], [str(x) for x in case['op']]
    drv = ctx.driver('drv_c12')
    out, trace, state = run_real(drv, dev, op)
    print('device : %s' % dev_line(dev)[:400])
    print('op     : %s' % ' '.join(op))
    print('code   : %s' % out[:300])
    print('trace  : %s' % dev10.show_trace(trace)[:700])
    print('state  : %s' % state[:400])
    c2 = ctx.__class__('C12', 'quick', 0)
    judge(c2, dev, op, out, trace, state)
    for x in c2.violations:
        print('violated: %s' % x['what'])
        print('  expected: %s' % (json.dumps(x['expected'])[:300]))
        print('  observed: %s' % (json.dumps(x['observed'])[:300]))
    return bool(c2.violations)
