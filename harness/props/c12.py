"""C12 - SEL retrieval is exact and get-and-clear is atomic."""
import json

from ..lib import lean
from ..sim import dev10
from ..translate import loops10

ID = 'C12'
TARGETS = ['PyIpmi.Props.C12', 'drv_c12']
LEVEL = 'proof'
RULE = ('a case = (reference SEL device: log of 0..50 16-byte records with distinct arbitrary ids, system-event and '
        'OEM types; partial-read limit 1..16 with or without "entire record" support; starting reservation counter; '
        'script of concurrent changes - cancel / append a record / delete the oldest - one slot per request) x one '
        'operation of the real Ipmi object (get_sel_entries / get_sel_entry / get_and_clear_sel_entry) run through '
        'the real codec against the Lean device; compared with the Lean model: outcome, record bytes, complete '
        'request/response trace, final device state (log, deletion record, reservation).  Independently every case is '
        'judged by the property: entries = log, once each, in order; empty log -> nothing; get-and-clear returns '
        'exactly the record the device deleted, the delete carries the reservation of the completed read, nothing is '
        'deleted when an error is raised; with fewer changes than rounds and the addressed record still in the log '
        'after every change the call must SUCCEED ("both steps are repeated").  For get-and-clear a cancellation is '
        'placed before every request index of the fault-free run.  DECODING: every SelEntry the library returns is '
        'judged attribute by attribute (record_id, type, timestamp, generator_id, evm_rev, sensor_type, sensor_number, '
        'event_direction, event_type, event_data, data) against the record formats of IPMI v2.0 tables 32-1..3 '
        '(system event: all of them; OEM C0h-DFh: id, type, timestamp, data; OEM E0h-FFh: id, type, data) and compared '
        'with the Lean decoding; records of every type class and boundary (02h, C0h, DFh, E0h, FFh; rejected: 00h, 01h, '
        '03h, BFh) are decoded directly as well.  HISTORIES: several operations (listing / get-and-clear / get under a '
        'fresh reservation, with an explicit retry where the tree has one) on ONE Ipmi object against one evolving '
        'device, each step compared with the model started from the device as it stood (driver `snap`) and judged; '
        'HISTORIES WITH A FAILED OPERATION IN THE MIDDLE: [optionally a listing that negotiates a partial-read size] -> an '
        'operation that ends in an exception - RetryError because the device refuses EVERY length (17 x CAh: busy / '
        'erasing) or because get-and-clear used up its rounds (reservation cancelled before every request), '
        'CompletionCodeError C5h (reservation lost in mid-listing; partial read without reservation) or CBh (absent '
        'record id), DecodingError (a record of no known type, afterwards repaired) - by listing / get / get-and-clear '
        '-> the device is healthy (whole records / 16 / 5 / 1) -> listing / get / get-and-clear on the SAME Ipmi object, '
        'judged by the same oracles against the device as it then stands (every kind x failing operation x with/without '
        'negotiated size x 4 healthy devices, plus seeded random chains of 1-3 failures); the device changes between two '
        'steps by a `device` step (limit / whole / script / log), which is no operation of the library.  '
        'The variant of pyipmi/sel.py (floor of max_req_len, retry budget of get-and-clear, RetryError on a completed '
        'answer without data) is PROBED on the real code (a device that refuses every length; a script that cancels before '
        'every request; a fake that completes every read without a byte) and handed to the model.  '
        'Distinct by (device, operation); non-trivial = at least three exchanges.')
ASSUMPTIONS = [
    'the device is the Lean reference device (Spec/SelDevice.lean): CAh for what it does not serve, C5h for a lost '
    'reservation, reservation checked on Get SEL Entry when one is given or the offset is not 0, always on delete',
    'a concurrent log change is a scripted event applied before a request; the real wall clock plays no role',
    'a device that TRUNCATES a partial read ("completed" with fewer bytes than asked for, at least one) instead of refusing it '
    'with CAh is not the reference device: Props.C12.truncating_device_read_exactly proves the read exact on the scripted '
    'device of Model/SelScript.lean (any sequence of sizes >= 1), and C13 runs the real get_sel_entry / get_and_clear_sel_entry '
    'against that device (letters S<k>; outcome, requests and returned record compared with the model, "a result is the '
    'stored record" judged).  An answer without any record byte cannot complete a read: C13 (RetryError, bounded)',
    'partial-read limit 0 (the device refuses every length) is outside the property; it is generated for the '
    'correspondence with the model and as the FAILING step of a history (what it leaves on the Ipmi object must not '
    'reach the next operation, which meets a device inside the property) (max_req_len is a Python int in the model too: '
    '0, -1 ... as shipped)',
    'the models of get_sel_entry / sel_entries / get_and_clear_sel_entry take the device and nothing else: no state of '
    'the Ipmi object survives a call.  Tied to the tree by harness/translate/loops10.py (`selStateless`: '
    '`self.max_req_len = ENTIRE_RECORD` is an unconditional statement of get_sel_entry in front of its loop and of '
    'every other mention of the attribute, the retrieval functions store no other attribute of self and use no '
    'getattr / setattr / hasattr / __dict__) -> Props.C12.source_variant, and by the histories above on the real object',
    'termination of the two loops of pyipmi/sel.py under a device that refuses / cancels for ever is C13\'s clause '
    '(C13:get_sel_entry:unbounded-after-CAh, C13:get_and_clear_sel_entry:unbounded-after-C5h); the theorems here are '
    'about the repaired variant (Props.C12.source_variant ties it to the tree), and when that tie is broken the '
    'search shows the unbounded get-and-clear on this property\'s own device (a script that cancels before every request)',
    'OEM records: the library fills the system-event attributes (generator_id, sensor_type ... and, for the '
    'non-timestamped types E0h-FFh, timestamp) from the same byte positions; the specification defines no such '
    'fields there, they are not judged (observation: SelEntry has no manufacturer-id / OEM-data attribute, the bytes '
    'are in `data`)',
]
TRUSTED = ['harness/translate/loops10.py', 'harness/sim/dev10.py', 'harness/props/c12.py (generators, oracle)']

_consts = None


def translate(ctx):
    global _consts
    _consts = loops10.generate(need='sel')


# ---------------------------------------------------------------------------------------

def dev_line(dev):
    evs = ','.join(dev['evs']) if dev['evs'] else '-'
    return ('dev %d %d %d %d %s %s' % (dev['limit'], 1 if dev['whole'] else 0, dev['cur'], 1 if dev['valid'] else 0,
                                       evs, ' '.join(dev['log']))).strip()


def _entry_hex(e):
    """the bytes a returned SelEntry holds (an object that is no decoded entry shows as such, never as a record)"""
    d = getattr(getattr(e, 'data', None), 'array', None)
    if d is None:
        return '<%s-without-data>' % type(e).__name__
    return lean.hexs(bytes(bytearray(d)))


def entry_attrs(e):
    """The decoded SelEntry as the driver's `decode` line: id type ts gen evm stype snum deassert etype data."""
    from pyipmi.event import EVENT_ASSERTION, EVENT_DEASSERTION
    d = {EVENT_ASSERTION: 0, EVENT_DEASSERTION: 1}.get(e.event_direction, 'dir=%r' % (e.event_direction,))
    return 'ok %d %d %d %d %d %d %d %s %d %s' % (
        e.record_id, e.type, e.timestamp, e.generator_id, e.evm_rev, e.sensor_type, e.sensor_number, d, e.event_type,
        lean.hexs(bytes(bytearray(e.event_data))))


def real_op(ipmi, op, seen=None):
    """-> outcome text; every SelEntry object returned is appended to `seen`."""
    seen = seen if seen is not None else []
    if op[0] == 'entries':
        es = ipmi.get_sel_entries()
        seen.extend(es)
        return 'ok ' + (','.join(_entry_hex(e) for e in es) if es else '-')
    if op[0] == 'get':
        e, nxt = ipmi.get_sel_entry(int(op[1]), int(op[2]))
        seen.append(e)
        return 'ok %s %d' % (_entry_hex(e), nxt)
    if op[0] == 'gac':
        if len(op) > 2:
            e = ipmi.get_and_clear_sel_entry(int(op[1]), retry=int(op[2]))
        else:
            e = ipmi.get_and_clear_sel_entry(int(op[1]))
        seen.append(e)
        return 'ok ' + _entry_hex(e)
    raise ValueError(op)


def _guarded(ipmi, op, seen):
    try:
        return real_op(ipmi, op, seen)
    except dev10.Hang as e:
        return dev10.outcome_tag(e)
    except lean.LeanError:
        raise
    except Exception as e:  # noqa
        return dev10.outcome_tag(e)


def run_real(drv, dev, op, cap=20000, seen=None):
    device = dev10.LeanDevice(drv)
    device.load(dev_line(dev))
    iface = dev10.FakeInterface(device, cap=cap, files=('pyipmi/sel.py',), leaves=())
    ipmi = dev10.make_ipmi(iface)
    out = _guarded(ipmi, op, seen)
    return out, iface.trace, drv.ask('state')


# ---- the variant of pyipmi/sel.py, probed on the real code -------------------------------------
VARIANT = {'floor': None, 'budget': None, 'empty': False}      # as shipped until probed
PROBE_REC = '010002' + '11' * 13


def probe_variant(drv):
    """floor: a device that refuses every length (limit 0, no whole-record reads) - RetryError behind a last
    request of F+1 bytes means `max_req_len <= F` gives up; anything else (the pinned code goes on to ask for 0
    bytes, which this device refuses with CCh) means there is none.  budget: a script that cancels before every
    request - RetryError after N Reserve SEL means N rounds; no end within 300 requests means `while True`."""
    dev = {'log': [PROBE_REC], 'limit': 0, 'whole': False, 'cur': 1, 'valid': True, 'evs': []}
    out, trace, _ = run_real(drv, dev, ['get', '1', '1'], cap=300)
    floor = None
    if out == 'RetryError' and trace and trace[-1][0] == 0x43:
        floor = trace[-1][1][5] - 1
    dev = {'log': [PROBE_REC], 'limit': 16, 'whole': True, 'cur': 1, 'valid': False, 'evs': ['c'] * 400}
    out, trace, _ = run_real(drv, dev, ['gac', '1'], cap=300)
    budget = sum(1 for t in trace if t[0] == 0x42) if out == 'RetryError' else None
    return {'floor': floor, 'budget': budget, 'empty': probe_empty_stop()}


class _EmptyAnswers(object):
    """Not a conforming device (and none of this property's): every Get SEL Entry is answered `00 FF FF` - completed,
    next record id FFFFh, no record byte.  Only used to see which get_sel_entry the tree has."""

    def request(self, netfn, cmd, payload):
        if netfn == dev10.NETFN_STORAGE and cmd == 0x43:
            return b'\x00\xff\xff'
        return b'\xc1'


def probe_empty_stop():
    """True: get_sel_entry raises RetryError on a completed answer without a record byte (the model's
    `Variant.emptyStop`); False: it sends the same request again (stopped here after 40).  C13's clause - on this
    property's devices (limit >= 1) no answer is empty and the flag plays no role."""
    iface = dev10.FakeInterface(_EmptyAnswers(), cap=40, files=('pyipmi/sel.py',), leaves=())
    out = _guarded(dev10.make_ipmi(iface), ['get', '1', '1'], [])
    return out == 'RetryError' and len(iface.trace) == 1


def set_variant(drv, v):
    VARIANT.update(v)
    r = drv.ask('variant %s %s %d' % ('-' if v['floor'] is None else v['floor'], '-' if v['budget'] is None else v['budget'],
                                      1 if v.get('empty') else 0))
    if r != 'ok':
        raise lean.LeanError('driver rejected variant: %s' % r)


# ---- record formats, IPMI v2.0 tables 32-1 (system event), 32-2 (OEM C0h-DFh), 32-3 (OEM E0h-FFh) ----
def view_of(b):
    """bytes of one record -> the fields the tables define, or None (not 16 bytes / no such record type)."""
    if len(b) != 16:
        return None
    t = b[2]
    v = {'record_id': b[0] | b[1] << 8, 'type': t}
    if t == 0x02:
        v.update(timestamp=b[3] | b[4] << 8 | b[5] << 16 | b[6] << 24, generator_id=b[7] | b[8] << 8, evm_rev=b[9],
                 sensor_type=b[10], sensor_number=b[11], deassert=b[12] >> 7, event_type=b[12] & 0x7F,
                 event_data=list(b[13:16]))
    elif 0xC0 <= t <= 0xDF:
        v.update(timestamp=b[3] | b[4] << 8 | b[5] << 16 | b[6] << 24)
    elif 0xE0 <= t <= 0xFF:
        pass
    else:
        return None
    return v


_decode_cache = {}


def judge_entry(ctx, drv, e, case, stored=None):
    """One SelEntry object the library handed out: attributes against the tables; against the Lean decoding."""
    from pyipmi.event import EVENT_ASSERTION, EVENT_DEASSERTION
    if getattr(getattr(e, 'data', None), 'array', None) is None:
        ctx.violate('C12:SelEntry:undecoded', 'an object that holds no decoded record was returned as SEL entry', case,
                    expected='a SelEntry with its 16 bytes', observed=_entry_hex(e))
        return
    raw = bytes(bytearray(e.data.array))
    hx = lean.hexs(raw)
    v = view_of(raw)
    if v is None:
        ctx.violate('C12:SelEntry:accepted', 'a SelEntry was built from bytes that are no SEL record '
                    '(16 bytes of type 02h / C0h-FFh)', case, expected='DecodingError', observed=hx)
        return
    got = {'record_id': e.record_id, 'type': e.type, 'timestamp': e.timestamp, 'generator_id': e.generator_id,
           'evm_rev': e.evm_rev, 'sensor_type': e.sensor_type, 'sensor_number': e.sensor_number,
           'deassert': {EVENT_ASSERTION: 0, EVENT_DEASSERTION: 1}.get(e.event_direction, e.event_direction),
           'event_type': e.event_type, 'event_data': list(e.event_data)}
    for k in sorted(v):
        if got[k] != v[k]:
            ctx.violate('C12:SelEntry:%s' % k, 'SelEntry.%s of a type %02Xh record is not what the record format says' % (
                k if k != 'deassert' else 'event_direction', raw[2]), dict(case, entry=hx),
                expected='%s = %r' % (k, v[k]), observed='%s = %r' % (k, got[k]))
            return
    ctx.count('decoded:%s' % ('system' if raw[2] == 2 else 'oem-timestamped' if raw[2] < 0xE0 else 'oem-plain'))
    if drv is not None:
        m = _decode_cache.get(hx)
        if m is None:
            m = _decode_cache[hx] = drv.ask('decode ' + hx)
        code = entry_attrs(e)
        if m != code:
            ctx.disagree('decode', dict(case, entry=hx), m, code)


def decode_direct(ctx, drv, hx):
    """SelEntry(bytes) on its own: accepted iff the tables know the record, then judged like any other."""
    import pyipmi.sel
    from pyipmi.utils import ByteBuffer
    raw = lean.unhex(hx)
    case = {'decode': hx}
    try:
        e = pyipmi.sel.SelEntry()
        e._from_response(ByteBuffer(raw))     # (the constructor skips decoding of an empty buffer)
        out = 'ok'
    except Exception as ex:  # noqa
        e, out = None, dev10.outcome_tag(ex)
    ctx.case(('decode', hx))
    if e is not None:
        judge_entry(ctx, drv, e, case)
    else:
        if view_of(raw) is not None:
            ctx.violate('C12:SelEntry:rejected', 'a well-formed SEL record is not decoded', case, expected='a SelEntry',
                        observed=out)
        m = drv.ask('decode ' + hx)
        if m != out:
            ctx.disagree('decode', case, m, out)


def parse_state(s):
    d = dict(kv.split('=', 1) for kv in s.split(' '))
    log = [] if d['log'] == '-' else d['log'].split(',')
    deleted = [] if d['deleted'] == '-' else [tuple(x.split(':')) for x in d['deleted'].split(',')]
    return {'log': log, 'deleted': deleted, 'cur': int(d['cur']), 'valid': d['valid'] == '1', 'evs': int(d['evs'])}


def _eid(h):
    b = lean.unhex(h)
    return b[0] | b[1] << 8


def _entry_ok(h):
    b = lean.unhex(h)
    return len(b) == 16 and (b[2] == 2 or b[2] >= 0xC0) and _eid(h) not in (0, 0xFFFF)


def _wf(dev):
    ids = [_eid(h) for h in dev['log']]
    adds = [e[1:] for e in dev['evs'] if e.startswith('a')]
    return (all(_entry_ok(h) for h in dev['log'] + adds) and len(set(ids)) == len(ids)
            and 1 <= dev['limit'] and len(dev['log']) < 65535)


def _find(log, rid):
    """(index) of the record a Get/Delete SEL Entry with `rid` designates, or None."""
    if not log:
        return None
    if rid == 0:
        return 0
    if rid == 0xFFFF:
        return len(log) - 1
    for i, h in enumerate(log):
        if _eid(h) == rid:
            return i
    return None


def _always_avail(dev, rid):
    """the record `rid` designates exists, and every record is of a known type, now and after every change"""
    log = list(dev['log'])
    states = [list(log)]
    for e in dev['evs']:
        if e == 'd':
            log = log[1:]
        elif e.startswith('a'):
            log = log + [e[1:]]
        if e != 'n':
            states.append(list(log))
    return all(_find(l, rid) is not None and all(_type_ok(h) for h in l) for l in states)


def _type_ok(h):
    b = lean.unhex(h)
    return len(b) == 16 and (b[2] == 2 or b[2] >= 0xC0)


def judge(ctx, dev, op, out, trace, state, deleted_before=0):
    case = {'dev': dev, 'op': op}
    if not _wf(dev):
        return
    st = parse_state(state)
    st['deleted'] = st['deleted'][deleted_before:]       # histories: the deletion record of this step only
    log = dev['log']
    faults = [e for e in dev['evs'] if e != 'n']
    if op[0] == 'entries':
        if faults:
            # the log changes while it is read: whatever is returned must still be records exactly as the
            # device stored them at some time during the call (never a mixture of two records), each at most once
            if out.startswith('ok ') and out != 'ok -':
                ever = set(log) | set(e[1:] for e in dev['evs'] if e.startswith('a'))
                got = out[3:].split(',')
                bad = [g for g in got if g not in ever]
                if bad:
                    ctx.violate('C12:get_sel_entries:entry-never-stored',
                                'get_sel_entries returned an entry the device never stored (log changed while it was read)',
                                case, expected='only records of the log (before or after the change)', observed=bad[0])
                elif len(set(got)) != len(got):
                    ctx.violate('C12:get_sel_entries:duplicate', 'get_sel_entries returned a record twice', case,
                                expected='each record at most once', observed=out[:300])
            return
        exp = 'ok ' + (','.join(log) if log else '-')
        if out != exp:
            ctx.violate('C12:get_sel_entries:%s' % ('empty' if not log else 'data'),
                        'get_sel_entries does not return the log as stored (every record once, in order)', case,
                        expected=exp[:300], observed=out[:300])
        elif not log and any(t[0] in (0x43,) for t in trace):
            ctx.violate('C12:get_sel_entries:empty', 'records are requested from an empty log', case,
                        expected='no Get SEL Entry', observed=dev10.show_trace(trace)[:200])
        return
    if op[0] == 'get':
        if faults or not dev['valid'] or int(op[2]) != dev['cur']:
            return
        i = _find(log, int(op[1]))
        if i is None:
            return
        nxt = _eid(log[i + 1]) if i + 1 < len(log) else 0xFFFF
        exp = 'ok %s %d' % (log[i], nxt)
        if out != exp:
            ctx.violate('C12:get_sel_entry:data', 'get_sel_entry does not return the stored record / next record id',
                        case, expected=exp, observed=out[:200])
        return
    if op[0] == 'gac':
        rid = int(op[1])
        if out.startswith('ok '):
            got = out[3:]
            if len(st['deleted']) != 1 or st['deleted'][0][0] != got:
                ctx.violate('C12:get_and_clear_sel_entry:atomic',
                            'get_and_clear_sel_entry returned a record other than the one record the device deleted',
                            case, expected='deletion record = [returned record %s]' % got,
                            observed='deleted=%s' % (st['deleted'],))
                return
            # the delete carried the reservation of the completed read
            res_used = int(st['deleted'][0][1])
            reserves = [i for i, t in enumerate(trace) if t[0] == 0x42]
            if reserves:
                last_reserve = reserves[-1]
                rsp = trace[last_reserve][2]
                handed = rsp[1] | rsp[2] << 8 if len(rsp) == 3 else None
            else:
                # (a history: no Reserve SEL in THIS call - read and delete went out under a reservation of an
                # earlier call that the device still honoured; judged like the rest: one reservation for both)
                last_reserve, handed = -1, res_used
            tail = trace[last_reserve + 1:]
            gets = [t for t in tail if t[0] == 0x43]
            dels = [t for t in tail if t[0] == 0x46]
            same = (handed == res_used and gets and len(dels) == 1 and tail[-1][0] == 0x46
                    and all((t[1][0] | t[1][1] << 8) == handed for t in tail)
                    and sum(len(t[2]) - 3 for t in gets if t[2][:1] == b'\x00') >= 16)
            if not same:
                ctx.violate('C12:get_and_clear_sel_entry:reservation',
                            'the delete was not issued under the reservation under which the record was read', case,
                            expected='reserve -> complete read -> delete, all under one reservation',
                            observed=dev10.show_trace(trace[max(last_reserve, 0):])[:300])
                return
        else:
            if st['deleted']:
                ctx.violate('C12:get_and_clear_sel_entry:atomic',
                            'get_and_clear_sel_entry raised %s although the device deleted a record' % out, case,
                            expected='nothing deleted', observed='deleted=%s' % (st['deleted'],))
                return
        # "both steps are repeated": fewer changes than rounds and the addressed record still there after every
        # change -> the call succeeds (which record: the atomicity clause above)
        rounds = int(op[2]) if len(op) > 2 else VARIANT['budget']
        if (rounds is None or len(faults) < rounds) and _always_avail(dev, rid) and not out.startswith('ok '):
            ctx.violate('C12:get_and_clear_sel_entry:gives-up',
                        'get_and_clear_sel_entry raised %s although the addressed record was in the log after each of the '
                        '%d changes (%s rounds)' % (out, len(faults), 'unlimited' if rounds is None else rounds), case,
                        expected='the record, read and deleted under one reservation', observed=out)
            return
        # with cancellations only (the log itself never changes) the call must succeed with the stored record
        if all(e in ('n', 'c') for e in dev['evs']) and (rounds is None or len(faults) < rounds):
            i = _find(log, rid)
            if i is not None:
                exp = 'ok ' + log[i]
                rest = log[:i] + log[i + 1:]
                if out != exp or st['log'] != rest:
                    ctx.violate('C12:get_and_clear_sel_entry:result',
                                'get_and_clear_sel_entry does not return and remove the addressed record', case,
                                expected=exp + ' / log=' + ','.join(rest)[:200],
                                observed=out[:120] + ' / log=' + ','.join(st['log'])[:200])


def _first_diff(a, b):
    xa, xb = a.split(','), b.split(',')
    for i, (p, q) in enumerate(zip(xa, xb)):
        if p != q:
            return 'exchange %d: model %s / code %s' % (i, p[:80], q[:80])
    return 'length: model %d / code %d exchanges' % (len(xa), len(xb))


def model_op(dev, op):
    """the driver's `run` arguments: get-and-clear gets its number of rounds - the explicit / default retry of a
    tree with a budget, else fuel beyond the script (the pinned `while True` ends on every finite script)"""
    if op[0] != 'gac':
        return list(op)
    if VARIANT['budget'] is not None:
        return ['gac', op[1], op[2] if len(op) > 2 else str(VARIANT['budget'])]
    return ['gac', op[1], str(len(dev['evs']) + 2)]


def one_case(ctx, drv, dev, op, compare=True):
    seen = []
    out, trace, state = run_real(drv, dev, op, seen=seen)
    judge(ctx, dev, op, out, trace, state)
    for e in seen:
        judge_entry(ctx, drv if compare else None, e, {'dev': dev, 'op': op})
    ctx.case((dev_line(dev), tuple(op)), nontrivial=len(trace) >= 3)
    if compare:
        model = drv.ask('run ' + ' '.join(model_op(dev, op)))
        parts = model.split(' | ')
        code = [out, dev10.show_trace(trace), state]
        if parts != code:
            if len(parts) == 3 and parts[0] == out and parts[2] == state:
                what = 'trace: ' + _first_diff(parts[1], code[1])
            elif len(parts) == 3:
                what = 'outcome/state: model %s %s / code %s %s' % (parts[0][:100], parts[2][-60:], out[:100], state[-60:])
            else:
                what = 'driver: ' + model[:200]
            ctx.disagree(op[0], {'dev': dev, 'op': op}, what, out[:200])
    return out, trace


# ---- generators --------------------------------------------------------------------------

def gen_entry(rng, rid):
    t = 2 if rng.random() < 0.5 else rng.randrange(0xC0, 0x100)
    if rng.random() < 0.1:
        t = rng.choice([0xC0, 0xDF, 0xE0, 0xFF])
    body = [rng.randrange(256) for _ in range(13)]
    if rng.random() < 0.15:
        body = [rng.choice([0, 0xFF])] * 13
    return lean.hexs(bytes(bytearray([rid & 0xff, rid >> 8, t] + body)))


def gen_log(rng, n):
    pool = [1, 2, 3, 0xFF, 0x100, 0x101, 0xFFFE, 0xFFFD, 0x8000, 0x7FFF]
    ids = set()
    while len(ids) < n:
        ids.add(rng.choice(pool) if rng.random() < 0.3 else rng.randrange(1, 0xFFFF))
    ids = list(ids)
    if rng.random() < 0.5:
        ids.sort()
    else:
        rng.shuffle(ids)
    return [gen_entry(rng, i) for i in ids]


def gen_device(rng, n=None):
    if n is None:
        n = rng.choice([0, 1, 1, 2, 3, 5, 8, 13, 21, 50]) if rng.random() < 0.8 else rng.randrange(0, 51)
    whole = rng.random() < 0.35
    limit = rng.randrange(1, 17)
    if rng.random() < 0.1:
        limit = rng.choice([16, 17, 32, 255])
    return {'log': gen_log(rng, n), 'limit': limit, 'whole': whole,
            'cur': rng.choice([0, 1, 0x7FFF, 0xFFFD, 0xFFFE, 0xFFFF, rng.randrange(0x10000)]),
            'valid': False, 'evs': []}


def _fresh_entry(rng, dev):
    used = set(_eid(h) for h in dev['log'])
    while True:
        rid = rng.randrange(1, 0xFFFF)
        if rid not in used:
            return gen_entry(rng, rid)


def _prepare(ctx, drv):
    """probe the variant on the real code, hand it to the model, compare with what the translator read"""
    v = probe_variant(drv)
    set_variant(drv, v)
    read = (_consts or {}).get('sel')
    rd = None if read is None else {'floor': read['floor'], 'budget': read['budget'], 'empty': bool(read.get('emptyStop'))}
    ctx.extra['sel_variant'] = {'probed_on_real_code': dict(v), 'read_from_source': rd}
    if rd is not None and rd != v:
        ctx.disagree('variant of pyipmi/sel.py: source reading vs behaviour', {}, rd, v)


def history(ctx, drv, rng, dev, steps):
    """several operations on ONE Ipmi object against one evolving device; each step is judged and compared with
    the model started from the device as it stood before the step"""
    device = dev10.LeanDevice(drv)
    device.load(dev_line(dev))
    iface = dev10.FakeInterface(device, cap=20000, files=('pyipmi/sel.py',), leaves=())
    ipmi = dev10.make_ipmi(iface)
    evs0 = list(dev['evs'])
    limit, whole = dev['limit'], dev['whole']
    done = []
    for step in steps:
        st = parse_state(drv.ask('state'))
        if step[0] == 'device':
            # the DEVICE changes between two operations (busy -> healthy, another partial-read limit, a repaired
            # record, a new script of concurrent changes); the Ipmi object stays the same.  Not an operation of the
            # library: the reference device is loaded again with what it holds now and the new parameters.
            kv = dict(x.split('=', 1) for x in step[1:])
            limit = int(kv.get('limit', limit))
            whole = (kv['whole'] == '1') if 'whole' in kv else whole
            if 'evs' in kv:
                evs0 = [] if kv['evs'] == '-' else kv['evs'].split(',')
            else:
                evs0 = evs0[len(evs0) - st['evs']:] if st['evs'] else []
            log = st['log']
            if 'log' in kv:
                log = [] if kv['log'] == '-' else kv['log'].split(',')
            device.load(dev_line({'log': log, 'limit': limit, 'whole': whole, 'cur': st['cur'], 'valid': st['valid'],
                                  'evs': evs0}))
            done.append([list(step), 'device changed'])
            continue
        now = {'log': st['log'], 'limit': limit, 'whole': whole, 'cur': st['cur'], 'valid': st['valid'],
               'evs': evs0[len(evs0) - st['evs']:] if st['evs'] else []}
        op = list(step)
        if op[0] == 'get' and op[2] == 'fresh':
            # a reservation of its own first (not an operation of the model: the device just moves on)
            try:
                op[2] = str(ipmi.get_sel_reservation_id())
            except Exception as e:  # noqa
                done.append(['reserve', dev10.outcome_tag(e)])
                continue
            st = parse_state(drv.ask('state'))
            now.update(log=st['log'], cur=st['cur'], valid=st['valid'],
                       evs=evs0[len(evs0) - st['evs']:] if st['evs'] else [])
        if op[0] in ('get', 'gac') and op[1] in ('first-id', 'last-id'):
            if not now['log']:
                continue
            op[1] = str(_eid(now['log'][0 if op[1] == 'first-id' else -1]))
        drv.ask('snap')
        k = len(iface.trace)
        seen = []
        out = _guarded(ipmi, op, seen)
        trace = iface.trace[k:]
        state = drv.ask('state')
        case = {'history': {'dev': dev, 'steps': [list(x) for x in steps]}, 'step': len(done), 'dev': now, 'op': op}
        before = len(ctx.violations)
        judge(ctx, now, op, out, trace, state, deleted_before=len(st['deleted']))
        for v in ctx.violations[before:]:
            v['case'] = case
        for e in seen:
            judge_entry(ctx, drv, e, case)
        ctx.case((dev_line(dev), tuple(tuple(x) for x in steps), len(done)), nontrivial=len(trace) >= 3)
        model = drv.ask('run ' + ' '.join(model_op(now, op)))
        parts = model.split(' | ')
        code = [out, dev10.show_trace(trace), state]
        if parts != code:
            what = 'history step %d %s: ' % (len(done), ' '.join(op))
            if len(parts) == 3 and parts[0] == out and parts[2] == state:
                what += 'trace: ' + _first_diff(parts[1], code[1])
            else:
                what += 'model %s / code %s' % (model[:160], ' | '.join(code)[:160])
            ctx.disagree('history', case, what, out[:200])
        done.append([op, out])
        ctx.count('history-step:' + op[0])
    return done


# ---- histories with a FAILED operation in the middle --------------------------------------------------------
# what an operation that ended in an exception leaves on the Ipmi object must not reach the next operation
HEALTHY = [('1', '16'), ('0', '16'), ('0', '5'), ('0', '1')]       # (whole, limit): "whole record" / 16 / 5 / 1
FAIL_KINDS = ['refuse-all', 'c5-budget', 'c5-listing', 'c5-get', 'cb-absent', 'decoding']


def _absent_id(dev):
    used = set(_eid(h) for h in dev['log'])
    return str(next(i for i in (0x7777, 0x7778, 0x1234, 0x4321, 5, 6, 7) if i not in used))


def _bad_type(h, t=0x01):
    b = bytearray(lean.unhex(h))
    b[2] = t
    return lean.hexs(bytes(b))


def failing_steps(kind, dev, which):
    """-> (steps that end in an exception on a conforming device, steps that make the device healthy again apart
    from limit / whole).  `which` picks the operation that fails."""
    log = dev['log']
    if kind == 'refuse-all':
        # busy / erasing: CAh for FFh, 16, 15 ... 1 (17 refusals) -> RetryError
        op = (['entries'], ['get', '0', 'fresh'], ['gac', '0'])[which % 3]
        return [['device', 'limit=0', 'whole=0', 'evs=-'], op], []
    if kind == 'c5-budget':
        # another party cancels the reservation before every request: get-and-clear uses up its rounds -> RetryError
        return [['device', 'evs=' + ','.join(['c'] * 400)], ['gac', ('first-id', '65535')[which % 2]]], []
    if kind == 'c5-listing':
        # the reservation is lost in the middle of a listing that needs partial reads -> CompletionCodeError C5h
        return [['device', 'whole=0', 'limit=%d' % (3, 7, 16)[which % 3], 'evs=n,n,n,n,c'], ['entries']], []
    if kind == 'c5-get':
        # partial read under a reservation that was never handed out -> CompletionCodeError C5h
        return [['device', 'whole=0', 'limit=%d' % (4, 16)[which % 2], 'evs=-'], ['get', '0', '0']], []
    if kind == 'cb-absent':
        op = (['gac', _absent_id(dev)], ['get', _absent_id(dev), 'fresh'])[which % 2]
        return [op], []
    if kind == 'decoding':
        # a record of no known type (01h / BFh) in the log -> DecodingError; afterwards the log is as it was
        bad = [_bad_type(log[0], (0x01, 0xBF, 0x00)[which % 3])] + log[1:]
        op = (['entries'], ['get', '0', 'fresh'], ['gac', '0'])[which % 3]
        return [['device', 'log=' + ','.join(bad)], op], [['device', 'log=' + ','.join(log)]]
    raise ValueError(kind)


def after_failure_history(dev, kind, which, healthy, follow, pre=None):
    steps = []
    if pre is not None:
        # a size negotiated by an earlier, successful listing (partial reads of <= pre bytes)
        steps += [['device', 'whole=0', 'limit=%d' % pre, 'evs=-'], ['entries']]
    fail, repair = failing_steps(kind, dev, which)
    steps += fail + repair
    steps.append(['device', 'whole=' + healthy[0], 'limit=' + healthy[1], 'evs=-'])
    steps += [list(x) for x in follow]
    return steps


FOLLOW = [[['entries']], [['get', 'first-id', 'fresh']], [['gac', 'last-id']], [['gac', 'first-id'], ['entries']],
          [['get', '65535', 'fresh'], ['gac', '0'], ['entries']]]


def gen_after_failure(ctx, drv, rng, quick):
    """[an operation that ends in an exception] -> device healthy (whole record / 16 / 5 / 1) -> listing / get /
    get-and-clear on the SAME Ipmi object, each step judged by the oracles against the device as it then stands and
    compared with the model (which knows no state but the device)."""
    i = 0
    for kind in FAIL_KINDS:
        for which in range(3 if not quick else 2):
            for pre in (None, 5):
                for healthy in HEALTHY:
                    i += 1
                    dev = gen_device(rng, 2 + i % 3)
                    follow = FOLLOW[i % len(FOLLOW)]
                    steps = after_failure_history(dev, kind, which + i // 7, healthy, follow, pre)
                    done = history(ctx, drv, rng, dev, steps)
                    ctx.count('gen:history-after-failure')
                    _count_failed(ctx, kind, done)
    for _ in range(30 if quick else 600):
        dev = gen_device(rng, rng.choice([1, 2, 3, 5]))
        steps = []
        for _k in range(rng.randrange(1, 4)):
            kind = rng.choice(FAIL_KINDS)
            fail, repair = failing_steps(kind, dev, rng.randrange(6))
            if rng.random() < 0.4:
                steps += [['device', 'whole=0', 'limit=%d' % rng.randrange(1, 17), 'evs=-'], ['entries']]
            steps += fail + repair
            steps.append(['device', 'whole=' + rng.choice('01'), 'limit=%d' % rng.choice([1, 2, 5, 8, 15, 16, 17]), 'evs=-'])
            steps += [list(x) for x in rng.choice(FOLLOW)]
        done = history(ctx, drv, rng, dev, steps)
        ctx.count('gen:history-after-failure-random')
        _count_failed(ctx, 'random', done)


def _count_failed(ctx, kind, done):
    """coverage: which exception actually preceded a later operation of the same object"""
    failed = False
    for op, out in done:
        if op[0] == 'device' or op == 'reserve':
            continue
        if failed:
            ctx.count('after-failed-op:%s' % op[0])
        if not out.startswith('ok'):
            ctx.count('failed-op:%s:%s:%s' % (kind, op[0], out.split(' ')[0]))
            failed = True


DECODE_TYPES = [0x02, 0xC0, 0xC1, 0xDF, 0xE0, 0xE1, 0xFF, 0x00, 0x01, 0x03, 0xBF, 0x7F]


def run(ctx):
    drv = ctx.driver('drv_c12')
    rng = ctx.rng('c12')
    quick = ctx.tier == 'quick'
    _prepare(ctx, drv)

    def go(dev, op, tag):
        out, trace = one_case(ctx, drv, dev, op)
        ctx.count('op:' + op[0])
        ctx.count('gen:' + tag)
        ctx.count('serves:' + ('whole' if dev['whole'] else 'partial-%s' % (
            '1' if dev['limit'] == 1 else '2-15' if dev['limit'] < 16 else '16+')))
        ctx.count('log:%s' % ('0' if not dev['log'] else '1' if len(dev['log']) == 1 else '2-9' if len(dev['log']) < 10 else '10-50'))
        ctx.count('outcome:' + out.split(' ')[0].split(':')[0])
        nf = sum(1 for e in dev['evs'] if e != 'n')
        ctx.count('faults:%s' % ('0' if nf == 0 else '1' if nf == 1 else '2+'))
        ctx.count('exchanges', len(trace))
        if len(ctx.samples) < 6 and 3 <= len(trace) < 14:
            ctx.sample({'device': dev_line(dev)[:200], 'op': ' '.join(op), 'outcome': out[:80],
                        'trace': dev10.show_trace(trace)[:300]})
        return out, trace

    # 1. whole log: every limit 1..16 and whole-record, empty log, one record, many
    for limit in range(1, 17):
        for whole in (False, True):
            for n in ((0, 1, 4) if quick else (0, 1, 2, 7, 20, 50)):
                dev = gen_device(rng, n)
                dev['limit'], dev['whole'] = limit, whole
                go(dev, ['entries'], 'entries-sweep')
    for _ in range(60 if quick else 800):
        go(gen_device(rng), ['entries'], 'entries-random')
    # 2. single records by id / first / last under a valid reservation
    for _ in range(150 if quick else 2000):
        dev = gen_device(rng, rng.choice([1, 2, 5, 9]))
        dev['valid'] = True
        dev['cur'] = rng.choice([1, 0xFFFF, rng.randrange(1, 0x10000)])
        rid = rng.choice([0, 0xFFFF] + [_eid(h) for h in dev['log']])
        go(dev, ['get', str(rid), str(dev['cur'])], 'get')
    # 2b. listing with one cancellation / deletion / addition before every request index (partial and whole reads)
    for _ in range(12 if quick else 120):
        dev = gen_device(rng, rng.choice([2, 2, 3, 4]))
        if rng.random() < 0.7:
            dev['whole'], dev['limit'] = False, rng.choice([1, 5, 8, 8, 15, rng.randrange(1, 16)])
        out, trace = go(dev, ['entries'], 'entries-clean')
        for k in range(min(len(trace) + 1, 24)):
            for ev in ('c', 'd', 'a'):
                d2 = dict(dev)
                d2['evs'] = ['n'] * k + [ev if ev != 'a' else 'a' + _fresh_entry(rng, dev)]
                go(d2, ['entries'], 'entries-one-fault')
    # 3. get-and-clear: fault-free, then one cancellation / change before every request index
    for _ in range(25 if quick else 200):
        dev = gen_device(rng, rng.choice([1, 2, 3, 6]))
        rid = rng.choice([0, 0xFFFF] + [_eid(h) for h in dev['log']] * 2)
        out, trace = go(dev, ['gac', str(rid)], 'gac-clean')
        for k in range(len(trace) + 1):
            for ev in (('c',) if quick and k % 2 else ('c', 'd', 'a')):
                d2 = dict(dev)
                slot = ev if ev != 'a' else 'a' + _fresh_entry(rng, dev)
                d2['evs'] = ['n'] * k + [slot]
                go(d2, ['gac', str(rid)], 'gac-one-fault')
    # 4. get-and-clear under random fault scripts
    for _ in range(250 if quick else 4000):
        dev = gen_device(rng, rng.choice([1, 2, 3, 4, 8]))
        rid = rng.choice([0, 0xFFFF] + [_eid(h) for h in dev['log']] * 2)
        evs = []
        p = rng.choice([0.05, 0.15, 0.4])
        for _k in range(rng.randrange(0, 60)):
            if rng.random() < p:
                r = rng.random()
                evs.append('c' if r < 0.5 else 'd' if r < 0.75 else 'a' + _fresh_entry(rng, dev))
            else:
                evs.append('n')
        dev['evs'] = evs
        go(dev, ['gac', str(rid)], 'gac-random')
        if ctx.time_left() < 20:
            ctx.notes.append('time budget reached in generator 4')
            break
    # 4b. get-and-clear with an explicit retry budget (trees that have one): 1..8 rounds against 0..9 changes
    if VARIANT['budget'] is not None:
        for _ in range(120 if quick else 1500):
            dev = gen_device(rng, rng.choice([1, 2, 3]))
            rid = rng.choice([0, 0xFFFF] + [_eid(h) for h in dev['log']] * 2)
            retry = rng.randrange(1, 9)
            nf = rng.randrange(0, 10)
            evs = []
            for _k in range(nf):
                evs.extend(['n'] * rng.randrange(0, 4))
                evs.append(rng.choice(['c', 'c', 'c', 'd', 'a' + _fresh_entry(rng, dev)]))
            dev['evs'] = evs
            go(dev, ['gac', str(rid), str(retry)], 'gac-retry')
    # 4c. record decoding on its own: every type class and boundary, extreme field values, wrong lengths
    for t in DECODE_TYPES:
        for _ in range(6 if quick else 60):
            body = [rng.randrange(256) for _k in range(13)]
            r = rng.random()
            if r < 0.2:
                body = [rng.choice([0x00, 0xFF, 0x80, 0x7F])] * 13
            elif r < 0.4:
                body[9] = rng.choice([0x00, 0x7F, 0x80, 0xFF])          # event dir / type byte
            rid = rng.choice([1, 0x1234, 0xFFFE, 0x00FF, 0xFF00, rng.randrange(0x10000)])
            decode_direct(ctx, drv, lean.hexs(bytes(bytearray([rid & 0xFF, rid >> 8, t] + body))))
    for n in (0, 1, 15, 17, 32):
        decode_direct(ctx, drv, lean.hexs(bytes(bytearray([1, 0, 2] + [7] * 29)[:n])) or '-')
    # 4d. histories on ONE Ipmi object (self.max_req_len is object state): listing / get / get-and-clear in sequence
    for _ in range(40 if quick else 500):
        dev = gen_device(rng, rng.choice([2, 3, 4, 6]))
        if rng.random() < 0.8:
            dev['whole'] = False
        if rng.random() < 0.3:
            dev['evs'] = [rng.choice(['n', 'n', 'n', 'n', 'c', 'd']) for _k in range(rng.randrange(0, 40))]
        steps = []
        for _k in range(rng.randrange(2, 6)):
            r = rng.random()
            if r < 0.35:
                steps.append(['entries'])
            elif r < 0.7:
                st = ['gac', rng.choice(['0', '65535', 'first-id', 'last-id'])]
                if VARIANT['budget'] is not None and rng.random() < 0.4:
                    st.append(str(rng.randrange(1, 5)))
                steps.append(st)
            else:
                steps.append(['get', rng.choice(['0', '65535', 'first-id', 'last-id']), 'fresh'])
        history(ctx, drv, rng, dev, steps)
        ctx.count('gen:history')
    # 4e. the same with a FAILED operation in the middle: RetryError (every size refused; C5h budget used up),
    #     CompletionCodeError (C5h, CBh), DecodingError - then the device is healthy and the same object is used again
    gen_after_failure(ctx, drv, rng, quick)
    # 5. outside the premises (model must mirror): absent record id, reservation missing for partial reads,
    #    malformed records (unknown type / wrong id bytes), faults during get_sel_entries
    for _ in range(80 if quick else 800):
        dev = gen_device(rng, rng.choice([0, 1, 3]))
        r = rng.random()
        if r < 0.25:
            op = ['gac', str(rng.randrange(1, 0xFFFF))]
        elif r < 0.4:
            op = ['get', str(rng.choice([0, 0xFFFF, 5])), '0']
        elif r < 0.5:
            # a device that refuses every length: outside "limits 1..16"; the model follows max_req_len below 1
            dev = gen_device(rng, 2)
            dev['limit'], dev['whole'] = 0, False
            if rng.random() < 0.5:
                dev['valid'], dev['cur'] = True, rng.randrange(1, 0x10000)
                op = ['get', str(rng.choice([0, 0xFFFF])), str(dev['cur'])]
            else:
                op = rng.choice([['entries'], ['gac', '0']])
        elif r < 0.75:
            if dev['log']:
                b = bytearray(lean.unhex(dev['log'][0]))
                b[2] = rng.choice([0, 1, 3, 0xBF])
                dev['log'][0] = lean.hexs(bytes(b))
            op = ['entries']
        else:
            dev['evs'] = [rng.choice(['n', 'c', 'd']) for _k in range(rng.randrange(1, 30))]
            op = ['entries']
        go(dev, op, 'outside-premise')
    ctx.extra['constants'] = (_consts or {}).get('sel')


GAC_ROUND = 35          # Lean: gac_bound - Reserve SEL, at most 33 Get SEL Entry, Delete SEL Entry
GAC_ROUNDS = 5          # Variant.intended.budget


def unbounded_case():
    return {'dev': {'log': [PROBE_REC], 'limit': 16, 'whole': True, 'cur': 1, 'valid': False,
                    'evs': ['c'] * (2 * GAC_ROUND * GAC_ROUNDS + 40)}, 'op': ['gac', '1'], 'cap': GAC_ROUND * GAC_ROUNDS + 1}


def unbounded_witness(ctx, drv):
    """The tie to the repaired variant is broken: show it on this property's own device.  Another party
    cancels the reservation before every request; the repaired get-and-clear gives up with RetryError after its
    budget (at most 35 requests a round), the pinned `while True` goes on as long as the script does."""
    case = unbounded_case()
    out, trace, _ = run_real(drv, case['dev'], case['op'], cap=case['cap'])
    ctx.case(('unbounded-witness',))
    if out == 'py:nontermination' or len(trace) > GAC_ROUND * GAC_ROUNDS:
        ctx.violate('C12:get_and_clear_sel_entry:unbounded-after-C5h',
                    'get_and_clear_sel_entry is still repeating reserve / read after %d requests against a device whose '
                    'reservation is cancelled before every request (no retry budget, no RetryError)' % len(trace),
                    {'witness': 'cancel before every request', 'op': case['op'], 'cap': case['cap'],
                     'device': dev_line(dict(case['dev'], evs=['c', 'c', '...']))},
                    expected='RetryError after at most %d requests' % (GAC_ROUND * GAC_ROUNDS),
                    observed='%s after %d requests' % (out, len(trace)))


def search(ctx):
    """A tie broke and `run` saw no violation: exhaustive small sweep of the real code against the
    oracle - every limit x whole x log size 0..4 for the listing; get-and-clear with a fault of every
    kind before every request index, for every addressing mode."""
    drv = ctx.driver('drv_c12')
    rng = ctx.rng('c12-search')
    before = len(ctx.violations)
    unbounded_witness(ctx, drv)
    if len(ctx.violations) > before:
        return
    for limit in range(1, 17):
        for whole in (False, True):
            for n in range(0, 5):
                dev = gen_device(rng, n)
                dev['limit'], dev['whole'] = limit, whole
                one_case(ctx, drv, dev, ['entries'], compare=False)
                if n:
                    for rid in (0, 0xFFFF, _eid(dev['log'][n // 2])):
                        out, trace = one_case(ctx, drv, dev, ['gac', str(rid)], compare=False)
                        for k in range(len(trace) + 1):
                            for ev in ('c', 'd', 'a'):
                                d2 = dict(dev)
                                d2['evs'] = ['n'] * k + [ev if ev != 'a' else 'a' + _fresh_entry(rng, dev)]
                                one_case(ctx, drv, d2, ['gac', str(rid)], compare=False)
                if len(ctx.violations) > before:
                    return
        if ctx.time_left() < 30:
            return


def replay(ctx, v):
    case = v['case']
    drv = ctx.driver('drv_c12')
    set_variant(drv, probe_variant(drv))
    c2 = ctx.__class__('C12', 'quick', 0)
    if 'decode' in case:
        decode_direct(c2, drv, case['decode'])
        print('record : %s' % case['decode'])
        return _show(c2)
    if 'history' in case:
        h = case['history']
        done = history(c2, drv, None, h['dev'], [[str(x) for x in st] for st in h['steps']])
        print('device : %s' % dev_line(h['dev'])[:400])
        for i, (op, out) in enumerate(done):
            print('step %d : %s -> %s' % (i, ' '.join(op) if isinstance(op, list) else op, out[:200]))
        return _show(c2)
    if 'witness' in case:
        unbounded_witness(c2, drv)
        case = unbounded_case()
        dev, op = case['dev'], case['op']
        out, trace, state = run_real(drv, dev, op, cap=case['cap'])
        print('device : %s' % dev_line(dev)[:200])
        print('op     : %s' % ' '.join(op))
        print('code   : %s after %d requests' % (out, len(trace)))
        print('trace  : %s ...' % dev10.show_trace(trace[:6])[:300])
        return _show(c2)
    dev, op = case['dev'], [str(x) for x in case['op']]
    seen = []
    out, trace, state = run_real(drv, dev, op, seen=seen)
    print('device : %s' % dev_line(dev)[:400])
    print('op     : %s' % ' '.join(op))
    print('code   : %s' % out[:300])
    print('trace  : %s' % dev10.show_trace(trace)[:700])
    print('state  : %s' % state[:400])
    judge(c2, dev, op, out, trace, state)
    for e in seen:
        judge_entry(c2, None, e, {'dev': dev, 'op': op})
        print('entry  : %s -> %s' % (_entry_hex(e), entry_attrs(e)))
    return _show(c2)


def _show(c2):
    for x in c2.violations:
        print('violated: %s' % x['what'])
        print('  expected: %s' % (json.dumps(x['expected'])[:300]))
        print('  observed: %s' % (json.dumps(x['observed'])[:300]))
    return bool(c2.violations)
