"""C07 — High-level API operations mean what they say to a conforming BMC.

Histories of API calls on 1-3 `pyipmi.Ipmi` objects bound (through harness/sim/bmc_iface.py) to 1-2
instances of the byte-level reference BMC `Spec.Bmc` hosted by the Lean driver `drv_c07`.  After every
call the return value is compared with the oracle `Spec.Bmc.run` (property) and with the per-operation
model `Model.Api` (tie); after every call the digest of every BMC instance is compared with the state
the oracle expects (writes change exactly the addressed BMC, reads change nothing).
"""
import json
import sys
import time
from array import array

from ..lib import lean
from ..sim import bmc_iface
from ..translate import tables

ID = 'C07'
TARGETS = ['PyIpmi.Props.C07', 'drv_c07']
LEVEL = 'proof'
RULE = ('histories of 1-30 calls over 1-3 Ipmi objects (pyipmi.create_connection / Ipmi(interface=…) with the '
        'default session / explicit session) and 1-2 reference-BMC instances with seeded random conforming '
        'states; operations weighted over all families; arguments drawn boundary-biased from each '
        "parameter's full range (addresses from pools shared with the BMC generator plus uniform); every "
        'read is issued twice on the same address with a state change in between (the BMC moves by itself, '
        'or a write of the same family, possibly through another connection).  Reference-BMC states cover: HPM.1 '
        'component descriptions over all non-NUL bytes incl. printable text with backslash sequences (pool shared '
        'with the descriptors of find_component_id_by_descriptor), fan trays of both command-set revisions '
        '(R1.0/R2.0: three-byte Set Fan Level only; R3.0: optional fourth byte), PICMG 3.x and OEM (F0h..FFh) '
        'link types, second sensor state bytes with the reserved bit 7 returned as 1.  TEXTUAL NUMERIC ARGUMENT '
        '(set_ip_address(ip_address): the only argument of the exercised operations that spells numbers as text - VLAN ids, '
        'channels, addresses, levels are ints; boot mode / IP source are two-word enumerations, both members exercised): the '
        'generator starts from four octets and writes each in one of the spellings plain str(int), zero-padded to 2 / 3 / 4 '
        'digits, one zero in front (010, 001, 08, 009, 000, 0255), "+7", " 9", "8 ", a newline behind the address; half of the '
        'random addresses are plain, half carry at least one other spelling (octets from the pad-sensitive pool 8 9 10 18 19 '
        '64 77 80 89 99 100 0 255 1 7 or uniform; 30 % of those the whole address in one fixed width); directed: every octet '
        'position x 16 spellings / values incl. the extremes 0 and 255, 14 whole addresses in fixed-width form, each written '
        'and read back; oracle = the BMC stores the four DECIMAL values the generator started from (evidence: '
        'ip_address_written:plain / zero-padded-octet / signed-or-blank-padded-octet).  STRING ARGUMENTS (user names, '
        'passwords, component descriptors; the other str parameters of the exercised operations): printable text of every '
        'length 0..16 and, half of the generated names / passwords plus two directed histories per shape (NAME_SHAPES), '
        'strings that BEGIN and / or END with a blank character (space, tab, newline, CR, VT, FF, 1Ch, 1Fh - what '
        'str.strip() removes), consist of blanks only, carry blanks inside only, fill all 16 characters with the blank '
        'last / first, hold a NUL before the last character, and pairs of names that differ by one such character '
        'written to two users and read back; stored user names of the reference BMC begin / end with a blank in about a '
        'quarter of the states, component descriptions "IPMC ", " IPMC", "boot\\t", "\\nfw", " " are in the pool shared '
        'with find_component_id_by_descriptor (evidence: name_written:*, password_written:*, name_read:*, descriptor:*).  '
        'A case = one call; distinct '
        'by (operation, arguments, state digest); every case is non-trivial (a request reaches the BMC).')
ASSUMPTIONS = [
    'the reference BMC (lean/PyIpmi/Spec/Bmc.lean) is my reading of IPMI v2.0 ch. 20/22/23/27/28/29/35, '
    'PICMG 3.0 ch. 3 and HPM.1; it is permissive (every address exists, reserved field values are stored as sent, '
    'parameter lengths are not policed)',
    'a str argument (user name, password) denotes its characters, one byte each, NUL padded to the 16-byte field - '
    'blank characters at either end are characters of the name like any other (IPMI v2.0 22.28 / 22.30: ASCII, no '
    'character excluded); a trailing NUL is the padding itself; non-ASCII characters are not generated',
    'set_ip_address(ip_address): the text denotes four octets, each numeral read in base TEN whatever it begins with '
    '("xxx.xxx.xxx.xxx" of the docstrings, int() per octet: leading zeros are digits, never a base prefix); a "+" sign and '
    'blanks around an octet / behind the address - accepted by the documented conversion int() - denote the same number; '
    'spellings int() accepts beyond that (underscores between digits, non-ASCII digits) and texts that are no such address '
    '(other than four octets, an octet above 255, hex / octal prefixes) are not generated: what the call does with them is '
    'not judged.  Lean side: Model.Api.ipAddressToData (split at ".", octetOfText = int() on ASCII) is compared with the '
    'code on every generated spelling (model line set_ip_address_text); Props.C07.write_set_ip_address_text / '
    'table_ip_text_decimal prove it for every dotted numeral with any number of leading zeros per octet',
    'denotation of Python argument values (enum members and strings -> codes by meaning, 7-bit event receiver '
    'address, LED durations in 10 ms units on write / ms on read) is '
    'part of the harness (harness/props/c07.py op table) and of Spec.Bmc.run',
    'E-Keying link type (PICMG 3.0 link descriptor bits [19:12], one byte): LinkDescriptor.type / .sig_class name its low / '
    'high nibble (signalling class of the PICMG 3.x types); an OEM link type (upper nibble Fh) is named by .type alone '
    '(the published TYPE_OEM0..3 = F0h..F3h) with .sig_class 0 (Spec.Bmc.linkTypeAttrs).  On write the link type is handed '
    'over as nibbles for every byte value, and as ONE number in .type only for the constants the library publishes '
    '(TYPE_BASE..TYPE_PCIEXPRESS_FABRIC, TYPE_OEM0..3); other out-of-range attribute values (masked silently by the '
    'bit-field) stay outside the property\'s "full range"',
    'get_sensor_reading denotes the mask of the asserted states 0..14: bit 7 of response byte 5 is "reserved. Returned as 1b. '
    'Ignore on read" (IPMI table 35-15) - the reference BMC returns it as 1 and the oracle ignores it; bits [7:6] of byte 4 '
    '(reserved for threshold sensors, states 6/7 of discrete ones) cannot be told apart without the SDR and are handed on',
    'set_fan_level(fru_id, fan_level) denotes the three-byte Set Fan Level request: override level := fan_level, the local '
    'control state unchanged (the optional fourth byte of PICMG 3.0 R3.0 is not an argument of the call).  '
    'write_set_fan_level is stated over the GENERATED layout of SetFanLevelReq: on a tree whose class carries a fourth plain '
    'byte the Lean build fails (reported as broken) and the history run still finds and reports the failing input',
    'HPM.1 component description = the characters before the NUL padding of the 12-byte field, one per byte; '
    'get_component_properties is judged on WHICH properties it returns and on the description (capability flags and '
    'versions are not judged); get_component_properties and find_component_id_by_descriptor are sequences of exchanges and '
    'have no Lean model: exercised against the oracle only (evidence: exercised_only_ops)',
    'transport is substituted at the interface level: send_and_receive runs the real encode_message / '
    'decode_message and forwards (netfn, lun, cmd, data) to the driver; bridging, sessions and retries are other properties',
    'the theorems (Props/C07.lean) are about the Lean model of each operation (Model/Api/*.lean, one request/response '
    'exchange over the generated layouts and tables) for ALL in-range arguments (Call.InRange) and ALL conforming BMC '
    'states (BmcState.Wf: stored values fit their wire fields); that the model is the real code is the correspondence: '
    'request bytes, return value / exception and BMC state after every call of every history are compared '
    '(evidence: proved_ops = modelled_ops, exercised_only_ops = open, theorem_domain:* counts the exercised '
    '(state, call) pairs that satisfy the theorems\' hypotheses)',
    'members of bit-fields are addressed by position in the model; a renamed / reordered member with equal widths is '
    'visible to the correspondence run only (not to the theorems)',
    'operations of other properties (SDR, SEL, FRU, HPM upgrade, raw) are not exercised here (evidence: not_exercised_ops)',
    'DCMI (get_dcmi_capabilities, get_power_reading, get_dcmi_sensor_record_ids) is exercised against a reference BMC written '
    'from DCMI 1.5 chapter 6 (every parameter selector / mode / attributes byte answers; Entity Instance Start 00h and 01h '
    'both name the first instance).  get_dcmi_sensor_record_ids is a sequence of three exchanges, modelled outside Call '
    '(Model/Api/Dcmi.lean) and proved equal to the reference only for BMCs with at most 8 temperature sensors per entity '
    '(read_get_dcmi_sensor_record_ids_partial): the library never asks for a second page.  The generated BMC states keep '
    'to 0..8 sensors per entity (one response), so that known gap (OBSERVATION, dcmi_sensor_ids_not_paged_counterexample, '
    'confirmed on the real code) is not re-reported on every run (evidence: partially_proved_ops)',
    'documented denotation choices where the audit of the unchanged code (findings/c07) saw an ambiguity or a layout '
    'the repository\'s own tests pin - NOT reported as violations: (finding_1) set/get_event_receiver take and return the '
    '7-bit IPMB address of the receiver (slave address / 2; tests/msgs/test_event.py pins the 7-bit field), so FFh '
    '"event generation disabled" reads as 7Fh; (finding_3) LED durations are raw 10 ms / 100 ms units when written '
    '(tests/test_picmg.py pins LedState.to_request) and milliseconds when read, so an object read back is not a valid '
    'argument for a write; (finding_6) DeviceId.available is the raw bit 7 of byte 4 (1 = update in progress), not '
    'its negation',
    'get_lan_config_param(revision_only=1) denotes the parameter revision byte (IPMI 23.2 response byte 2) of the addressed '
    'channel and parameter; query_rollback_status denotes the component mask and the completion estimate (None while absent, '
    '0 is an estimate); get_sensor_reading denotes (None, None) while response byte 3 bit 5 "reading/state unavailable" '
    'is set (IPMI 35.14); Re-arm Sensor Events sets that flag in the reference BMC until its next scan (35.12/35.14)',
]
TRUSTED = ['harness/translate/tables.py', 'harness/translate/registry.py', 'harness/sim/bmc_iface.py',
           'harness/props/c07.py (op table, canonicalisers)', 'lean/Drivers/C07.lean (parseCall, showResult, state generator)',
           'lean/PyIpmi/Spec/Bmc.lean (the oracle)']

_tables = None


def translate(ctx):
    global _tables
    _tables = tables.generate()


# ------------------------------------------------------------------------------------------
# canonical text of results (must match Drivers/C07.lean `showResult`)
# ------------------------------------------------------------------------------------------

def _b(x):
    return '1' if x else '0'


def _o(x):
    return 'None' if x is None else '%d' % x


def _hex(x):
    if x is None:
        return 'None'
    if isinstance(x, str):
        x = x.encode('latin-1')
    return lean.hexs(bytes(bytearray(x)))


def _enumval(m):
    v = getattr(m, 'value', m)
    if isinstance(v, tuple):
        v = v[0]
    return str(v).replace(' ', '_')


def c_none(r):
    from pyipmi.msgs.message import Message
    if r is None or isinstance(r, Message):
        return 'None'
    return 'unexpected:%r' % (r,)


def c_int(r):
    return '%d' % r if isinstance(r, int) else 'unexpected:%r' % (r,)


def c_bool(r):
    return _b(r) if isinstance(r, bool) else 'unexpected:%r' % (r,)


def c_hex(r):
    return _hex(r)


def c_str(r):
    return r if isinstance(r, str) else 'unexpected:%r' % (r,)


def c_pair(r):
    return '%s %s' % (_o(r[0]), _o(r[1]))


def c_device_id(d):
    return 'id=%d rev=%d sdrs=%s avail=%s fw=%s.%s ipmi=%s.%s mfr=%d prod=%d fn=%s aux=%s' % (
        d.device_id, d.revision, _b(d.provides_sdrs), _b(d.available), d.fw_revision.major, d.fw_revision.minor,
        d.ipmi_version.major, d.ipmi_version.minor, d.manufacturer_id, d.product_id,
        ','.join(d.supported_functions) or '-', _hex(d.aux))


def c_guid(g):
    b = bytes(bytearray(g.device_guid))
    want = '%02x%02x%02x%02x-%02x%02x-%02x%02x-%02x%02x-%02x%02x%02x%02x%02x%02x' % tuple(reversed(b))
    if g.device_guid_string != want:
        return 'guid-string:%s' % g.device_guid_string
    return lean.hexs(b)


def c_watchdog(w):
    return 'use=%d run=%s log=%s pti=%d act=%d int=%d flags=%d init=%d pres=%d' % (
        w.timer_use, _b(w.is_running), _b(w.dont_log), w.pre_timeout_interrupt, w.timeout_action,
        w.pre_timeout_interval, w.timer_use_expiration_flags, w.initial_countdown, w.present_countdown)


def c_chassis(c):
    return 'on=%s ovl=%s ilk=%s flt=%s cflt=%s pol=%d idsup=%s idst=%d fp=%s ev=%s st=%s' % (
        _b(c.power_on), _b(c.overload), _b(c.interlock), _b(c.fault), _b(c.control_fault), c.restore_policy,
        _b(c.id_cmd_state_info_support), c.chassis_id_state, _o(c.front_panel_button_capabilities),
        ','.join(c.last_event) or '-', ','.join(c.chassis_state) or '-')


def c_boot_mode(r):
    return {'efi': '1', 'legacy': '0'}.get(r, 'unexpected:%r' % (r,))


def c_user_access(u):
    return 'max=%d en=%d status=%d fixed=%d priv=%s msg=%s link=%s cb=%s' % (
        u.user_count, u.enabled_user_count, u.enabled_status, u.fixed_name_user_count,
        _enumval(u.privilege_level), _b(u.ipmi_messaging), _b(u.link_auth), _b(u.callback_only))


THR = ('lnc', 'lcr', 'lnr', 'unc', 'ucr', 'unr')


def c_thresholds(t):
    extra = [k for k in t if k not in THR]
    if extra:
        return 'unexpected-keys:%s' % extra
    return ','.join('%s=%d' % (k, t[k]) for k in THR if k in t) or '-'


def c_picmg_props(r):
    return 'ver=%d max=%d fru=%d' % (r.extension_version, r.max_fru_device_id, r.fru_device_id)


def c_power(p):
    return 'dyn=%s lvl=%d delay=%d mult=%d draw=%s' % (
        _b(p.dynamic_power_configuration), p.power_level, p.delay_to_stable, p.power_mulitplier, _hex(p.power_levels))


def c_fan_props(f):
    return 'min=%d max=%d norm=%d local=%s' % (
        f.minimum_speed_level, f.maximum_speed_level, f.normal_operation_level, _b(f.local_control_supported))


def _d(x):
    return '-' if x is None else '%d' % x


def _ledfn(kind, off, on):
    name = {1: 'off', 2: 'blink', 3: 'on'}.get(kind, 'fn%r' % (kind,))
    return '%s %s %s' % (name, _d(off), _d(on))


def c_led(s):
    out = 'avail=%s ovr=%s lamp=%s local=%s %d override=' % (
        _b(s.local_state_available), _b(s.override_enabled), _b(s.lamp_test_enabled),
        _ledfn(s.local_function, s.local_off_duration, s.local_on_duration), s.local_color)
    if s.override_enabled:
        out += '%s %d' % (_ledfn(s.override_function, s.override_off_duration, s.override_on_duration), s.override_color)
    else:
        out += 'None'
    out += ' lampdur=%s' % (_o(s.lamp_test_duration) if s.lamp_test_enabled else 'None')
    return out


def c_port(r):
    link, state = r
    if link is None:
        return 'nolink'
    return 'ch=%d if=%d flags=%d type=%d sig=%d ext=%d grp=%d state=%d' % (
        link.channel, link.interface, link.link_flags, link.type, link.sig_class, link.extension,
        link.grouping_id, state)


def c_pm_global(g):
    return 'role=%d mgmt=%d payload=%d fault=%d' % (g.role, g.management_power_good, g.payload_power_good, g.unidentified_fault)


def c_pm_channel(p):
    return '%d' % (p.present | p.management_power << 1 | p.management_power_overcurrent << 2 | p.enable << 3
                   | p.payload_power << 4 | p.payload_power_overcurrent << 5 | p.pwr_on << 6)


def c_hpm_status(u):
    return 'cmd=%d cc=%d' % (u.command_in_progress, u.last_completion_code)


def c_hpm_caps(c):
    return 'ver=%d comps=%s' % (c.version, ','.join('%d' % i for i in c.components) or '-')


def c_selftest(r):
    names = ('fail_mc', 'fail_bootblock', 'fail_bmc_fru_interanl_area', 'fail_sdrr_empty',
             'fail_ipmb', 'fail_bmc_fru', 'fail_sdrr', 'fail_sel')
    v = 0
    for i, n in enumerate(names):
        if not hasattr(r, n):
            return '%d missing:%s' % (r.status, n)
        v |= getattr(r, n) << i
    return '%d %d' % (r.status, v)


def c_rollback(r):
    """mask of the rolled-back components + completion estimate; an object without the mask (the decoder as
    shipped) is shown the way the as-shipped model shows it: no mask, a non-zero estimate"""
    if not hasattr(r, 'rollback_status'):
        return 'None %s' % _o(getattr(r, 'percent_complete', None))
    return 'status=%s pct=%s' % (_o(r.rollback_status), _o(getattr(r, 'percent_complete', None)))


def c_text(s):
    """a string: hex of its characters (one byte each), characters above FFh as code points"""
    if not isinstance(s, str):
        return 'unexpected:%r' % (s,)
    if all(ord(c) < 256 for c in s):
        return _hex(s)
    return 'cp:' + '.'.join('%d' % ord(c) for c in s)


def c_descr(p):
    return c_text(p.description)


PROP_KINDS = ('ComponentPropertyGeneral', 'ComponentPropertyCurrentVersion', 'ComponentPropertyDescriptionString',
              'ComponentPropertyRollbackVersion', 'ComponentPropertyDeferredVersion')


def c_props(props):
    """which of the properties 0..4 the component has, and its description (versions and capability flags are
    not judged here)"""
    kinds, descr = [], None
    for p in props:
        k = type(p).__name__
        if k not in PROP_KINDS:
            return 'unexpected:%s' % k
        kinds.append(PROP_KINDS.index(k))
        if k == 'ComponentPropertyDescriptionString':
            descr = p.description
    return 'props=%s descr=%s' % (','.join('%d' % k for k in kinds) or '-', c_text(descr))


def c_dcmi_caps(r):
    c = r.specification_conformence
    return 'major=%d minor=%d rev=%d data=%s' % (c.major, c.minor, r.parameter_revision, _hex(r.parameter_data))


def c_power_reading(r):
    return 'cur=%d min=%d max=%d avg=%d ts=%d period=%d state=%d' % (
        r.current_power, r.minimum_power, r.maximum_power, r.average_power, r.timestamp, r.period, r.reading_state)


def c_ids(l):
    if not isinstance(l, list) or not all(isinstance(x, int) and not isinstance(x, bool) for x in l):
        return 'unexpected:%r' % (l,)
    return ','.join('%d' % x for x in l) or '-'


def c_opt(r):
    return _o(r) if (r is None or (isinstance(r, int) and not isinstance(r, bool))) else 'unexpected:%r' % (r,)


def c_lan_param(r):
    """parameter data (normal mode) or the parameter revision, a number (revision-only mode)"""
    return '%d' % r if isinstance(r, int) and not isinstance(r, bool) else _hex(r)


# ------------------------------------------------------------------------------------------
# argument generators (tokens of the line protocol; the Python arguments are rebuilt from them)
# ------------------------------------------------------------------------------------------

def _pool(pool, top):
    def g(r):
        return r.choice(pool) if r.random() < 0.8 else r.randrange(top)
    return g


g_fru = _pool([0, 1, 2, 3, 0xfe], 256)
g_led = _pool([0, 1, 2, 3, 4, 0xff], 256)
g_chan = _pool([0, 1, 2, 7, 15], 16)
g_uid = _pool([1, 2, 3, 10, 62, 63], 64)
g_sensor = _pool([0, 1, 2, 0x7f, 0x80, 0xfe, 0xff], 256)
g_pchan = _pool([0, 1, 5, 63], 64)


def g_byte(r):
    return r.choice([0, 1, 0x7f, 0x80, 0xfe, 0xff]) if r.random() < 0.3 else r.randrange(256)


def g_bits(n):
    def g(r):
        top = (1 << n) - 1
        return r.choice([0, 1, top, top - 1 if top else 0]) if r.random() < 0.3 else r.randrange(top + 1)
    return g


def g_bytes(r, lo, hi):
    return bytes(g_byte(r) for _ in range(r.randint(lo, hi)))


def g_ascii(r, hi=16):
    n = r.choice([0, 1, hi - 1, hi]) if r.random() < 0.4 else r.randint(0, hi)
    return bytes(r.randrange(0x20, 0x7f) for _ in range(n))


# ASCII characters Python's str.strip() / str.split() treat as blank - legal characters of an IPMI user name or
# password (IPMI v2.0 22.28 / 22.30: sixteen bytes of ASCII, NUL padded), like any other
BLANKS = [0x20, 0x20, 0x20, 0x09, 0x0a, 0x0d, 0x0b, 0x0c, 0x1c, 0x1f]
NAME_SHAPES = ['lead', 'trail', 'both', 'only-blanks', 'inner', 'full-trailing-blank', 'full-leading-blank', 'pair',
               'nul-inside']


def name_of_shape(r, shape, hi=16):
    """a string argument (user name / password / component descriptor, at most `hi` characters) of the given shape:
    blank characters (space, tab, newline, ...) in front, behind, both, nothing else, inside only, the full `hi`
    characters ending / beginning with a blank, a NUL before the last character"""
    def solid(n):
        return bytes(r.choice([r.randrange(0x21, 0x7f), r.choice(b'rootadminlab0123')]) for _ in range(n))

    def ws(n):
        return bytes(r.choice(BLANKS) for _ in range(n))
    if shape == 'lead':
        k = r.choice([1, 1, 2, 3])
        return ws(k) + solid(r.randint(1, hi - k))
    if shape == 'trail':
        k = r.choice([1, 1, 2, 3])
        return solid(r.randint(1, hi - k)) + ws(k)
    if shape == 'both':
        a, b = r.choice([1, 1, 2]), r.choice([1, 1, 2])
        return ws(a) + solid(r.randint(1, hi - a - b)) + ws(b)
    if shape == 'only-blanks':
        return ws(r.choice([1, 1, 2, 5, hi - 1, hi]))
    if shape == 'inner':
        n = r.randint(3, hi)
        x = bytearray(solid(n))
        for _ in range(r.choice([1, 1, 2, 3])):
            x[r.randrange(1, n - 1)] = r.choice(BLANKS)
        return bytes(x)
    if shape == 'full-trailing-blank':
        return solid(hi - 1) + ws(1)
    if shape == 'full-leading-blank':
        return ws(1) + solid(hi - 1)
    if shape == 'nul-inside':
        n = r.randint(2, hi - 1)
        return solid(n - 1) + b'\0' + solid(1)
    raise ValueError(shape)


def g_name(r, hi=16):
    """user names and passwords: printable text of every length 0..16 (g_ascii) and, half of the time, the shapes
    with blank characters (NAME_SHAPES) that input-hygiene code tends to clean up"""
    if r.random() < 0.5:
        return g_ascii(r, hi)
    return name_of_shape(r, r.choice([x for x in NAME_SHAPES if x != 'pair']), hi)


def name_shape(b):
    """classify a generated string (input distribution)"""
    if not b:
        return 'empty'
    bl = set(BLANKS)
    if all(c in bl for c in b):
        return 'only-blanks'
    lead, trail = b[0] in bl, b[-1] in bl
    tag = 'blank-both-ends' if lead and trail else 'leading-blank' if lead else 'trailing-blank' if trail else \
        'inner-blank' if any(c in bl for c in b) else 'no-blank'
    return tag + (':16' if len(b) == 16 else '')


BOOT_DEV_VALUES = ['no override', 'pxe', 'default hard drive', 'default hard drive safe mode',
                   'diagnostic partition', 'cd', 'bios setup', 'remote removable media', 'remote cd',
                   'primary remote media', 'remote hard drive', 'primary removable media (usb)']   # order of Spec BootDev.all
PRIV_CODE = {'reserved': 0, 'callback': 1, 'user': 2, 'operator': 3, 'administrator': 4, 'oem': 5, 'no access': 15}


def _T(*xs):
    return [str(x) for x in xs]


def _boot_device_member(idx):
    from pyipmi.chassis import BootDevice
    for m in BootDevice:
        if _enumval(m) == BOOT_DEV_VALUES[idx].replace(' ', '_'):
            return m
    raise KeyError(idx)


def _priv_member(code):
    from pyipmi.messaging import UserPrivilegeLevel
    for m in UserPrivilegeLevel:
        if PRIV_CODE[str(getattr(m, 'value', m))] == code:
            return m
    raise KeyError(code)


def _hpm_const(name):
    import pyipmi.hpm
    return getattr(pyipmi.hpm, name)


def _wd_config(t, ip=None):
    """t[1] = 'n': the don't-stop attribute is left untouched (None on a fresh object AND on an object read
    back with get_watchdog_timer, which is then re-used as applications do) - it denotes 0, "stop the timer"."""
    from pyipmi.bmc import Watchdog
    c = Watchdog()
    if t[1] == 'n':
        c = getattr(ip, '_verif_last_watchdog', None) or c
    c.timer_use = int(t[0])
    if t[1] != 'n':
        c.dont_stop = t[1] == '1'
    c.dont_log = t[2] == '1'
    c.timeout_action = int(t[3])
    c.pre_timeout_interrupt = int(t[4])
    c.pre_timeout_interval = int(t[5])
    c.timer_use_expiration_flags = int(t[6])
    c.initial_countdown = int(t[7])
    return c


def _opt(tok):
    return None if tok == 'n' else int(tok)


def _led_state(t):
    from pyipmi.picmg import LedState
    fru, led, kind, x, y, color = t
    fn = {'off': LedState.FUNCTION_OFF, 'on': LedState.FUNCTION_ON, 'blink': LedState.FUNCTION_BLINKING,
          'lamp': LedState.FUNCTION_LAMP_TEST}[kind]
    s = LedState(fru_id=int(fru), led_id=int(led), color=int(color), function=fn)
    if kind == 'blink':
        s.override_off_duration = int(x)
        s.override_on_duration = int(y)
    if kind == 'lamp':
        s.lamp_test_duration = int(x)
    return s


def _link(t):
    from pyipmi.picmg import LinkDescriptor
    iface, ch, flags, ty, ext, grp, _st, whole = [int(x) for x in t]
    d = LinkDescriptor()
    d.channel, d.interface, d.link_flags = ch, iface, flags
    if whole:
        # the whole 8-bit link type in `type`, the way the published constants (TYPE_OEM0 = F0h …) are meant
        d.type, d.sig_class = ty, 0
    else:
        d.type, d.sig_class = ty % 16, ty // 16
    d.extension, d.grouping_id = ext, grp
    return d


def _ip(tok):
    return '.'.join('%d' % b for b in lean.unhex(tok))


# ------------------------------------------------------------------------------------------
# TEXTUAL NUMERIC ARGUMENT: set_ip_address(ip_address) takes the address as TEXT ("xxx.xxx.xxx.xxx", each octet a decimal
# number - pyipmi/lan.py ip_address_to_data; it is the only argument of the exercised operations that spells numbers
# as text: VLAN ids, channels, ... are ints, get_mac_address only produces text).  The token list of the operation is
# [hex of the four octets the text DENOTES, channel, hex of the characters of the text]; the generator starts from the
# octets and writes each one in one of the spellings below, so the denotation does not depend on any parser.
# ------------------------------------------------------------------------------------------
OCTET_SPELLINGS = {
    'plain': lambda n: '%d' % n,
    'pad3': lambda n: '%03d' % n,            # fixed-width inventories / configuration exports: 192.168.001.010
    'pad2': lambda n: '%02d' % n,            # 08, 09 - decimal 8 and 9, not numerals of any other base
    'zero+': lambda n: '0%d' % n,            # one zero in front whatever the width: 010, 0255, 00
    'pad4': lambda n: '%04d' % n,
    'plus': lambda n: '+%d' % n,             # forms int() - the documented conversion - accepts as well
    'blank-before': lambda n: ' %d' % n,
    'blank-after': lambda n: '%d ' % n,
}
ZERO_PADDED = ('pad3', 'pad2', 'zero+', 'pad4')
# octet values whose zero-padded numeral reads differently (or not at all) in another base, the extremes, and values
# that read the same in base 8 and base 10
PAD_SENSITIVE = [8, 9, 10, 18, 19, 64, 77, 80, 89, 99, 100, 0, 255, 1, 7]


def ip_text(octets, styles, tail=''):
    return '.'.join(OCTET_SPELLINGS[st](n) for n, st in zip(octets, styles)) + tail


def _ip_tokens(octets, chan, styles=None, tail=''):
    text = ip_text(octets, styles or ['plain'] * len(octets), tail)
    return _T(lean.hexs(bytes(octets)), chan, lean.hexs(text.encode('ascii')))


def _ip_arg(tok):
    """the str handed to set_ip_address"""
    return lean.unhex(tok[2]).decode('ascii') if len(tok) > 2 else _ip(tok[0])


def ip_spelling(tok):
    """classify the spelling of a set_ip_address argument (input distribution, signature)"""
    text = _ip_arg(tok)
    if text == _ip(tok[0]):
        return 'plain'
    words = [w.strip() for w in text.split('.')]
    if any(len(w.lstrip('+')) > 1 and w.lstrip('+')[0] == '0' for w in words):
        return 'zero-padded-octet'
    return 'signed-or-blank-padded-octet'


def g_set_ip(r):
    """half of the addresses in the plain spelling str(int) (any octets), half with at least one octet spelled
    otherwise: zero-padded (mostly), '+', blanks around an octet, a newline behind the address; octets of those from the
    pad-sensitive pool (8, 9, 10, 18, ... 0, 255) or uniform"""
    if r.random() < 0.5:
        return _ip_tokens(list(g_bytes(r, 4, 4)), g_chan(r))
    octets = [r.choice(PAD_SENSITIVE) if r.random() < 0.6 else r.randrange(256) for _ in range(4)]
    x = r.random()
    if x < 0.3:
        st = r.choice(['pad3', 'pad3', 'pad2'])
        styles = [st] * 4                                  # the whole address in one fixed-width form
    else:
        pool = list(ZERO_PADDED) * 3 + ['plain'] * 6 + (['plus', 'blank-before', 'blank-after'] if x > 0.8 else [])
        styles = [r.choice(pool) for _ in range(4)]
        if all(st_ == 'plain' for st_ in styles):
            styles[r.randrange(4)] = r.choice(ZERO_PADDED)
    tail = '\n' if r.random() < 0.05 else ''
    return _ip_tokens(octets, g_chan(r), styles, tail)


def g_led_cmd(r):
    kind = r.choice(['off', 'on', 'blink', 'blink', 'lamp'])
    color = r.choice([1, 2, 3, 4, 5, 6, 6, 0xe, 0xf])
    if kind == 'blink':
        return [kind, r.choice([1, 2, 100, 0xf9, 0xfa, r.randrange(1, 0xfb)]), g_byte(r), color]
    if kind == 'lamp':
        return [kind, r.choice([0, 1, 127, r.randrange(128)]), 0, color]
    return [kind, 0, 0, color]


class Op(object):
    def __init__(self, name, fam, read, gen, call, canon, changers=()):
        self.name, self.fam, self.read = name, fam, read
        self.gen, self.call, self.canon = gen, call, canon
        self.changers = list(changers)
        self.denote = lambda tok: tok      # tokens as the specification reads them
        # specific name of a result violation for (tokens, expected, observed), or None for the generic one;
        # '@op:field' names the whole signature (several operations showing one defect)
        self.sigfield = lambda tok, exp, obs: None
        # the same for a write (result, exception or BMC state afterwards differ from the oracle)
        self.sigwrite = lambda tok: None
        # (operation name, tokens) of the line the MODEL is asked with (default: the denoted line the oracle gets)
        self.modelline = lambda tok: (self.name, self.denote(tok))
        # the arguments as a reader wants to see them (messages, replay trace)
        self.show = lambda tok: ' '.join(tok)


def _remember_wd(ip, w):
    ip._verif_last_watchdog = w
    return w


def _m(name):
    return lambda ip: getattr(ip, name)


OPS = {}


def _op(name, fam, read, gen, call, canon, changers=()):
    OPS[name] = Op(name, fam, read, gen, call, canon, changers)


def _i(t):
    return [int(x) for x in t]


# --- device id / GUID / resets / watchdog
_op('get_device_id', 'bmc', True, lambda r: [], lambda ip, t: ip.get_device_id(), c_device_id, ['mut:device'])
_op('get_device_guid', 'bmc', True, lambda r: [], lambda ip, t: ip.get_device_guid(), c_guid, ['mut:guid'])
_op('cold_reset', 'bmc', False, lambda r: [], lambda ip, t: ip.cold_reset(), c_none)
_op('warm_reset', 'bmc', False, lambda r: [], lambda ip, t: ip.warm_reset(), c_none)
_op('set_watchdog_timer', 'watchdog', False,
    lambda r: _T(g_bits(3)(r), r.choice([0, 1, 'n']), r.randrange(2), g_bits(3)(r), g_bits(3)(r), g_byte(r), g_byte(r), g_bits(16)(r)),
    lambda ip, t: ip.set_watchdog_timer(_wd_config(t, ip)), c_none)
OPS['set_watchdog_timer'].denote = lambda tok: [tok[0], '0' if tok[1] == 'n' else tok[1]] + list(tok[2:])
_op('get_watchdog_timer', 'watchdog', True, lambda r: [], lambda ip, t: _remember_wd(ip, ip.get_watchdog_timer()), c_watchdog,
    ['mut:device', 'set_watchdog_timer', 'reset_watchdog_timer'])
_op('reset_watchdog_timer', 'watchdog', False, lambda r: [], lambda ip, t: ip.reset_watchdog_timer(), c_none)
# --- chassis
_op('get_chassis_status', 'chassis', True, lambda r: [], lambda ip, t: ip.get_chassis_status(), c_chassis,
    ['mut:chassis', 'mut:chassis', 'chassis_control_power_down', 'chassis_control_power_up'])
_op('chassis_control', 'chassis', False, lambda r: _T(g_bits(4)(r)), lambda ip, t: ip.chassis_control(int(t[0])), c_none)
for _n in ('power_down', 'power_up', 'power_cycle', 'hard_reset', 'diagnostic_interrupt', 'soft_shutdown'):
    _op('chassis_control_' + _n, 'chassis', False, lambda r: [], (lambda n: lambda ip, t: getattr(ip, n)())('chassis_control_' + _n), c_none)
_op('get_system_boot_options', 'boot', True,
    lambda r: _T(r.choice([0, 1, 2, 3, 4, 5, 5, 6, 7, g_bits(7)(r)]), r.choice([0, 0, 1, 2, g_byte(r)]), r.choice([0, 0, g_byte(r)])),
    lambda ip, t: ip.get_system_boot_options(*_i(t)), c_hex, ['mut:boot', 'set_system_boot_options', 'set_boot_options'])
def g_set_boot(r):
    sel = r.choice([0, 1, 2, 3, 4, 5, 5, 6, 7, g_bits(7)(r)])
    # parameter 5 (boot flags) carries at least its two flag bytes (InRange of Props/C07.lean)
    return _T(sel, lean.hexs(g_bytes(r, 2 if sel == 5 else 1, 9)), r.randrange(2))


def g_set_lan(r):
    sel = r.choice([0, 3, 4, 5, 6, 12, 16, 20, g_byte(r)])
    return _T(g_chan(r), sel, lean.hexs(g_bytes(r, 2 if sel == 20 else 1, 18)))


_op('set_system_boot_options', 'boot', False, g_set_boot,
    lambda ip, t: ip.set_system_boot_options(int(t[0]), bytearray(lean.unhex(t[1])), int(t[2])), c_none)
_op('get_boot_mode', 'boot', True, lambda r: [], lambda ip, t: ip.get_boot_mode(), c_boot_mode, ['mut:boot', 'set_boot_options'])
_op('get_boot_persistency', 'boot', True, lambda r: [], lambda ip, t: ip.get_boot_persistency(), c_bool, ['mut:boot', 'set_boot_options'])
_op('get_boot_device', 'boot', True, lambda r: [], lambda ip, t: ip.get_boot_device(), _enumval, ['mut:boot', 'set_boot_options'])
_op('set_boot_options', 'boot', False, lambda r: _T(r.randrange(12), r.randrange(2), r.randrange(2)),
    lambda ip, t: ip.set_boot_options(_boot_device_member(int(t[0])), 'efi' if t[1] == '1' else 'legacy', t[2] == '1'), c_none)
# --- LAN
_op('get_lan_config_param', 'lan', True,
    lambda r: _T(g_chan(r), r.choice([0, 3, 4, 5, 6, 12, 16, 20, g_byte(r)]), r.choice([0, 0, g_byte(r)]), r.choice([0, 0, g_byte(r)]), 1 if r.random() < 0.3 else 0),
    lambda ip, t: ip.get_lan_config_param(*_i(t)), c_lan_param, ['mut:lan', 'set_lan_config_param'])
OPS['get_lan_config_param'].sigfield = lambda tok, exp, obs: 'revision-only' if tok[4] == '1' else None
_op('set_lan_config_param', 'lan', False, g_set_lan,
    lambda ip, t: ip.set_lan_config_param(int(t[0]), int(t[1]), bytearray(lean.unhex(t[2]))), c_none)
_op('get_ip_address', 'lan', True, lambda r: _T(g_chan(r)), lambda ip, t: ip.get_ip_address(int(t[0])), c_str, ['mut:lan', 'set_ip_address'])
_op('set_ip_address', 'lan', False, g_set_ip, lambda ip, t: ip.set_ip_address(_ip_arg(t), int(t[1])), c_none)
# the oracle is asked with the four octets the text denotes; the model with the text itself (Model.Api.api_set_ip_address_text)
OPS['set_ip_address'].denote = lambda tok: list(tok[:2])
OPS['set_ip_address'].modelline = lambda tok: ('set_ip_address_text', [tok[2], tok[1]]) if len(tok) > 2 else ('set_ip_address', list(tok))
OPS['set_ip_address'].show = lambda tok: '%r channel=%s' % (_ip_arg(tok), tok[1])
OPS['set_ip_address'].sigwrite = lambda tok: None if ip_spelling(tok) == 'plain' else ip_spelling(tok)
_op('get_ip_source', 'lan', True, lambda r: _T(g_chan(r)), lambda ip, t: ip.get_ip_source(int(t[0])), c_str, ['mut:lan', 'set_ip_source'])
_op('set_ip_source', 'lan', False, lambda r: _T(r.choice([1, 2]), g_chan(r)),
    lambda ip, t: ip.set_ip_source({1: 'static', 2: 'dhcp'}[int(t[0])], int(t[1])), c_none)
_op('get_mac_address', 'lan', True, lambda r: _T(g_chan(r)), lambda ip, t: ip.get_mac_address(int(t[0])), c_str, ['mut:lan'])
_op('get_vlan_id', 'lan', True, lambda r: _T(g_chan(r)), lambda ip, t: ip.get_vlan_id(int(t[0])), c_int, ['mut:lan', 'set_vlan_id'])
_op('set_vlan_id', 'lan', False, lambda r: _T(r.choice([0, 1, 255, 256, 394, 4094, 4095, r.randrange(4096)]), g_chan(r)),
    lambda ip, t: ip.set_vlan_id(int(t[0]), int(t[1])), c_none)
# --- users
_op('set_username', 'users', False, lambda r: _T(g_uid(r), lean.hexs(g_name(r))),
    lambda ip, t: ip.set_username(int(t[0]), lean.unhex(t[1]).decode('ascii')), c_none)
_op('get_username', 'users', True, lambda r: _T(g_uid(r)), lambda ip, t: ip.get_username(int(t[0])), c_hex, ['set_username', 'mut:users'])
_op('get_user_access', 'users', True, lambda r: _T(g_uid(r), g_chan(r)), lambda ip, t: ip.get_user_access(int(t[0]), int(t[1])),
    c_user_access, ['set_user_access', 'enable_user', 'disable_user', 'mut:users'])
_op('set_user_access', 'users', False,
    lambda r: _T(g_uid(r), r.randrange(2), r.randrange(2), r.randrange(2), r.choice([0, 1, 2, 3, 4, 5, 15]), g_chan(r),
                 0 if r.random() < 0.25 else 1, g_bits(4)(r)),
    lambda ip, t: ip.set_user_access(int(t[0]), int(t[1]), int(t[2]), int(t[3]), _priv_member(int(t[4])), int(t[5]), int(t[6]), int(t[7])),
    c_none)
_op('set_user_password', 'users', False, lambda r: _T(g_uid(r), lean.hexs(g_name(r))),
    lambda ip, t: ip.set_user_password(int(t[0]), lean.unhex(t[1]).decode('ascii')), c_none)
_op('enable_user', 'users', False, lambda r: _T(g_uid(r)), lambda ip, t: ip.enable_user(int(t[0])), c_none)
_op('disable_user', 'users', False, lambda r: _T(g_uid(r)), lambda ip, t: ip.disable_user(int(t[0])), c_none)
# --- sensors / events
_op('get_sensor_reading', 'sensors', True, lambda r: _T(g_sensor(r), r.randrange(4)),
    lambda ip, t: ip.get_sensor_reading(int(t[0]), int(t[1])), c_pair, ['mut:sensors', 'mut:sensors', 'mut:unavail', 'rearm_sensor_events'])
def _sig_sensor_reading(tok, exp, obs):
    if exp == 'None None' and obs.startswith('None '):
        return 'states-while-unavailable'
    e, o = exp.split(' '), obs.split(' ')
    if len(e) == 2 and len(o) == 2 and e[0] == o[0] and e[1].isdigit() and o[1].isdigit() and int(o[1]) == int(e[1]) + 0x8000:
        return 'state-bit-15'
    return None


OPS['get_sensor_reading'].sigfield = _sig_sensor_reading
_op('set_sensor_thresholds', 'sensors', False,
    lambda r: _T(g_sensor(r), r.randrange(4), *[('n' if r.random() < 0.5 else g_byte(r)) for _ in range(6)]),
    lambda ip, t: ip.set_sensor_thresholds(int(t[0]), int(t[1]), **dict((k, _opt(v)) for k, v in zip(THR, t[2:]))), c_none)
_op('get_sensor_thresholds', 'sensors', True, lambda r: _T(g_sensor(r), r.randrange(4)),
    lambda ip, t: ip.get_sensor_thresholds(int(t[0]), int(t[1])), c_thresholds, ['mut:sensors', 'set_sensor_thresholds'])
_op('rearm_sensor_events', 'sensors', False, lambda r: _T(g_sensor(r)), lambda ip, t: ip.rearm_sensor_events(int(t[0])), c_none)
_op('send_platform_event', 'events', False,
    lambda r: _T(g_byte(r), g_sensor(r), g_bits(7)(r), r.randrange(2), lean.hexs(g_bytes(r, 1, 3)) if r.random() < 0.8 else 'default'),
    lambda ip, t: ip.send_platform_event(int(t[0]), int(t[1]), int(t[2]), t[3] == '1', None if t[4] == 'default' else list(lean.unhex(t[4]))),
    c_none)
_op('set_event_receiver', 'events', False, lambda r: _T(g_bits(7)(r), r.randrange(4)),
    lambda ip, t: ip.set_event_receiver(int(t[0]), int(t[1])), c_none)
_op('get_event_receiver', 'events', True, lambda r: [], lambda ip, t: ip.get_event_receiver(), c_pair, ['set_event_receiver', 'mut:events'])
# --- PICMG
_op('get_picmg_properties', 'picmg', True, lambda r: [], lambda ip, t: ip.get_picmg_properties(), c_picmg_props, ['mut:picmg'])
_op('fru_control', 'picmg', False, lambda r: _T(g_fru(r), r.choice([0, 1, 2, 3, 4, g_byte(r)])),
    lambda ip, t: ip.fru_control(int(t[0]), int(t[1])), c_hex)
for _n in ('cold_reset', 'warm_reset', 'graceful_reboot', 'diagnostic_interrupt'):
    _op('fru_control_' + _n, 'picmg', False, lambda r: _T(g_fru(r)),
        (lambda n: lambda ip, t: getattr(ip, n)(int(t[0])))('fru_control_' + _n),
        c_hex if _n == 'diagnostic_interrupt' else c_none)      # that one hands the (empty) response data on
_op('get_power_level', 'power', True, lambda r: _T(g_fru(r), r.randrange(4)),
    lambda ip, t: ip.get_power_level(int(t[0]), int(t[1])), c_power, ['mut:power'])
_op('get_fan_speed_properties', 'fan', True, lambda r: _T(g_fru(r)), lambda ip, t: ip.get_fan_speed_properties(int(t[0])), c_fan_props, ['mut:fans'])
_op('set_fan_level', 'fan', False, lambda r: _T(g_fru(r), g_byte(r)), lambda ip, t: ip.set_fan_level(int(t[0]), int(t[1])), c_none)
# one defect, two faces: an R1.0/R2.0 fan tray refuses the four-byte request (C7h), an R3.0 one executes its fourth byte
OPS['set_fan_level'].sigwrite = lambda tok: 'request-byte-4'
_op('get_fan_level', 'fan', True, lambda r: _T(g_fru(r)), lambda ip, t: ip.get_fan_level(int(t[0])), c_pair, ['mut:fans', 'set_fan_level'])
_op('get_led_state', 'led', True, lambda r: _T(g_fru(r), g_led(r)), lambda ip, t: ip.get_led_state(int(t[0]), int(t[1])), c_led,
    ['mut:leds', 'mut:leds', 'set_led_state'])
_op('set_led_state', 'led', False, lambda r: _T(g_fru(r), g_led(r), *g_led_cmd(r)), lambda ip, t: ip.set_led_state(_led_state(t)), c_none)
_op('set_fru_activation', 'activation', False, lambda r: _T(g_fru(r)), lambda ip, t: ip.set_fru_activation(int(t[0])), c_none)
_op('set_fru_deactivation', 'activation', False, lambda r: _T(g_fru(r)), lambda ip, t: ip.set_fru_deactivation(int(t[0])), c_none)
_op('set_fru_activation_policy', 'activation', False, lambda r: _T(g_fru(r), r.randrange(4)),
    lambda ip, t: ip.set_fru_activation_policy(int(t[0]), int(t[1])), c_none)
for _n in ('set_fru_activation_lock', 'clear_fru_activation_lock', 'set_fru_deactivation_lock', 'clear_fru_deactivation_lock'):
    _op(_n, 'activation', False, lambda r: _T(g_fru(r)), (lambda n: lambda ip, t: getattr(ip, n)(int(t[0])))(_n), c_none)
LINK_TYPES = [1, 2, 3, 4, 5, 0x32, 0xf0, 0xf1, 0xf2, 0xf3, 0xfe]    # PICMG 3.x (with signalling class), OEM GUID
# link types the library publishes as values of LinkDescriptor.type (TYPE_BASE … TYPE_PCIEXPRESS_FABRIC, TYPE_OEM0..3):
# only these are handed over as ONE number in `type` (sig_class 0); every other link type goes as type / sig_class nibbles
PUBLISHED_LINK_TYPES = [1, 2, 3, 4, 5, 0xf0, 0xf1, 0xf2, 0xf3]


def g_set_port(r):
    ty = r.choice(LINK_TYPES) if r.random() < 0.5 else g_byte(r)
    whole = 1 if (ty in PUBLISHED_LINK_TYPES and r.random() < (0.7 if ty >= 0xf0 else 0.3)) else 0
    return _T(r.randrange(4) if r.random() < 0.3 else r.randrange(3), g_pchan(r), g_bits(4)(r), ty, g_bits(4)(r), g_byte(r),
              r.choice([0, 1, 1, g_byte(r)]), whole)


_op('set_port_state', 'port', False, g_set_port, lambda ip, t: ip.set_port_state(_link(t), int(t[6])), c_none)
OPS['set_port_state'].sigwrite = lambda tok: 'oem-link-type' if (tok[7] == '1' and int(tok[3]) >= 16) else None
_op('get_port_state', 'port', True, lambda r: _T(g_pchan(r), r.randrange(4) if r.random() < 0.3 else r.randrange(3)),
    lambda ip, t: ip.get_port_state(int(t[0]), int(t[1])), c_port, ['mut:ports', 'set_port_state'])
OPS['get_port_state'].sigfield = lambda tok, exp, obs: (
    'oem-link-type' if (' sig=0 ' in exp and ' sig=15 ' in obs and _field_of_diff(exp, obs) == 'type') else None)
_op('get_pm_global_status', 'power', True, lambda r: [], lambda ip, t: ip.get_pm_global_status(), c_pm_global, ['mut:hpm'])
_op('get_power_channel_status', 'power', True, lambda r: _T(r.choice([1, 2, 3, 16, g_byte(r)])),
    lambda ip, t: ip.get_power_channel_status(int(t[0])), c_pm_channel, ['mut:power'])
_op('send_channel_power', 'power', False,
    lambda r: _T(r.choice([1, 2, 3, 16, g_byte(r)]), r.randrange(2), r.choice([0, 5, 10, 75, 255, r.randrange(256)]), g_byte(r), g_byte(r)),
    lambda ip, t: ip.send_channel_power(int(t[0]), t[1] == '1', int(t[2]) / 10.0, int(t[3]), int(t[4])),
    c_none)
_op('send_pm_heartbeat', 'power', False, lambda r: [], lambda ip, t: ip.send_pm_heartbeat(), c_none)
_op('set_signaling_class', 'port', False, lambda r: _T(r.randrange(4), g_pchan(r), g_bits(4)(r)),
    lambda ip, t: ip.set_signaling_class(int(t[0]), int(t[1]), int(t[2])), c_none)
_op('get_signaling_class', 'port', True, lambda r: _T(r.randrange(4), g_pchan(r)),
    lambda ip, t: ip.get_signaling_class(int(t[0]), int(t[1])), c_int, ['set_signaling_class', 'mut:ports'])
# --- HPM.1 status queries
_op('get_upgrade_status', 'hpm', True, lambda r: [], lambda ip, t: ip.get_upgrade_status(), c_hpm_status, ['mut:hpm'])
_op('get_target_upgrade_capabilities', 'hpm', True, lambda r: [], lambda ip, t: ip.get_target_upgrade_capabilities(), c_hpm_caps, ['mut:hpm'])
_op('query_selftest_results', 'hpm', True, lambda r: [], lambda ip, t: ip.query_selftest_results(), c_selftest, ['mut:hpm'])
_op('query_rollback_status', 'hpm', True, lambda r: [], lambda ip, t: ip.query_rollback_status(), c_rollback, ['mut:hpm'])
OPS['query_rollback_status'].sigfield = lambda tok, exp, obs: None if (obs[:3] in ('py:', 'cc:') or obs.startswith('canon:')) else 'result'
# Get Component Properties: the description string (selector 2), alone, within all properties of a component, and
# as the key of find_component_id_by_descriptor.  Descriptions / descriptors come from a pool shared with the
# driver's state generator (`descrPool` of Drivers/C07.lean) plus random printable text with backslashes.
DESCR_POOL = [b'IPMC', b'fw\\update', b'A\\u0042C', b'ABC', b'\\U00000041', b'\\\\u0041', b'boot\\', b'\\u0000a',
              b'\\x41', b'\\ud800', b'\\U00110000', b'FPGA #1', b'Twelve chars',
              b'IPMC ', b' IPMC', b'boot\t', b'\nfw', b' ']      # begin / end with a blank character
g_comp = _pool([0, 1, 2, 3, 4, 5, 6, 7], 256)


def g_descriptor(r):
    x = r.random()
    if x < 0.7:
        return r.choice(DESCR_POOL)
    if x < 0.85:
        return b'C%d' % r.randrange(8)           # description of a component the generator left at its default
    return bytes(r.choice([92, 117, 48, 52, r.randrange(0x20, 0x7f)]) for _ in range(r.randint(0, 12)))


_op('get_component_property', 'hpm', True, lambda r: _T(g_comp(r)),
    lambda ip, t: ip.get_component_property(int(t[0]), _hpm_const('PROPERTY_DESCRIPTION_STRING')), c_descr, ['mut:hpm'])
_op('get_component_properties', 'hpm', True, lambda r: _T(g_comp(r)),
    lambda ip, t: ip.get_component_properties(int(t[0])), c_props, ['mut:hpm'])
_op('find_component_id_by_descriptor', 'hpm', True, lambda r: _T(lean.hexs(g_descriptor(r))),
    lambda ip, t: ip.find_component_id_by_descriptor(lean.unhex(t[0]).decode('latin-1')), c_opt, ['mut:hpm'])
for _n in ('get_component_property', 'get_component_properties', 'find_component_id_by_descriptor'):
    # one defect (the decoder of the description string) seen through three methods
    OPS[_n].sigfield = lambda tok, exp, obs: '@get_component_property:description'

# --- DCMI 1.5: capabilities (selectors 1..5 defined, every byte value asked), power reading (mode 1 / 2 defined, every
# mode and attributes byte asked; `attributes` also left at its default), the temperature-sensor walk
g_dcmi_sel = _pool([1, 2, 3, 4, 5, 0, 6, 0x80, 0xff], 256)
g_dcmi_mode = _pool([1, 2, 0, 0xff], 256)
g_dcmi_attr = _pool([0, 1, 2, 0x7f, 0xff], 256)
_op('get_dcmi_capabilities', 'dcmi', True, lambda r: _T(g_dcmi_sel(r)),
    lambda ip, t: ip.get_dcmi_capabilities(int(t[0])), c_dcmi_caps, ['mut:dcmi'])
_op('get_power_reading', 'dcmi', True, lambda r: _T(g_dcmi_mode(r), 'n' if r.random() < 0.25 else g_dcmi_attr(r)),
    lambda ip, t: ip.get_power_reading(int(t[0])) if t[1] == 'n' else ip.get_power_reading(int(t[0]), int(t[1])),
    c_power_reading, ['mut:dcmi'])
OPS['get_power_reading'].denote = lambda tok: [tok[0], '0' if tok[1] == 'n' else tok[1]]
_op('get_dcmi_sensor_record_ids', 'dcmi', True, lambda r: [], lambda ip, t: ip.get_dcmi_sensor_record_ids(), c_ids, ['mut:dcmi'])
# operations whose model is a sequence of exchanges outside Spec.Bmc.Call, proved under an extra hypothesis (`_partial`)
PARTIAL_OPS = ['get_dcmi_sensor_record_ids']

FAMILIES = sorted(set(o.fam for o in OPS.values()))
# send_channel_power: current_limit is a float in ampere, the wire carries tenths: only values x = k/10.0
# with int(x*10) == k are generated (float rounding is not this property's subject); the token is k.


def _limit_ok(k):
    return int(k / 10.0 * 10) == k


# ------------------------------------------------------------------------------------------
# running one history
# ------------------------------------------------------------------------------------------

def fresh_pyipmi():
    """Forget every pyipmi module so that class-level and default-argument state starts empty."""
    for name in list(sys.modules):
        if name == 'pyipmi' or name.startswith('pyipmi.'):
            del sys.modules[name]
    import pyipmi  # noqa
    return pyipmi


def _connect(kind, iface):
    import pyipmi
    from pyipmi.session import Session
    if kind == 'create_connection':
        return pyipmi.create_connection(iface)
    if kind == 'Ipmi':
        return pyipmi.Ipmi(interface=iface)
    if kind == 'Ipmi_session':
        return pyipmi.Ipmi(interface=iface, session=Session())
    return pyipmi.Ipmi(interface=iface, session=None)


def _field_of_diff(a, b):
    """name of the `k=` group in which the first differing token lies; 'raises' for an exception."""
    if b.startswith('py:') or b.startswith('cc:') or b.startswith('canon:'):
        return 'raises'
    ta, tb = a.split(' '), b.split(' ')
    key = 'result'
    if len(ta) == len(tb):
        for x, y in zip(ta, tb):
            if '=' in x:
                key = x.split('=')[0]
            if x != y:
                return key
    return 'result'


def parse_ok(spec):
    return spec != 'bad-op'


def _state_diff(a, b):
    """the stretch in which two state dumps differ, with a little context"""
    ta, tb = a.split(' '), b.split(' ')
    i = 0
    while i < min(len(ta), len(tb)) and ta[i] == tb[i]:
        i += 1
    j = 0
    while j < min(len(ta), len(tb)) - i and ta[-1 - j] == tb[-1 - j]:
        j += 1
    lo = max(0, i - 14)
    return '… %s … | … %s …' % (' '.join(ta[lo:max(i + 1, len(ta) - j) + 3]), ' '.join(tb[lo:max(i + 1, len(tb) - j) + 3]))


class Outcome(object):
    def __init__(self):
        self.violation = None       # (signature, what, step index, expected, observed)
        self.disagree = None
        self.steps_done = 0
        self.trace = []


def run_history(drv, hist, modelled, ctx=None, verbose=False):
    """Execute `hist`; stop at the first property violation.  Returns Outcome."""
    out = Outcome()
    nb = len(hist['bmcs'])
    for i, seed in enumerate(hist['bmcs']):
        if drv.ask('new %d %d' % (i, seed)) != 'ok':
            raise lean.LeanError('driver refused new')
    ifaces, conns = [], []
    for c in hist['conns']:
        ifc = bmc_iface.BmcInterface(drv, c['bmc'], session_based=bool(hist.get('session_based')))
        ifaces.append(ifc)
        conns.append(_connect(c['ctor'], ifc))
    digests = [drv.ask('digest %d' % i) for i in range(nb)]
    from pyipmi.errors import CompletionCodeError
    for idx, st in enumerate(hist['steps']):
        out.steps_done = idx + 1
        if 'mut' in st:
            b = st['mut']
            if b < nb:
                drv.ask('mut %d %d %s' % (b, st['seed'], st['fam']))
                digests[b] = drv.ask('digest %d' % b)
            continue
        k = st['conn']
        if k >= len(conns):
            continue
        bi = hist['conns'][k]['bmc']
        if 'open' in st:
            before = [len(f.sessions) for f in ifaces]
            try:
                conns[k].open()
                obs = 'ok'
            except Exception as e:  # noqa
                obs = 'py:' + type(e).__name__
            after = [len(f.sessions) for f in ifaces]
            want = [n + (1 if j == k else 0) for j, n in enumerate(before)]
            if ctx is not None:
                ctx.case(('open', tuple(c['ctor'] for c in hist['conns']), k))
                ctx.count('op:open')
            if obs != 'ok' or after != want or (ifaces[k].sessions and ifaces[k].sessions[-1] is not conns[k].session):
                what = ('open() on connection %d (%s) established sessions per interface %s, expected %s (own interface only)'
                        % (k, hist['conns'][k]['ctor'], after, want))
                out.violation = ('C07:open:session-on-other-connection', what, idx, str(want), '%s %s' % (obs, after))
                return out
            continue
        op = OPS[st['op']]
        tok = st['tok']
        line = ' '.join([st['op']] + list(op.denote(tok)))
        spec = drv.ask('spec %d %s' % (bi, line))
        if spec == 'bad-op':
            raise lean.LeanError('driver does not know: ' + line)
        exp_dig, exp_res = spec.split(' ', 1)
        spec_dump = drv.ask('specdump %d %s' % (bi, line)) if (verbose and parse_ok(spec)) else None
        is_modelled = st['op'] in modelled or '*' in modelled
        model = model_req = None
        if is_modelled:
            mop, mtok = op.modelline(tok)
            ans = drv.ask('modelx %d %s %s' % (bi, hist.get('variant', '-'), ' '.join([mop] + list(mtok))))
            if ans == 'bad-op':             # an operation without a single-exchange model (judged against the oracle only)
                is_modelled = False
            else:
                model, model_req, dom = ans.split(' | ')
        if is_modelled and ctx is not None:
            ctx.count('theorem_domain:' + {'1 1': 'inside', '0 1': 'arguments-outside', '1 0': 'state-outside',
                                            '0 0': 'both-outside'}.get(dom, dom))
        log_from = len(ifaces[k].log)
        try:
            ret = op.call(conns[k], tok)
            try:
                obs = op.canon(ret)
            except Exception as e:  # noqa
                obs = 'canon:%s:%s' % (type(e).__name__, e)
        except CompletionCodeError as e:
            obs = 'cc:%d' % e.cc
        except Exception as e:  # noqa
            obs = 'py:' + type(e).__name__
        now = [drv.ask('digest %d' % i) for i in range(nb)]
        if verbose and now[bi] != exp_dig and spec_dump not in (None, 'bad-op'):
            out.trace.append('  BMC state after step %d, spec | code: %s' % (idx, _state_diff(spec_dump, drv.ask('dump %d' % bi))))
        if verbose:
            wire = '; '.join('netfn %02xh lun %d cmd %02xh data %s' % (e[0], e[1], e[2], e[3] or '-') for e in ifaces[k].log[log_from:])
            shown = line if op.show(tok) == ' '.join(tok) else '%s(%s) [denotes: %s]' % (st['op'], op.show(tok), line)
            out.trace.append('  step %d conn %d bmc %d: %s -> code: %s | spec: %s%s   [on the wire: %s]' % (
                idx, k, bi, shown, obs, exp_res, '' if now[bi] == exp_dig else '  [BMC state differs from spec]', wire or 'nothing'))
        if ctx is not None:
            ctx.case((st['op'], tuple(tok), digests[bi]))
            ctx.count('op:' + st['op'])
            ctx.count('family:' + op.fam)
            if st['op'] in ('set_username', 'set_user_password'):
                ctx.count('%s:%s' % ('name_written' if st['op'] == 'set_username' else 'password_written',
                                     name_shape(lean.unhex(tok[1]))))
            if st['op'] == 'get_username' and not exp_res.startswith(('cc:', 'py:')):
                ctx.count('name_read:' + name_shape(lean.unhex(exp_res).rstrip(b'\0')))
            if st['op'] == 'find_component_id_by_descriptor':
                ctx.count('descriptor:' + name_shape(lean.unhex(tok[0])))
            if st['op'] == 'set_ip_address':
                ctx.count('ip_address_written:' + ip_spelling(tok))
            ctx.count('outcome:' + ('cc' if obs.startswith('cc:') else 'exception' if obs.startswith('py:') else 'ok'))
            if st['op'] == 'get_lan_config_param':
                ctx.count('lan_read:' + ('revision-only channel %s' % ('0' if tok[0] == '0' else '1-15') if tok[4] == '1' else 'data'))
            if st['op'] == 'get_sensor_reading':
                ctx.count('sensor_read:' + ('reading/state unavailable' if exp_res == 'None None' else 'available'))
            if st['op'] == 'get_component_property' and not exp_res.startswith('cc:'):
                ctx.count('description_read:' + ('with backslash' if b'\\' in lean.unhex(exp_res) else 'without backslash'))
            if st['op'] == 'get_port_state' and ' type=' in exp_res:
                ctx.count('link_type_read:' + ('OEM (F0h..FFh)' if int(exp_res.split(' type=')[1].split(' ')[0]) >= 0xf0 else 'PICMG 3.x / other'))
            if st['op'] == 'set_fan_level':
                ctx.count('fan_tray:' + drv.ask('fanrev %d %s' % (bi, tok[0])))
            if st['op'] == 'get_dcmi_sensor_record_ids' and not exp_res.startswith(('cc:', 'py:')):
                n = 0 if exp_res == '-' else len(exp_res.split(','))
                ctx.count('dcmi_record_ids_read:%s' % ('0' if n == 0 else '1-8' if n <= 8 else '9-16' if n <= 16 else '17-24'))
            if st['op'] == 'get_power_reading':
                ctx.count('power_reading_attributes:' + ('default' if tok[1] == 'n' else 'given'))
            if st['op'] == 'query_rollback_status':
                ctx.count('rollback_read:mask %s, estimate %s' % (
                    'zero' if exp_res.startswith('status=0 ') else 'non-zero',
                    'absent' if exp_res.endswith('pct=None') else 'zero' if exp_res.endswith('pct=0') else 'non-zero'))
        viol = None
        if obs != exp_res:
            if op.read:
                fld = op.sigfield(tok, exp_res, obs) or _field_of_diff(exp_res, obs)
            else:
                fld = op.sigwrite(tok) or ('raises' if (obs.startswith('py:') or obs.startswith('cc:')) else 'result')
            viol = ('C07:' + fld[1:] if fld.startswith('@') else 'C07:%s:%s' % (st['op'], fld),
                    '%s(%s) returned/raised %s, a conforming BMC in this state means %s' % (st['op'], op.show(tok), obs, exp_res),
                    idx, exp_res, obs)
        elif now[bi] != exp_dig:
            viol = ('C07:%s:%s' % (st['op'], op.sigwrite(tok) or 'state'),
                    '%s(%s) left the BMC in a state other than the one the arguments denote' % (st['op'], op.show(tok)),
                    idx, 'digest ' + exp_dig, 'digest ' + now[bi])
        else:
            for j in range(nb):
                if j != bi and now[j] != digests[j]:
                    viol = ('C07:%s:other-bmc' % st['op'], '%s on connection %d changed BMC instance %d' % (st['op'], k, j),
                            idx, digests[j], now[j])
        if model is not None:
            if obs.startswith('cc:'):
                tag = 'CompletionCodeError:' + obs[3:]
            elif obs in ('py:DecodingError', 'py:EncodingError', 'py:NotSupportedError'):
                tag = obs[3:]
            else:
                tag = obs
            m_dig, m_res = model.split(' ', 1)
            # return value / exception (any non-library exception matches any other) and BMC state afterwards
            m_ok = (m_res == obs or m_res == tag or (m_res.startswith('py:') and tag.startswith('py:'))) and m_dig == now[bi]
            # the request(s) the real code put on the wire against the model's single request
            sent = ['%d %d %d %s' % (e[0], e[1], e[2], e[3] or '-') for e in ifaces[k].log[log_from:]]
            # (an operation modelled as a sequence of exchanges: its requests separated by ' ; ')
            want = model_req.split(' ; ') if (model_req and model_req[0].isdigit()) else []
            r_ok = sent == want
            if ctx is not None:
                ctx.count('request_bytes_compared')
            if not (m_ok and r_ok) and out.disagree is None:
                out.disagree = {'what': st['op'] + ('' if r_ok else ':request'), 'step': idx,
                                'model': '%s | requests %s' % (model, want), 'code': '%s %s | requests %s' % (now[bi], obs, sent),
                                'explained_by': viol[0] if viol else None}
        digests = now
        if viol:
            out.violation = viol
            return out
    return out


# ------------------------------------------------------------------------------------------
# history generation
# ------------------------------------------------------------------------------------------

MUT_FAMS = dict((k, k) for k in ('device', 'guid', 'chassis', 'boot', 'lan', 'users', 'sensors', 'unavail', 'events', 'picmg', 'power', 'fans', 'leds',
                                 'ports', 'hpm', 'dcmi'))


def gen_history(rng, tier, focus=None):
    nb = rng.choice([1, 1, 2])
    nc = rng.choice([1, 2, 2, 3])
    ctors = ['create_connection', 'Ipmi', 'Ipmi', 'Ipmi_session', 'Ipmi_none']
    conns = [{'bmc': rng.randrange(nb), 'ctor': rng.choice(ctors)} for _ in range(nc)]
    if nb == 2 and nc >= 2:
        conns[0]['bmc'], conns[1]['bmc'] = 0, 1
    hist = {'bmcs': [rng.randrange(1 << 30) for _ in range(nb)], 'conns': conns, 'steps': [],
            'session_based': rng.random() < 0.3}
    steps = hist['steps']
    if hist['session_based'] or rng.random() < 0.2:
        order = list(range(nc))
        rng.shuffle(order)
        for k in order:
            steps.append({'conn': k, 'open': 1})
    target = rng.choice([1, 2, 3, 5, 8, 12, 20, 30]) if tier == 'quick' else rng.choice([1, 3, 8, 15, 30, 30])
    fams = [focus] if focus else rng.sample(FAMILIES, rng.choice([1, 2, 3, len(FAMILIES)]))
    names = sorted(n for n, o in OPS.items() if o.fam in fams)
    ncalls = 0

    def same_bmc_conn(k):
        peers = [j for j, c in enumerate(conns) if c['bmc'] == conns[k]['bmc']]
        return rng.choice(peers)

    while ncalls < target:
        name = rng.choice(names)
        op = OPS[name]
        k = rng.randrange(nc)
        tok = op.gen(rng)
        if name == 'send_channel_power' and not _limit_ok(int(tok[2])):
            continue
        steps.append({'conn': k, 'op': name, 'tok': tok})
        ncalls += 1
        if op.read:
            ch = rng.choice(op.changers) if op.changers else 'mut:all'
            if ch.startswith('mut:'):
                steps.append({'mut': conns[k]['bmc'], 'seed': rng.randrange(1 << 30), 'fam': MUT_FAMS.get(ch[4:], 'all')})
            else:
                w = OPS[ch]
                wt = w.gen(rng)
                # aim the write at the object just read where the shapes allow it
                if ch == 'set_led_state' or ch == 'set_fan_level':
                    wt[:len(tok)] = tok[:len(wt)] if ch == 'set_fan_level' else tok
                if ch in ('set_username', 'enable_user', 'disable_user', 'set_sensor_thresholds', 'rearm_sensor_events'):
                    wt[:len(tok)] = tok if ch == 'set_sensor_thresholds' else tok[:1]
                if ch == 'set_user_access':
                    wt[0], wt[5] = tok[0], tok[1]
                if ch in ('set_ip_address', 'set_ip_source', 'set_vlan_id'):
                    wt[1] = tok[0]
                if ch == 'set_port_state':
                    wt[0], wt[1] = tok[1], tok[0]
                if ch == 'set_signaling_class':
                    wt[0], wt[1] = tok[0], tok[1]
                if ch == 'send_channel_power' and not _limit_ok(int(wt[2])):
                    wt[2] = '10'
                steps.append({'conn': same_bmc_conn(k), 'op': ch, 'tok': wt})
                ncalls += 1
            if nb == 2 and rng.random() < 0.3:
                other = [j for j, c in enumerate(conns) if c['bmc'] != conns[k]['bmc']]
                if other:
                    steps.append({'conn': rng.choice(other), 'op': name, 'tok': tok})
                    ncalls += 1
            steps.append({'conn': same_bmc_conn(k) if rng.random() < 0.5 else k, 'op': name, 'tok': tok})
            ncalls += 1
    return hist


def directed_histories(rng):
    """Every entry of every conversion table, every wrapper method, both LED override kinds, the
    shared-default-argument constructors: one short history each."""
    out = []

    def H(steps, conns=None, nb=1, session_based=False):
        out.append({'bmcs': [rng.randrange(1 << 30) for _ in range(nb)],
                    'conns': conns or [{'bmc': 0, 'ctor': 'create_connection'}], 'steps': steps,
                    'session_based': session_based})

    def C(op, *tok, **kw):
        return {'conn': kw.get('conn', 0), 'op': op, 'tok': _T(*tok)}

    # watchdog: a running timer read back, the object changed and written again with don't-stop untouched
    for use in (1, 4):
        H([C('set_watchdog_timer', use, 1, 0, 1, 0, 0, 0, 600), C('reset_watchdog_timer'), C('get_watchdog_timer'),
           C('set_watchdog_timer', use, 'n', 0, 2, 0, 0, 0, 300), C('get_watchdog_timer')])
    for d in range(12):                     # boot device: API write then API read, both directions of the table
        H([C('set_boot_options', d, d % 2, (d // 2) % 2), C('get_boot_device'), C('get_boot_mode'), C('get_boot_persistency')])
    for code in (0, 1, 2, 3, 4, 5, 6, 7, 8, 9, 11, 15):   # boot device: raw selector written, API read
        H([C('set_system_boot_options', 5, lean.hexs(bytes([0x80, code << 2, 0, 0, 0])), 0), C('get_boot_device')])
    for p in (0, 1, 2, 3, 4, 5, 15):        # privilege: both directions
        H([C('set_user_access', 2, 1, 0, 1, p, 1, 1, 3), C('get_user_access', 2, 1)])
    # access flags set by one call and cleared by the next (all three 0 with the change bit set), per flag and together
    for flags in ((1, 0, 0), (0, 1, 0), (0, 0, 1), (1, 1, 1)):
        H([C('set_user_access', 3, flags[0], flags[1], flags[2], 4, 7, 1, 2), C('get_user_access', 3, 7),
           C('set_user_access', 3, 0, 0, 0, 4, 7, 1, 2), C('get_user_access', 3, 7),
           C('set_user_access', 3, flags[0], flags[1], flags[2], 3, 7, 0, 2), C('get_user_access', 3, 7)])
    for src in (0, 1, 2, 3, 4):             # ip source codes
        H([C('set_lan_config_param', 1, 4, '%02x' % src), C('get_ip_source', 1)])
    for src in (1, 2):
        H([C('set_ip_source', src, 7), C('get_ip_source', 7)])
    for v in (0, 1, 255, 256, 394, 4095):
        H([C('set_vlan_id', v, 2), C('get_vlan_id', 2)])
    # set_ip_address: the TEXT of the address.  Every octet position x the zero-padded numerals ('010', '001', '08', '009',
    # '000', '00', '0255', '077', '064', '018', '0100'), the extremes 0 / 255, '+7', ' 9', '8 ': the BMC stores the DECIMAL
    # value of every octet, and get_ip_address reads that address back; then whole addresses in fixed-width form
    for pos in range(4):
        steps = []
        for n, sty in ((10, 'pad3'), (1, 'pad3'), (8, 'pad2'), (9, 'pad3'), (0, 'pad3'), (0, 'pad2'), (255, 'zero+'), (255, 'plain'),
                       (0, 'plain'), (77, 'pad3'), (64, 'zero+'), (18, 'pad3'), (100, 'pad4'), (7, 'plus'), (9, 'blank-before'),
                       (8, 'blank-after')):
            octets, styles = [192, 168, 1, 1], ['plain'] * 4
            octets[pos], styles[pos] = n, sty
            ch = rng.choice([0, 1, 2, 7, 15])
            steps += [C('set_ip_address', *_ip_tokens(octets, ch, styles)), C('get_ip_address', ch)]
        H(steps)
    steps = []
    for octets, sty, tail in (([192, 168, 1, 10], 'pad3', ''), ([10, 20, 30, 40], 'pad3', ''), ([172, 16, 254, 3], 'pad3', ''),
                              ([0, 0, 0, 0], 'pad3', ''), ([255, 255, 255, 255], 'plain', ''), ([0, 0, 0, 0], 'plain', ''),
                              ([8, 9, 18, 19], 'pad3', ''), ([8, 9, 0, 7], 'pad2', ''), ([10, 1, 2, 3], 'pad3', ''),
                              ([100, 77, 5, 70], 'pad3', ''), ([192, 168, 17, 64], 'pad2', ''), ([255, 255, 255, 255], 'zero+', ''),
                              ([10, 0, 0, 8], 'plain', '\n'), ([192, 168, 1, 9], 'pad3', '\n')):
        ch = rng.choice([0, 1, 7])
        steps += [C('set_ip_address', *_ip_tokens(octets, ch, [sty] * 4, tail)), C('get_ip_address', ch)]
    H(steps)
    for n in tables.CHASSIS_METHODS:
        H([C('chassis_control_' + n), C('get_chassis_status')])
    for n in tables.FRU_CONTROL_METHODS:
        H([C('fru_control_' + n, 1)])
    for n in tables.POLICY_METHODS + ['set_fru_activation', 'set_fru_deactivation']:
        H([C(n, 2)])
    for i in range(4):
        H([C('set_fru_activation_policy', 3, i)])
    for cmd in (['off', 0, 0, 2], ['on', 0, 0, 3], ['blink', 1, 2, 4], ['blink', 0xfa, 0xfa, 1], ['blink', 100, 0, 0xe],
                ['lamp', 127, 0, 0xf], ['lamp', 0, 0, 5]):
        H([C('set_led_state', 1, 2, *cmd), C('get_led_state', 1, 2)])
    # chassis status read twice with the BMC's status moving in between (and a second connection)
    for _ in range(4):
        H([C('get_chassis_status'), {'mut': 0, 'seed': rng.randrange(1 << 30), 'fam': 'chassis'}, C('get_chassis_status', conn=1),
           {'mut': 0, 'seed': rng.randrange(1 << 30), 'fam': 'chassis'}, C('get_chassis_status')],
          conns=[{'bmc': 0, 'ctor': 'create_connection'}, {'bmc': 0, 'ctor': 'Ipmi'}])
    # two connections built with default arguments, each opened, on a session-based interface, two BMCs
    for ctors in (('Ipmi', 'Ipmi'), ('Ipmi', 'create_connection'), ('Ipmi_none', 'Ipmi'), ('Ipmi_session', 'Ipmi_session')):
        H([{'conn': 0, 'open': 1}, C('get_device_id', conn=0), {'conn': 1, 'open': 1}, C('get_device_id', conn=1), C('get_device_id', conn=0)],
          conns=[{'bmc': 0, 'ctor': ctors[0]}, {'bmc': 1, 'ctor': ctors[1]}], nb=2, session_based=True)
    # how oracle values look through the API: reserved user id (CCh), power type > 3 (CCh), reserved boot
    # selector / IP source code (KeyError)
    H([C('get_username', 0), C('set_username', 0, lean.hexs(b'ab')), C('enable_user', 0), C('get_user_access', 0, 1),
       C('set_user_password', 0, lean.hexs(b'pw')), C('get_username', 2)])
    # STRING ARGUMENTS THAT BEGIN / END WITH BLANK CHARACTERS (space, tab, newline, ...), consist of nothing else, carry
    # them inside only, or fill all 16 characters with the blank last / first: the BMC stores exactly the 16 NUL-padded
    # bytes the argument denotes; names that differ only by such a character are different names (read back both)
    for shape in NAME_SHAPES:
        for rep in range(2):
            u1, u2 = rng.sample([1, 2, 3, 4, 10, 62, 63], 2)
            if shape == 'pair':
                base = name_of_shape(rng, 'inner', 12) if rep else rng.choice([b'root', b'admin', b'lab'])
                blank = bytes([rng.choice(BLANKS)])
                a, b = (base + blank, base) if rng.random() < 0.5 else (blank + base, base)
                if rng.random() < 0.5:
                    a, b = b, a
                H([C('set_username', u1, lean.hexs(a)), C('set_username', u2, lean.hexs(b)), C('get_username', u1),
                   C('get_username', u2), C('set_user_password', u1, lean.hexs(a)), C('set_user_password', u2, lean.hexs(b))])
            else:
                nm, pw = name_of_shape(rng, shape), name_of_shape(rng, shape)
                H([C('set_username', u1, lean.hexs(nm)), C('get_username', u1), C('set_user_password', u1, lean.hexs(pw)),
                   C('get_username', u2)])
    for d in (b'IPMC ', b' IPMC', b'IPMC', b'boot\t', b'\nfw', b' ', b'FPGA #1'):
        H([{'mut': 0, 'seed': rng.randrange(1 << 30), 'fam': 'hpm'}, C('find_component_id_by_descriptor', lean.hexs(d)),
           C('get_component_property', rng.randrange(8))])
    # send_channel_power: EVERY current limit the one-byte field can carry (tenths of an ampere 0..255 whose float k/10.0
    # denotes k, _limit_ok) - a conversion that is exact for whole and half amperes only is not exact
    ks = [k for k in range(256) if _limit_ok(k)]
    for i in range(0, len(ks), 64):
        H([C('send_channel_power', rng.choice([1, 2, 3, 16]), (k + i) % 2, k, rng.choice([0, 1, 0xff]), rng.choice([0, 1, 0xff]))
           for k in ks[i:i + 64]])
    for ty in (3, 4, 255):
        H([C('get_power_level', 1, ty)])
    for code in (10, 12, 13, 14):
        H([C('set_system_boot_options', 5, lean.hexs(bytes([0x80, code << 2, 0, 0, 0])), 0), C('get_boot_device'), C('get_boot_mode')])
    for src in (5, 15, 0x14):
        H([C('set_lan_config_param', 1, 4, '%02x' % src), C('get_ip_source', 1)])
    # sensors: same number on every LUN
    for lun in range(4):
        H([C('get_sensor_reading', 1, lun), C('get_sensor_thresholds', 1, lun), C('set_sensor_thresholds', 1, lun, 1, 2, 3, 4, 5, 6),
           C('get_sensor_thresholds', 1, lun), C('get_sensor_thresholds', 1, (lun + 1) % 4)])
    # sensors that flag "reading/state unavailable" while their response still carries non-zero state bytes: every pool
    # sensor on every LUN; and the update that follows a re-arm (the state bytes are the ones from before), then the next scan
    for lun in range(4):
        H([{'mut': 0, 'seed': rng.randrange(1 << 30), 'fam': 'unavail'}]
          + [C('get_sensor_reading', n, lun) for n in (0, 1, 2, 0x7f, 0x80, 0xfe, 0xff)])
    for n in (0, 7, 0xff):
        H([C('get_sensor_reading', n, 0), C('rearm_sensor_events', n), C('get_sensor_reading', n, 0), C('get_sensor_reading', n, 1),
           {'mut': 0, 'seed': rng.randrange(1 << 30), 'fam': 'sensors'}, C('get_sensor_reading', n, 0)])
    # LAN parameter revision (revision-only mode) of every channel, next to the normal mode on the same address; channels
    # and parameters of one BMC carry different revisions
    for ch in range(16):
        sel = (3, 4, 5, 20, 0, 16, 192)[ch % 7]
        H([C('get_lan_config_param', ch, sel, 0, 0, 1), C('get_lan_config_param', ch, sel, 0, 0, 0),
           {'mut': 0, 'seed': rng.randrange(1 << 30), 'fam': 'lan'}, C('get_lan_config_param', ch, sel, 0, 0, 1),
           C('get_lan_config_param', (ch + 1) % 16, sel, 0, 0, 1), C('get_lan_config_param', ch, (sel + 1) % 256, 1, 2, 1)])
    # HPM.1 component descriptions (printable text with backslash sequences, any non-NUL bytes): every component id, alone,
    # within all properties, and as the key of find_component_id_by_descriptor
    for k in range(4):
        H([{'mut': 0, 'seed': rng.randrange(1 << 30), 'fam': 'hpm'}]
          + [C('get_component_property', i) for i in range(8)]
          + [C('get_component_properties', i) for i in (k, k + 4, 8)]
          + [C('find_component_id_by_descriptor', lean.hexs(d)) for d in DESCR_POOL[k::4]]
          + [C('find_component_id_by_descriptor', lean.hexs(b'C%d' % i)) for i in (k, k + 4)])
    # fan trays of both revisions (R1.0/R2.0: three request bytes only; R3.0: optional fourth byte = local control enable
    # state): the override level is set, local control stays as it is
    for k in range(2):
        H([{'mut': 0, 'seed': rng.randrange(1 << 30), 'fam': 'fans'}] if k else []
          + [c for fru in (0, 1, 2, 3, 0xfe) for c in (C('get_fan_level', fru), C('set_fan_level', fru, 9 + fru % 5), C('get_fan_level', fru))])
    # E-Keying link types: PICMG 3.x types with a signalling class and the OEM types, given as one number in
    # LinkDescriptor.type (TYPE_OEMx) and as nibbles; written, then read back
    for i, ty in enumerate(LINK_TYPES):
        for whole in ((0, 1) if ty in PUBLISHED_LINK_TYPES else (0,)):
            H([C('set_port_state', i % 3, 5, 15, ty, 1, 0x77, 1, whole), C('get_port_state', 5, i % 3)])
    for _ in range(2):
        H([{'mut': 0, 'seed': rng.randrange(1 << 30), 'fam': 'ports'}]
          + [C('get_port_state', ch, i) for i in (0, 1, 2) for ch in (0, 1, 5, 63)])
    # HPM.1 rollback status: component masks and completion estimates (absent, 0, non-zero) as the BMC moves
    for _ in range(6):
        H([C('query_rollback_status'), {'mut': 0, 'seed': rng.randrange(1 << 30), 'fam': 'hpm'}, C('query_rollback_status'),
           {'mut': 0, 'seed': rng.randrange(1 << 30), 'fam': 'hpm'}, C('query_rollback_status', conn=1)],
          conns=[{'bmc': 0, 'ctor': 'create_connection'}, {'bmc': 0, 'ctor': 'Ipmi'}])
    # DCMI: every defined capabilities selector and both power-reading modes against a fresh and a changed BMC, the
    # sensor walk before and after the sensor population changes, through a second connection as well
    for _ in range(3):
        H([C('get_dcmi_capabilities', sel) for sel in (1, 2, 3, 4, 5)]
          + [C('get_power_reading', 1, 'n'), C('get_power_reading', 2, 0x7f), C('get_dcmi_sensor_record_ids'),
             {'mut': 0, 'seed': rng.randrange(1 << 30), 'fam': 'dcmi'}]
          + [C('get_dcmi_capabilities', sel, conn=1) for sel in (1, 5, 0xff)]
          + [C('get_power_reading', 1, 0), C('get_power_reading', 2, 'n', conn=1), C('get_dcmi_sensor_record_ids', conn=1),
             {'mut': 0, 'seed': rng.randrange(1 << 30), 'fam': 'dcmi'}, C('get_dcmi_sensor_record_ids')],
          conns=[{'bmc': 0, 'ctor': 'create_connection'}, {'bmc': 0, 'ctor': 'Ipmi'}])
    return out


def _hermetic(drv, hist, modelled, verbose=False):
    fresh_pyipmi()
    return run_history(drv, hist, modelled, verbose=verbose)


def run_multi(drv, hists, modelled, verbose=False):
    """Several histories one after the other in ONE fresh import of pyipmi (hidden state of the
    library carries over, as it does in a long-running process); outcome of the last one."""
    fresh_pyipmi()
    out, traces = None, []
    for n, h in enumerate(hists):
        out = run_history(drv, h, modelled, verbose=verbose)
        traces.append(out.trace)
    out.traces = traces
    return out


def shrink_multi(drv, hists, sig, modelled, budget=60):
    out = run_multi(drv, hists, modelled)
    if not out.violation or out.violation[0] != sig:
        return None
    cur = hists[:-1] + [dict(hists[-1], steps=hists[-1]['steps'][:out.violation[2] + 1])]
    # first try the suffixes (cheap), then single removals
    for k in (len(cur) - 1, len(cur) - 2, len(cur) - 3):
        if 0 < k < len(cur) and budget > 0:
            budget -= 1
            o = run_multi(drv, cur[k:], modelled)
            if o.violation and o.violation[0] == sig:
                cur = cur[k:]
                break
    i = len(cur) - 2
    while i >= 0 and budget > 0:
        cand = cur[:i] + cur[i + 1:]
        budget -= 1
        o = run_multi(drv, cand, modelled)
        if o.violation and o.violation[0] == sig:
            cur = cand
        i -= 1
    return cur


def shrink(drv, hist, sig, modelled, budget=120):
    """Greedy step removal with fresh pyipmi modules per attempt; keeps the signature."""
    out = _hermetic(drv, hist, modelled)
    if not out.violation or out.violation[0] != sig:
        return None
    cur = dict(hist, steps=hist['steps'][:out.violation[2] + 1])
    i = len(cur['steps']) - 2
    while i >= 0 and budget > 0:
        cand = dict(cur, steps=cur['steps'][:i] + cur['steps'][i + 1:])
        budget -= 1
        o = _hermetic(drv, cand, modelled)
        if o.violation and o.violation[0] == sig:
            cur = dict(cand, steps=cand['steps'][:o.violation[2] + 1])
        i = min(i, len(cur['steps']) - 1) - 1
    # drop connections / BMC instances that are not needed any more
    used = sorted(set(s['conn'] for s in cur['steps'] if 'conn' in s))
    for k in reversed(range(len(cur['conns']))):
        if k not in used and len(cur['conns']) > 1:
            cand = dict(cur, conns=cur['conns'][:k] + cur['conns'][k + 1:],
                        steps=[dict(s, conn=s['conn'] - (1 if s.get('conn', -1) > k else 0)) if 'conn' in s else s for s in cur['steps']])
            o = _hermetic(drv, cand, modelled)
            if o.violation and o.violation[0] == sig:
                cur = cand
    return cur


class _Canned(object):
    """interface that answers every request with fixed bytes and keeps the request bytes"""

    def __init__(self, reply):
        self.reply = bytes(bytearray(reply))
        self.requests = []

    def send_and_receive(self, req):
        from pyipmi.msgs import create_message, decode_message, encode_message
        self.requests.append(bytes(bytearray(encode_message(req))))
        rsp = create_message(req.netfn + 1, req.cmdid, req.group_extension)
        decode_message(rsp, self.reply)
        return rsp


def _probe(reply, call, intended):
    """True when the code under test behaves as INTENDED on this witness"""
    try:
        import pyipmi
        ifc = _Canned(reply)
        return bool(intended(call(pyipmi.create_connection(ifc)), ifc.requests))
    except Exception:  # noqa
        return False


def probe_variants():
    """Which variant of the operations with a known defect does the tree under test carry?  Letters for
    the driver's `model` command (Model.Api.Variant): l = LED override decode as shipped, p = get_port_state
    as shipped, r = get_lan_config_param(revision_only=1) as shipped (channel 0, rsp.data), b = RollbackStatus
    without the component mask, u = get_sensor_reading builds states while reading/state is unavailable, d = HPM.1
    description string through raw_unicode_escape, f = fourth request byte of Set Fan Level, o = link types above 0Fh
    (TYPE_OEMx) cut to a nibble / read back as nibbles, s = reserved bit 7 of the second state byte reported as state 15."""
    fresh_pyipmi()
    from pyipmi.msgs import decode_message
    from pyipmi.msgs.picmg import GetFruLedStateRsp
    from pyipmi.picmg import LedState
    v = ''
    try:
        rsp = GetFruLedStateRsp()
        decode_message(rsp, bytes(bytearray([0, 0, 0x03, 0, 0, 1, 5, 7, 2])))   # override: blink, off 5, on 7, colour 2
        st = LedState(rsp)
        if not (st.override_off_duration == 50 and st.override_on_duration == 70):
            v += 'l'
    except Exception:  # noqa
        v += 'l'

    class _Empty(object):
        def send_and_receive(self, req):
            from pyipmi.msgs import create_message
            rsp = create_message(req.netfn + 1, req.cmdid, req.group_extension)
            decode_message(rsp, b'\x00\x00')
            return rsp
    try:
        import pyipmi
        r = pyipmi.create_connection(_Empty()).get_port_state(0, 0)
        if r != (None, None):
            v += 'p'
    except Exception:  # noqa
        v += 'p'
    # revision-only mode: request byte 1 = 80h | channel, selectors filled in, the revision byte returned
    if not _probe([0, 0x42], lambda ip: ip.get_lan_config_param(5, 3, 7, 9, revision_only=1),
                  lambda r, reqs: reqs == [bytes([0x85, 3, 7, 9])] and isinstance(r, int) and r == 0x42):
        v += 'r'
    # rollback status: the component mask, and a completion estimate of 0 / none
    if not (_probe([0, 0, 5, 0], lambda ip: ip.query_rollback_status(),
                   lambda r, reqs: r.rollback_status == 5 and r.percent_complete == 0)
            and _probe([0, 0, 0x81], lambda ip: ip.query_rollback_status(),
                       lambda r, reqs: r.rollback_status == 0x81 and r.percent_complete is None)):
        v += 'b'
    # reading/state unavailable (byte 3 bit 5) with state bytes present: neither reading nor states
    if not _probe([0, 0x10, 0xe0, 0xc1, 0x80], lambda ip: ip.get_sensor_reading(1, 2),
                  lambda r, reqs: r == (None, None)):
        v += 'u'
    # description string: one character per byte, a backslash is a character
    if not _probe([0, 0] + list(b'A\\u0042C\x00\x00\x00\x00'), lambda ip: ip.get_component_property(2, _hpm_const('PROPERTY_DESCRIPTION_STRING')),
                  lambda r, reqs: r.description == 'A\\u0042C'):
        v += 'd'
    # Set Fan Level: picmg id, FRU id, fan level - three bytes
    if not _probe([0, 0], lambda ip: ip.set_fan_level(3, 9), lambda r, reqs: reqs == [bytes([0, 3, 9])]):
        v += 'f'
    # OEM link type F0h: written as type nibble 0 + class nibble Fh, read back as TYPE_OEM0
    def _oem(ip):
        from pyipmi.picmg import LinkDescriptor
        d = LinkDescriptor()
        d.channel, d.interface, d.link_flags, d.type, d.sig_class, d.extension, d.grouping_id = 5, 1, 15, LinkDescriptor.TYPE_OEM0, 0, 1, 0x77
        return ip.set_port_state(d, 1)
    if not (_probe([0, 0], _oem, lambda r, reqs: reqs == [bytes([0, 0x45, 0x0f, 0x1f, 0x77, 1])])
            and _probe([0, 0, 0x45, 0x0f, 0x1f, 0x77, 1], lambda ip: ip.get_port_state(5, 1),
                       lambda r, reqs: r[0].type == 0xf0 and r[0].sig_class == 0)):
        v += 'o'
    # reserved bit 7 of the second state byte is no state
    if not _probe([0, 0x10, 0xc0, 0x01, 0x82], lambda ip: ip.get_sensor_reading(1, 0), lambda r, reqs: r == (0x10, 0x0201)):
        v += 's'
    return v or '-'


def public_ops():
    import pyipmi
    return sorted(n for n in dir(pyipmi.Ipmi) if not n.startswith('_') and callable(getattr(pyipmi.Ipmi, n)))


def _report(ctx, drv, hist, out, modelled, earlier):
    sig, what, idx, exp, obs = out.violation
    if any(v['signature'] == sig for v in ctx.violations):
        return
    small = shrink(drv, hist, sig, modelled)
    if small is not None:
        case = small
    else:
        # not reproducible from a fresh import on its own: hidden state left in the library by the
        # earlier histories since the last fresh import; the replay is then a sequence of histories
        multi = shrink_multi(drv, earlier + [hist], sig, modelled) if earlier else None
        if multi is None:
            ctx.notes.append('%s seen once but not reproducible from a fresh import; not reported' % sig)
            ctx.count('unreproducible:' + sig)
            return
        case = multi[0] if len(multi) == 1 else {'multi': multi}
    ctx.violate(sig, what, case, expected=exp, observed=obs)


def run(ctx):
    drv = ctx.driver('drv_c07')
    # an operation is modelled when the driver maps its name and arguments to a `Spec.Bmc.Call`
    prng = ctx.rng('c07-probe')
    def _mline(n):
        mop, mtok = OPS[n].modelline(OPS[n].gen(prng))
        return ' '.join([mop] + list(mtok))
    modelled = set(n for n in sorted(OPS) if drv.ask('modelreq - %s' % _mline(n)) != 'bad-op')
    ctx.extra['modelled_ops'] = sorted(modelled)
    # `model_refines_oracle` / `history_refines` quantify over the sum type Spec.Bmc.Call; the driver's `ops`
    # command lists the operation names its parser maps into that type, so every modelled operation is a
    # case of the theorems - provided they were built and audited in this run
    generic = ['PyIpmi.Props.C07.model_refines_oracle', 'PyIpmi.Props.C07.history_refines',
               'PyIpmi.Props.C07.read_after_history', 'PyIpmi.Props.C07.wf_invariant']
    proved = sorted(modelled - set(PARTIAL_OPS)) if all(g in ctx.theorems for g in generic) and not ctx.broken else []
    ctx.extra['proved_ops'] = proved
    ctx.extra['partially_proved_ops'] = sorted(n for n in PARTIAL_OPS if n in modelled
                                               and 'PyIpmi.Props.C07.read_%s_partial' % n in ctx.theorems and not ctx.broken)
    ctx.extra['modelled_not_proved_ops'] = sorted(set(modelled) - set(proved) - set(ctx.extra['partially_proved_ops']))
    ctx.extra['exercised_only_ops'] = sorted((set(OPS) | {'open'}) - set(modelled))
    ctx.extra['exercised_ops'] = sorted(OPS) + ['open']
    allops = public_ops()
    ctx.extra['all_public_ops'] = allops
    ctx.extra['not_exercised_ops'] = sorted(set(allops) - set(OPS) - {'open'})
    missing = sorted(set(OPS) - set(allops))
    if missing:
        ctx.broken.append(('translator', 'operations of the op table no longer exist in pyipmi.Ipmi: %s' % missing))
        for m in missing:
            OPS.pop(m)
    variant = probe_variants()
    ctx.extra['model_variant'] = dict((k, 'as shipped' if c in variant else 'intended') for k, c in (
        ('led_override_decode', 'l'), ('get_port_state_no_link', 'p'), ('get_lan_config_param_revision_only', 'r'),
        ('query_rollback_status_result', 'b'), ('get_sensor_reading_states_while_unavailable', 'u'),
        ('component_description_decoder', 'd'), ('set_fan_level_request_length', 'f'), ('oem_link_type', 'o'),
        ('get_sensor_reading_state_bit_15', 's')))
    rng = ctx.rng('c07')
    n_hist = 250 if ctx.tier == 'quick' else 6000
    budget = 40 if ctx.tier == 'quick' else 600
    t0 = time.time()
    done = 0
    earlier = []
    fresh_pyipmi()
    directed = directed_histories(rng)
    for h in range(n_hist + len(directed)):
        if time.time() - t0 > budget or ctx.time_left() < 20:
            break
        if h < len(directed):
            hist = directed[h]
            ctx.count('directed_histories')
        else:
            focus = FAMILIES[h % len(FAMILIES)] if h % 3 == 0 else None
            hist = gen_history(rng, ctx.tier, focus)
        hist['variant'] = variant
        if len(earlier) >= 40:           # bound what a multi-history replay has to carry
            fresh_pyipmi()
            earlier = []
        out = run_history(drv, hist, modelled, ctx)
        done += 1
        ctx.count('histories')
        ctx.count('history_calls:%s' % ('1-3' if out.steps_done <= 3 else '4-10' if out.steps_done <= 10 else '11-30' if out.steps_done <= 30 else '>30'))
        ctx.count('conns:%d' % len(hist['conns']))
        ctx.count('bmcs:%d' % len(hist['bmcs']))
        if out.disagree:
            d = out.disagree
            dd = {'what': d['what'], 'case': dict(hist, steps=hist['steps'][:d['step'] + 1]), 'model': d['model'], 'code': d['code']}
            if d['explained_by']:
                dd['explained_by'] = d['explained_by']
            if not any(x['what'] == d['what'] for x in ctx.disagreements):
                ctx.disagreements.append(dd)
        if out.violation:
            _report(ctx, drv, hist, out, modelled, earlier)
        if h < 3:
            ctx.sample({'conns': hist['conns'], 'bmcs': len(hist['bmcs']),
                        'first_steps': [s.get('op', 'mut' if 'mut' in s else 'open') + ' ' + ' '.join(s.get('tok', [])) for s in hist['steps'][:4]]})
        earlier.append(hist)
    ctx.extra['histories'] = done


def search(ctx):
    """A tie broke (translator / table theorem / model disagreement) and the history run found no
    violating input: run directed histories on the families the breakage names."""
    drv = ctx.driver('drv_c07')
    modelled = set(OPS)
    rng = ctx.rng('c07-search')
    fams = set()
    for d in ctx.disagreements:
        name = d['what'].split(':')[0]          # 'set_user_access:request' names the operation too
        if name in OPS:
            fams.add(OPS[name].fam)
    for k, detail in ctx.broken:
        for f in FAMILIES:
            if f in detail.lower():
                fams.add(f)
    fams = sorted(fams) or FAMILIES
    for h in range(400):
        if ctx.time_left() < 10 or ctx.violations:
            break
        hist = gen_history(rng, 'quick', fams[h % len(fams)])
        out = run_history(drv, hist, modelled, ctx)
        if out.violation:
            _report(ctx, drv, hist, out, modelled, [])


def replay(ctx, v):
    drv = ctx.driver('drv_c07')
    modelled = set()
    hists = v['case']['multi'] if 'multi' in v['case'] else [v['case']]
    out = run_multi(drv, hists, modelled, verbose=True)
    for n, hist in enumerate(hists):
        print('history %d/%d: %d BMC instance(s), connections %s%s' % (
            n + 1, len(hists), len(hist['bmcs']), [c['ctor'] + '->bmc%d' % c['bmc'] for c in hist['conns']],
            ', session-based interface' if hist.get('session_based') else ''))
        for line in out.traces[n]:
            print(line)
    if out.violation:
        print('  VIOLATED %s: %s' % (out.violation[0], out.violation[1]))
        print('    expected: %s' % out.violation[3])
        print('    observed: %s' % out.violation[4])
        return True
    return False
