"""C15 — FRU inventory parsing inverts the FRU storage format and enforces its checksums."""
import array
import datetime
import os
import shutil

from ..lib import lean, repo
from ..lib.lean import TieBroken
from ..translate import fru as tfru

ID = 'C15'
TARGETS = ['PyIpmi.Props.C15', 'drv_c15']
LEVEL = 'proof'
RULE = ('abstract FRU images (every subset of internal/chassis/board/product/multi-record areas; every predefined '
        'field in each of the four type/length encodings with every byte length 0..63; 0..8 custom fields; extra '
        'unused space; 0..8 multi-records of 0..255 data bytes: generic records of every type id - the OEM type C0h of '
        'other manufacturers, with the PICMG id but too short for a PICMG record, with 27h as fourth data byte, as last '
        'and as inner record included -, PICMG and power-module records) are encoded by the '
        'Lean SPEC encoder (Spec/FruFormat.lean, written from the storage definition) and parsed by the real code as '
        'bytes, as array("B"), as list, from a file (get_fru_inventory_from_file) and through Ipmi.get_fru_inventory '
        'on a byte-level FRU device; every attribute is compared with the spec view (property) and with the Lean '
        'model of the parser (tie); on the device every area is ALSO read through its own getter '
        '(get_fru_chassis_area / _board_area / _product_area / _multirecord_area, real parsers) and compared with the '
        'spec view\'s slot - None for an area the image does not have (property only; signatures '
        'C15:device-getter:<getter>[:absent-area]).  Alteration stream: single-byte alterations of sampled images at every position '
        '(quick: boundary + seeded values per position, thorough: all 255), as bytes, as array and - every info-area '
        'length byte and a sample of the other positions - through the FRU device; a covered byte must be rejected; an '
        'info-area length byte (quick: 0, 1, FFh, the neighbours of the old value and the one value for which the truncated '
        'remainder of the image / of the device storage sums to zero; thorough: all 255) '
        'may be accepted only when the altered bytes satisfy EVERY check of the format (Spec.imageOk: declared length >= 1 '
        'unit, inside the data, zero sum over the declared span; every field and the C1h marker inside the declared '
        'length; no area starting inside the span of another one); an altered covered byte that ends in anything but '
        'DecodingError (or the device\'s completion code) is a violation too.  Steered length bytes: for every info area '
        'of sampled images EVERY length value 1..255 (quick: of 4 images; thorough: of 40; of 12 / 20 more images the '
        'values whose span ends inside the image or just behind it), the image first STEERED - '
        'still an output of the spec encoder - so that the new span sums to zero wherever that is possible: a shortened '
        'span through the area\'s own chassis type / language code byte, a lengthened one through the type / language '
        'byte of the info area or a data byte of the multi-record in which the new span ends, on the device also '
        'through the first unused byte behind the image (span ending in the device\'s filler); each as bytes, array, '
        'file and through the device; signatures C15:altered-accepted:info-area-length-shortened:fields-outside-area, '
        '...-lengthened:areas-overlap[:device], C15:altered-raises:<exception>[:device].  '
        'Sub-parser stream: TypeLengthString, each info-area class, the multi-record area and the header on mutated '
        'and random bytes (tie only).  Device histories: ONE long-lived Ipmi object (real codec, byte-level FRU device '
        'with several FRU ids): image A read (inventory or header), then the contents replaced by image B with another '
        'area layout - behind the back of the library / by a complete write_fru_data / by a write that fails at the first or '
        'a later chunk (error code or short acknowledge) and is resumed / tail first - with reads of another FRU id in '
        'between, sometimes back to A; every read is judged against the spec view of the image the device holds at that '
        'moment and compared with the Lean parser model; a violation a fresh object does not show is reported as '
        'C15:parse-encode:...:after-earlier-operations with the shrunk history.  '
        'A case is distinct by (stream, input kind, image bytes).')
ASSUMPTIONS = [
    'model of fru.py/fields.py/utils.bcd_decode is hand-written (lean/PyIpmi/Model/FruParse.lean) and tied by this '
    'correspondence run; BCD_MAP, the 6-bit unpack masks/shifts, type/length masks, record dispatch constants and '
    'length guards are regenerated from the source each run (Gen/FruTables.lean)',
    'datetime arithmetic is modelled, not verified: the model carries minutes since 1996-01-01; the real mfg_date is '
    'compared with the civil date computed by Spec.dateOfMinutes on every generated board area',
    'type 11b fields are 8-bit ASCII + Latin-1 (the 2-byte UNICODE reading under non-English language codes is not '
    'part of the property)',
    'a record of type C0h whose data start with the PICMG manufacturer id 00315Ah and the PICMG record id 27h but hold '
    'fewer than 7 bytes (a truncated MTCA power module capability record) is not a well-formed image (Spec Record.wf); '
    'the repaired code rejects it with DecodingError',
    'an image whose header announces an info area at an offset behind the end of the data (FruInventory(data) then holds '
    'an area object without attributes) is not reachable by a single-byte alteration (the header checksum covers the '
    'offsets) and Spec.checksumsOk has nothing to check for it; a multi-record whose length byte reaches behind the end '
    'of the data has its body checksum taken over the bytes that exist (likewise unreachable: the length byte is '
    'covered by the record header checksum)',
    'an info-area length byte altered to another value b >= 1 is accepted by every reader of this format when the '
    'altered bytes are themselves a FRU image: span of 8*b bytes inside the data and zero-sum, every field and the C1h '
    'marker of the area inside the new span (only unused space was cut off), no other area starting inside it (a longer '
    'span reaches only into bytes of no area: filler behind the last area) - Spec.imageOk; theorems '
    'alteration_rejected_length_byte, device_alteration_length_byte, length_byte_limit; counted as '
    'altered:length-byte-accepted(format limit), not a violation.  Given exactly the image (bytes / array / file) a '
    'LENGTHENED length is never accepted, and an area without a whole unused unit admits no accepted alteration at all',
    'the device path (Ipmi.get_fru_inventory) is judged against the spec view and compared with the Lean model of the '
    'device path (Model/FruDevice.lean: read_fru_data by its contract - the stored bytes or the completion code C9h); '
    'its transfer loop is C10; the byte-level device of the history stream (FruStore in c15.py) is written '
    'from IPMI v2.0 34.1-34.3 and is trusted; what a faulted write must raise is not judged here',
    'three characters of 6-bit text occupy the same 3 bytes as four (the fourth being a space): the view pads, '
    'a limit of the packed format',
    'the internal use area has no length of its own in the storage format: the layout condition (Spec.layoutOk) knows '
    'only where it starts (no other area\'s span may contain that offset); the extent of the multi-record area is its '
    'chain of records up to the end-of-list flag.  On the device path the theorems state the layout and the confinement '
    'of the fields for the info areas (device_accept_implies_fields_and_layout); that the multi-record chain does not '
    'run over a later area is checked by the code and the model there as well but not stated as a theorem',
    'two areas announced at the same offset, or a multi-record chain that runs over another area, cannot be produced by '
    'a single-byte alteration of an encoder image (the offsets and the record lengths are covered by checksums of fixed '
    'extent): these parts of the layout check are tied by the translator (fail closed on any other form of '
    '_check_area_layout) and by the model, not exercised by the generators',
]
TRUSTED = ['harness/translate/fru.py', 'harness/props/c15.py']

_consts = None
_workdir = None

SIG_BCD = 'C15:TypeLengthString:bcd-plus-on-non-bytes'
SIG_SIX = 'C15:_unpack6bitascii:partial-group'
SIG_OEM = 'C15:create_from_record_id:oem-c0-record-decoded-as-picmg'
SIG_LEN0 = 'C15:altered-accepted:info-area-length-zero'
SIG_LENX = 'C15:altered-accepted:info-area-length-beyond-data'
SIG_SHORT = 'C15:altered-accepted:info-area-length-shortened:fields-outside-area'
SIG_LONG = 'C15:altered-accepted:info-area-length-lengthened:areas-overlap'

_FLAGS = None     # probe result of the tree under test (set by _run / replay)

EPOCH = datetime.datetime(1996, 1, 1)


# ------------------------------------------------------------------------------------------
# translator + variant probe
# ------------------------------------------------------------------------------------------

def _probe():
    """Which behaviour does the tree under test have (DESIGN 2.4)?  -> 'vv' flags of the model."""
    from pyipmi.fields import FruTypeLengthString
    try:
        FruTypeLengthString(array.array('B', [0x41, 0x12]), 0)
        bcd_only = False
    except AttributeError:
        bcd_only = True
    try:
        FruTypeLengthString(b'\x81\x01', 0)
        six_strict = False
    except IndexError:
        six_strict = True
    from pyipmi import fru
    from pyipmi.errors import DecodingError
    # chassis area (hand-built from the storage definition): 01 LL 17 C0 C0 C1 00 ck  with LL = 00 and a zero sum
    area0 = bytes([0x01, 0x00, 0x17, 0xc0, 0xc0, 0xc1, 0x00, 0xa7])
    try:
        fru.InventoryChassisInfoArea(area0)
        area_lax = True
    except DecodingError:
        area_lax = False
    # the same area behind a common header on a FRU device
    image = bytes([0x01, 0x00, 0x01, 0x00, 0x00, 0x00, 0x00, 0xfe]) + area0
    try:
        make_device(image).get_fru_chassis_area(fru_id=0)
        dev_lax = True
    except DecodingError:
        dev_lax = False
    # OEM record C0h of manufacturer 000157h (not PICMG 00315Ah), 5 data bytes, end of list
    body = [0x57, 0x01, 0x00, 0x16, 0x00]
    hdr = [0xc0, 0x82, len(body), (-sum(body)) % 256]
    rec = bytes(hdr + [(-sum(hdr)) % 256] + body)
    r = fru.FruDataMultiRecord.create_from_record_id(rec)
    type_only = isinstance(r, fru.FruPicmgRecord)
    # board area of 16 bytes (01 02 00 | date 9e 9d c0 | c2 "AB" | c0 x 4 | c1 | 00 | fc) with the length byte set to 01:
    # the first 8 bytes sum to zero, the manufacturer field, four more fields and the C1h marker lie behind them
    try:
        fru.InventoryBoardInfoArea(bytes(bytearray.fromhex('0101009e9dc0c24142c0c0c0c0c100fc')))
        fields_lax = True
    except DecodingError:
        fields_lax = False
    # board area (offset 8, 16 bytes) followed by a product area (offset 24); board length byte 02 -> 03: its 24 bytes
    # sum to zero and run over the product area
    image = bytes(bytearray.fromhex('01000001030000fb' '010300c09cc0c24142c0c0c0c0c100db'
                                    '010300c441434d66c25831c0c0c0c0c0c100000000000035'))
    try:
        fru.FruInventory(image)
        overlap_lax = True
    except DecodingError:
        overlap_lax = False
    try:
        make_device(image).get_fru_inventory(fru_id=0)
        dev_overlap_lax = True
    except DecodingError:
        dev_overlap_lax = False
    return bcd_only, six_strict, area_lax, dev_lax, type_only, fields_lax, overlap_lax, dev_overlap_lax


def translate(ctx):
    global _consts
    _consts = tfru.generate()
    bcd_only, six_strict, area_lax, dev_lax, type_only, fields_lax, overlap_lax, dev_overlap_lax = _probe()
    if (_consts['fieldsForm'] == 'lax') != fields_lax:
        raise TieBroken('the info-area classes have the %s form but a board area whose fields lie behind its declared '
                        'length is %s' % (_consts['fieldsForm'], 'accepted' if fields_lax else 'rejected'))
    for key, lax, what in (('layoutForm', overlap_lax, 'FruInventory._from_data'), ('devLayoutForm', dev_overlap_lax, 'Fru.get_fru_inventory')):
        if (_consts[key] == 'none') != lax:
            raise TieBroken('%s has the layout form %r but an image with overlapping areas is %s' % (
                what, _consts[key], 'accepted' if lax else 'rejected'))
    for key, lax, what in (('areaLenForm', area_lax, 'CommonInfoArea._from_data'), ('devLenForm', dev_lax, 'Fru._read_fru_area')):
        if (_consts[key] == 'lax') != lax:
            raise TieBroken('%s has the %s form but an info area with length byte 0 is %s' % (
                what, _consts[key], 'accepted' if lax else 'rejected'))
    if (_consts['dispatchForm'] == 'type-only') != type_only:
        raise TieBroken('create_from_record_id has the %s form but a C0h record of another manufacturer is %s' % (
            _consts['dispatchForm'], 'a FruPicmgRecord' if type_only else 'not a FruPicmgRecord'))
    if (_consts['sixForm'] == 'strict') != six_strict:
        raise TieBroken('_unpack6bitascii has the %s form but a 1-byte group %s' % (
            _consts['sixForm'], 'raises' if six_strict else 'decodes'))
    if _consts['bcdConverts'] == bcd_only:
        raise TieBroken('TypeLengthString BCD+ branch %s self.raw but an array %s' % (
            'converts' if _consts['bcdConverts'] else 'does not convert', 'raises' if bcd_only else 'decodes'))


# ------------------------------------------------------------------------------------------
# abstract images (Python side: plain tuples/dicts) and their protocol form
# ------------------------------------------------------------------------------------------

def _hex(l):
    return lean.hexs(bytes(bytearray(l)))


def f_tok(f):
    return f[0] + _hex(f[1])


def customs_tok(cs):
    return '|'.join(f_tok(f) for f in cs) if cs else '-'


def img_tokens(img):
    i = 'I:n' if img.get('internal') is None else 'I:' + _hex(img['internal'])
    c = img.get('chassis')
    ct = 'C:n' if c is None else 'C:%d,%d;%s;%s' % (
        c['type'], c['pad'], ';'.join(f_tok(f) for f in c['fields']), customs_tok(c['custom']))
    b = img.get('board')
    bt = 'B:n' if b is None else 'B:%d,%d,%d;%s;%s' % (
        b['lang'], b['minutes'], b['pad'], ';'.join(f_tok(f) for f in b['fields']), customs_tok(b['custom']))
    p = img.get('product')
    pt = 'P:n' if p is None else 'P:%d,%d;%s;%s' % (
        p['lang'], p['pad'], ';'.join(f_tok(f) for f in p['fields']), customs_tok(p['custom']))
    recs = img.get('records') or []
    toks = []
    for r in recs:
        if r[0] == 'g':
            toks.append('g.%d.%s' % (r[1], _hex(r[2])))
        elif r[0] == 'p':
            toks.append('p.%d.%d.%s' % (r[1], r[2], _hex(r[3])))
        else:
            toks.append('w.%d.%d.%s' % (r[1], r[2], _hex(r[3])))
    mt = 'M:' + ('|'.join(toks) if toks else '-')
    return 'enc %s %s %s %s %s' % (i, ct, bt, pt, mt)


ENCODINGS = 'bdst'


def gen_field(rng, enc=None, nbytes=None):
    """A field in encoding `enc` occupying `nbytes` data bytes (None: random)."""
    if enc is None:
        enc = rng.choice(ENCODINGS)
    if nbytes is None:
        r = rng.random()
        nbytes = 0 if r < 0.1 else rng.randrange(0, 12) if r < 0.7 else rng.randrange(0, 64)
    if enc == 't' and nbytes == 1:
        nbytes = rng.choice((0, 2))
    if enc == 'b':
        return ('b', [rng.randrange(256) for _ in range(nbytes)])
    if enc == 't':
        return ('t', [rng.choice((rng.randrange(0x20, 0x7f), rng.randrange(256))) for _ in range(nbytes)])
    if enc == 'd':
        return ('d', [rng.randrange(13) for _ in range(2 * nbytes)])
    # 6-bit: number of characters whose packing needs exactly nbytes bytes
    lo = (nbytes * 8 - 7 + 5) // 6 if nbytes else 0      # smallest m with ceil(6m/8) = nbytes
    hi = nbytes * 8 // 6
    m = rng.randrange(max(lo, 0), hi + 1) if hi >= lo else hi
    while (6 * m + 7) // 8 != nbytes:
        m += 1
    return ('s', [rng.randrange(64) for _ in range(m)])


def gen_area(rng, kind, nfields, ncustom=None, fields=None):
    if ncustom is None:
        r = rng.random()
        ncustom = 0 if r < 0.4 else rng.randrange(0, 9)
    a = {
        'pad': rng.choice((0, 0, 0, 1, 2)),
        'fields': fields if fields is not None else [gen_field(rng) for _ in range(nfields)],
        'custom': [gen_field(rng) for _ in range(ncustom)],
    }
    if kind == 'chassis':
        a['type'] = rng.randrange(256)
    else:
        a['lang'] = rng.choice((0, 25, rng.randrange(256)))
    if kind == 'board':
        a['minutes'] = rng.choice((0, 1, 59, 60, 1439, 1440, 0xffffff, 0x010000, 0x00ff00, 0x0100,
                                   rng.randrange(1 << 24), rng.randrange(1 << 24)))
    return a


NFIELDS = {'chassis': 2, 'board': 5, 'product': 7}


def gen_record(rng, size=None):
    r = rng.random()
    if size is None:
        size = rng.choice((0, 1, 2, 7, 16, 255, rng.randrange(256), rng.randrange(0, 24)))
    if r < 0.12:
        return gen_oem_c0(rng, size)
    if r < 0.45:
        t = rng.choice([x for x in (0, 1, 2, 3, 4, 5, 0x0c, 0xbf, 0xc1, 0xd0, 0xff, rng.randrange(256)) if x != 0xc0])
        return ('g', t, [rng.randrange(256) for _ in range(size)])
    if r < 0.8:
        pid = rng.choice([x for x in (0x04, 0x10, 0x16, 0x19, 0x26, 0x28, 0x00, 0xff, rng.randrange(256)) if x != 0x27])
        return ('p', pid, rng.randrange(256), [rng.randrange(256) for _ in range(min(size, 250))])
    return ('w', rng.choice((0, 1, rng.randrange(256))), rng.choice((0, 1, 420, 0xffff, 0x0100, rng.randrange(65536))),
            [rng.randrange(256) for _ in range(min(size, 248) if rng.random() < 0.5 else 0)])


PICMG_ID = [0x5a, 0x31, 0x00]


def gen_oem_c0(rng, size=None):
    """OEM record of type C0h that is NOT a PICMG record (storage definition 16.2.1/18.7: C0h-FFh are OEM types of
    every manufacturer; PICMG 3.0: a PICMG record carries manufacturer id 00315Ah, record id and version)"""
    shape = rng.choice(('other-mfg', 'other-mfg-27', 'other-mfg-short', 'picmg-id-short', 'empty', 'near-id'))
    if shape == 'empty':
        return ('g', 0xc0, [rng.randrange(256) for _ in range(rng.choice((0, 1, 2)))])
    if shape == 'picmg-id-short':
        return ('g', 0xc0, PICMG_ID + [rng.choice((0x27, rng.randrange(256)))] * rng.choice((0, 1)))
    if shape == 'near-id':          # differs from 00315Ah in exactly one byte
        m = list(PICMG_ID)
        k = rng.randrange(3)
        m[k] = rng.choice([x for x in (m[k] ^ 1, m[k] ^ 0x80, rng.randrange(256)) if x != m[k]])
    else:
        m = rng.choice(([0x57, 0x01, 0x00], [0x00, 0x00, 0x00], [0xff, 0xff, 0xff], [0x3a, 0x3d, 0x00],
                        [rng.randrange(256) for _ in range(3)]))
        if m == PICMG_ID:
            m = [0x57, 0x01, 0x00]
    if shape == 'other-mfg-short':
        return ('g', 0xc0, m + [rng.randrange(256)] * rng.choice((0, 1)))
    n = rng.choice((2, 3, 4, 7, 16)) if size is None else max(0, min(size, 255) - 3)
    tail = [rng.randrange(256) for _ in range(n)]
    if shape == 'other-mfg-27' and tail:
        tail[0] = 0x27
    return ('g', 0xc0, m + tail)


def gen_image(rng, subset=None, nrec=None):
    if subset is None:
        subset = [rng.random() < 0.6 for _ in range(4)] + [rng.random() < 0.3]
    img = {}
    img['internal'] = [rng.randrange(256) for _ in range(rng.choice((0, 3, 7, 8, 20)))] if subset[4] else None
    for k, name in enumerate(('chassis', 'board', 'product')):
        img[name] = gen_area(rng, name, NFIELDS[name]) if subset[k] else None
    if subset[3]:
        if nrec is None:
            nrec = rng.randrange(1, 9)
        img['records'] = [gen_record(rng) for _ in range(nrec)]
    else:
        img['records'] = []
    return img


def features(img):
    """What the image exercises (distribution + diagnosis of the two known defects)."""
    f = {'bcd': False, 'six_partial': False,
         'oem_c0': any(r[0] == 'g' and r[1] == 0xc0 for r in img.get('records') or [])}
    for name in ('chassis', 'board', 'product'):
        a = img.get(name)
        if a:
            for fld in a['fields'] + a['custom']:
                if fld[0] == 'd':
                    f['bcd'] = True
                if fld[0] == 's' and ((6 * len(fld[1]) + 7) // 8) % 3 != 0:
                    f['six_partial'] = True
    return f


def directed_images(rng, tier):
    """(label, image) – small witnesses first, then the systematic sweeps the property names."""
    out = []
    empty = ('b', [])

    def chassis_only(part, serial=empty, custom=()):
        return {'internal': None, 'board': None, 'product': None, 'records': [],
                'chassis': {'type': 23, 'pad': 0, 'fields': [part, serial], 'custom': list(custom)}}
    # minimal witnesses of the two expected defects
    out.append(('min-bcd', chassis_only(('d', [1, 2]))))
    out.append(('min-six1', chassis_only(('s', [33]))))
    out.append(('min-six2', chassis_only(('s', [33, 34]))))
    out.append(('min-six4', chassis_only(('s', [33, 34, 35, 36]))))
    out.append(('min-empty', {'internal': None, 'chassis': None, 'board': None, 'product': None, 'records': []}))
    # OEM records of type C0h that are not PICMG records (other manufacturer / too short), last and inner
    dc = ('g', 2, list(range(1, 14)))

    def recs_only(*recs):
        return {'internal': None, 'chassis': None, 'board': None, 'product': None, 'records': list(recs)}
    out.append(('min-oem-c0', recs_only(('g', 0xc0, [0x57, 0x01, 0x00, 0x27, 0x00, 0x10, 0x20]))))
    out.append(('min-oem-c0', recs_only(('g', 0xc0, [0x57, 0x01, 0x00]), dc)))
    out.append(('min-oem-c0', recs_only(dc, ('g', 0xc0, [0x57, 0x01, 0x00, 0xaa]))))
    out.append(('min-oem-c0', recs_only(dc, ('g', 0xc0, [0x57, 0x01, 0x00, 0x27, 0x00]))))
    out.append(('min-oem-c0', recs_only(('g', 0xc0, [0x5a, 0x31, 0x00, 0x27]), dc)))
    out.append(('min-oem-c0', recs_only(('g', 0xc0, []), ('p', 0x16, 0, [9, 9]), ('g', 0xc0, [0x5a, 0x31, 0x01, 0x16, 0x00, 0x01]))))
    for _ in range(6 if tier == 'quick' else 60):
        recs = [gen_record(rng) for _ in range(rng.randrange(0, 3))]
        recs.insert(rng.randrange(len(recs) + 1), gen_oem_c0(rng))
        if rng.random() < 0.5:
            recs.append(gen_oem_c0(rng))
        img = gen_image(rng, [rng.random() < 0.3, False, rng.random() < 0.3, False, False])
        img['records'] = recs
        out.append(('oem-c0', img))
    # every encoding x every byte length 0..63, in a predefined and in a custom position
    for enc in ENCODINGS:
        for n in range(64):
            if enc == 't' and n == 1:
                continue
            f = gen_field(rng, enc, n)
            if n % 2 == 0:
                out.append(('enc-len', chassis_only(f, gen_field(rng, enc, 63 - n if not (enc == 't' and n == 62) else 0))))
            else:
                out.append(('enc-len', chassis_only(empty, empty, [f, gen_field(rng)])))
    # every subset of areas (x internal use area)
    for mask in range(32):
        subset = [bool(mask >> k & 1) for k in range(5)]
        out.append(('subset', gen_image(rng, subset)))
    # 0..8 custom fields in each area kind
    for name in ('chassis', 'board', 'product'):
        for nc in range(9):
            img = {'internal': None, 'chassis': None, 'board': None, 'product': None, 'records': []}
            img[name] = gen_area(rng, name, NFIELDS[name], ncustom=nc)
            out.append(('custom', img))
    # 0..8 records, sizes over 0..255
    sizes = list(range(0, 256)) if tier == 'thorough' else [0, 1, 2, 4, 5, 6, 7, 8, 63, 64, 127, 128, 200, 254, 255]
    for nrec in range(0, 9):
        img = gen_image(rng, [False, rng.random() < 0.5, False, nrec > 0, False], nrec=nrec)
        out.append(('records', img))
    for s in sizes:
        img = {'internal': None, 'chassis': None, 'board': None, 'product': None,
               'records': [gen_record(rng, s), gen_record(rng, 255 - s)]}
        out.append(('record-size', img))
    # board dates
    for m in (0, 1, 1439, 1440, 527040 - 1, 527040, 0xffffff, 2103840, 2103839):
        img = {'internal': None, 'chassis': None, 'product': None, 'records': []}
        img['board'] = gen_area(rng, 'board', 5, ncustom=0)
        img['board']['minutes'] = m
        out.append(('date', img))
    # largest areas
    big = {'internal': None, 'records': [], 'chassis': None, 'product': None,
           'board': gen_area(rng, 'board', 5, ncustom=8, fields=[gen_field(rng, e, 63) for e in 'bdstb'])}
    big['board']['custom'] = [gen_field(rng, ENCODINGS[i % 4], 63) for i in range(8)]
    out.append(('big', big))
    return out


# ------------------------------------------------------------------------------------------
# running the real code and canonicalising what it reports
# ------------------------------------------------------------------------------------------

def _natlist(l):
    return ','.join(str(x) for x in l) if l else '-'


def canon_field(f):
    return '%d.%d.%s.%s' % (f.field_type, f.length, _hex(f.raw), _natlist([ord(c) for c in f.string]))


def canon_fields(sep, l):
    return sep.join(canon_field(f) for f in l) if l else '-'


AREA_FIELDS = {
    'chassis': ('part_number', 'serial_number'),
    'board': ('manufacturer', 'product_name', 'serial_number', 'part_number', 'fru_file_id'),
    'product': ('manufacturer', 'name', 'part_number', 'version', 'serial_number', 'asset_tag', 'fru_file_id'),
}


def canon_area(kind, a):
    if a is None:
        return 'n'
    if not hasattr(a, 'format_version'):
        return 'e'
    if kind == 'chassis':
        b2, minutes, custom = a.type, 0, a.custom_chassis_info
    else:
        b2, custom = a.language_code, a.custom_mfg_info
        minutes = 0
        if kind == 'board':
            delta = a.mfg_date - EPOCH
            minutes = delta.days * 1440 + delta.seconds // 60
    return '%d,%d,%d,%d;%s;%s' % (a.format_version, a.length, b2, minutes,
                                  canon_fields(';', [getattr(a, n) for n in AREA_FIELDS[kind]]),
                                  canon_fields('|', custom))


def canon_rec(r):
    from pyipmi import fru
    eol = 1 if r.end_of_list else 0
    raw = _hex(r.raw)
    if isinstance(r, fru.FruPicmgPowerModuleCapabilityRecord):
        t = int(round(r.maximum_current_output * 10))
        tenths = str(t) if float(t / 10) == r.maximum_current_output else repr(r.maximum_current_output)
        return 'W.%d.%d.%d.%s.%d.%d.%d.%s' % (r.record_type_id, eol, r.length, raw, r.manufacturer_id,
                                             r.picmg_record_type_id, r.format_version, tenths)
    if isinstance(r, fru.FruPicmgRecord):
        return 'P.%d.%d.%d.%s.%d.%d.%d' % (r.record_type_id, eol, r.length, raw, r.manufacturer_id,
                                          r.picmg_record_type_id, r.format_version)
    return 'U.%d.%d.%d.%d.%s' % (r.record_type_id, r.format_version, eol, r.length, raw)


def canon_multi(m):
    if m is None:
        return 'n'
    if not hasattr(m, 'records'):
        return 'e'
    return '|'.join(canon_rec(r) for r in m.records) if m.records else '-'


def canon_header(h):
    return '%d,%d,%d,%d,%d,%d' % (h.format_version, h.internal_use_area_offset or 0,
                                  h.chassis_info_area_offset or 0, h.board_info_area_offset or 0,
                                  h.product_info_area_offset or 0, h.multirecord_area_offset or 0)


def canon_areas(inv):
    return 'C:%s B:%s P:%s M:%s' % (canon_area('chassis', inv.chassis_info_area),
                                    canon_area('board', inv.board_info_area),
                                    canon_area('product', inv.product_info_area),
                                    canon_multi(inv.multirecord_area))


def canon_inventory(inv):
    h = canon_header(inv.common_header) if hasattr(inv, 'common_header') else 'n'
    return 'H:%s %s' % (h, canon_areas(inv))


def exc_tag(e):
    from pyipmi.errors import DecodingError
    if isinstance(e, DecodingError):
        return 'DecodingError'
    return 'py:' + type(e).__name__


KINDS = ('b', 'a', 'l', 'f')      # bytes, array('B'), list, file
MODEL_KIND = {'b': 'b', 'a': 'a', 'l': 'l', 'f': 'a'}


def _work():
    global _workdir
    if _workdir is None:
        _workdir = os.path.join(lean.WORK, 'c15-%d' % os.getpid())
        os.makedirs(_workdir, exist_ok=True)
    return _workdir


def _cleanup():
    global _workdir
    if _workdir is not None:
        shutil.rmtree(_workdir, ignore_errors=True)
        _workdir = None


def as_kind(data, kind):
    if kind == 'b':
        return bytes(data)
    if kind == 'a':
        return array.array('B', data)
    if kind == 'l':
        return list(data)
    raise ValueError(kind)


_KEEP = None      # when a list: parsed inventories are kept alive and re-read after later parses


def recheck_kept(ctx):
    """every kept inventory is canonicalised again after all later parses: an inventory object must keep
    the values of ITS image (no state shared between parsed inventories / areas / records)"""
    kept = _KEEP or []
    for i, (inv, out, data, kind) in enumerate(kept):
        ctx.case(('re-read', data, kind))
        ctx.count('stream:re-read-after-later-parses')
        try:
            now = 'ok ' + canon_inventory(inv)
        except Exception as e:  # noqa
            now = exc_tag(e)
        if now != out:
            later = kept[i + 1:i + 3] + kept[-2:]
            ctx.violate('C15:result-changed-by-later-parse',
                        'a parsed inventory reads differently after later images were parsed (state shared between '
                        'parsed objects)', {'op': 'reread', 'hex': _hex(data), 'kind': kind,
                                            'later': [[_hex(x[2]), x[3]] for x in later]},
                        expected=out[:400], observed=now[:400])
            return


def real_parse(data, kind):
    """-> 'ok <view>' | error tag"""
    from pyipmi import fru
    try:
        if kind == 'f':
            path = os.path.join(_work(), 'image.bin')
            with open(path, 'wb') as f:
                f.write(bytes(data))
            inv = fru.get_fru_inventory_from_file(path)
        else:
            inv = fru.FruInventory(as_kind(data, kind))
        out = 'ok ' + canon_inventory(inv)
        if _KEEP is not None and len(_KEEP) < 500:
            _KEEP.append((inv, out, bytes(data), kind))
        return out
    except Exception as e:  # noqa
        return exc_tag(e)


class _Rsp(object):
    pass


def make_device(image, size=None):
    """Byte-level FRU device behind `send_message_with_name` (IPMI Get FRU Inventory Area Info /
    Read FRU Data): storage = image followed by FFh up to `size`."""
    from pyipmi.fru import Fru
    from pyipmi.errors import CompletionCodeError
    store = bytes(image)
    if size is None:
        size = (len(store) + 255) // 256 * 256 + 256
    store = store + b'\xff' * (size - len(store))

    class Dev(Fru):
        def __init__(self):
            Fru.__init__(self)
            self.requests = 0

        def send_message_with_name(self, name, **kw):
            self.requests += 1
            rsp = _Rsp()
            if kw.get('fru_id', 0) != 0:
                raise CompletionCodeError(0xcb)
            if name == 'GetFruInventoryAreaInfo':
                rsp.area_size = len(store)
                return rsp
            if name == 'ReadFruData':
                off, cnt = kw['offset'], kw['count']
                if cnt > 32:
                    raise CompletionCodeError(0xca)
                if off + cnt > len(store):
                    raise CompletionCodeError(0xc9)
                rsp.count = cnt
                rsp.data = array.array('B', store[off:off + cnt])
                return rsp
            raise AssertionError(name)
    return Dev()


def real_device(data, fill=None):
    """`fill`: the bytes the device stores behind the image (None: FFh up to the next 256-byte boundary + 256)"""
    try:
        dev = make_device(data) if fill is None else make_device(bytes(data) + bytes(fill), size=len(data) + len(fill))
        inv = dev.get_fru_inventory(fru_id=0)
        return 'ok ' + canon_areas(inv)
    except Exception as e:  # noqa
        return exc_tag(e)


GETTERS = (('chassis', 'get_fru_chassis_area', 'C'), ('board', 'get_fru_board_area', 'B'),
           ('product', 'get_fru_product_area', 'P'), ('multirecord', 'get_fru_multirecord_area', 'M'))


def real_device_getters(data):
    """every area through ITS OWN getter (get_fru_chassis_area ... get_fru_multirecord_area) on a fresh FRU device,
    with the real parsers: 'C:… B:… P:… M:…' in the vocabulary of canon_areas, an exception tag in place of an
    area whose getter raised"""
    parts = []
    for kind, name, letter in GETTERS:
        try:
            a = getattr(make_device(data), name)(fru_id=0)
            parts.append('%s:%s' % (letter, canon_multi(a) if kind == 'multirecord' else canon_area(kind, a)))
        except Exception as e:  # noqa
            parts.append('%s:%s' % (letter, exc_tag(e)))
    return ' '.join(parts)


def judge_getters(ctx, label, hexs, view, got):
    """property, device path through the single-area getters: each yields exactly the area that was encoded -
    and None (what FruInventory carries) for an area the image does not have"""
    want = _areas_part(view)
    if got == want:
        return True
    for (kind, name, letter), w, g in zip(GETTERS, want.split(' '), got.split(' ')):
        if w == g:
            continue
        absent = w == letter + ':n'
        ctx.violate('C15:device-getter:%s%s' % (name, ':absent-area' if absent else ''),
                    'a well-formed FRU image (%s) stored in a FRU device: %s() %s' % (
                        label, name, 'does not report the %s area as encoded' % kind if not absent else
                        'yields %s for an area the image does not have (common header offset byte 00h)' % (
                            'an area object with values that were never encoded' if not g[2:].startswith(('py:', 'Decoding'))
                            else g[2:])),
                    {'op': 'valid', 'hex': hexs, 'kind': 'devget', 'view': view, 'label': label, 'getter': name},
                    expected=w, observed=g[:300])
    return False


def device_store(image, size=None):
    """the bytes make_device(image) stores"""
    n = len(image)
    if size is None:
        size = (n + 255) // 256 * 256 + 256
    return bytes(image) + b'\xff' * (size - n)


def model_dev_line(vv, store):
    return 'dev %s %s' % (vv, _hex(store))


def norm_model_dev(m):
    """Model.parseFruDevice answer in the vocabulary of real_device"""
    if m.startswith('ok '):
        return 'ok ' + _areas_part(m[3:])
    if m.startswith('CompletionCodeError:'):
        return 'py:CompletionCodeError'
    return m


def real_date(data, kind='b'):
    from pyipmi import fru
    try:
        inv = fru.FruInventory(as_kind(data, kind))
        d = inv.board_info_area.mfg_date
        return '%d %d %d %d %d' % (d.year, d.month, d.day, d.hour, d.minute)
    except Exception as e:  # noqa
        return exc_tag(e)


# ------------------------------------------------------------------------------------------
# device histories: ONE long-lived Ipmi object, the device contents change between reads
# ------------------------------------------------------------------------------------------
#
# case = {'op': 'history', 'images': [{'hex', 'view', 'label'}...], 'size': bytes per inventory area,
#         'limit': most bytes per read, 'init': {fru id: image index}, 'steps': [...], 'step': k}
# steps: {'do': 'inv'|'hdr', 'fid'}                         get_fru_inventory / get_fru_inventory_header
#        {'do': 'poke', 'fid', 'img'}                        the device contents are replaced behind the library's back
#        {'do': 'write', 'fid', 'img', 'off', 'faults'}      write_fru_data(image[off:], offset=off, fru_id); `faults`
#            = [[k, 'c', code] | [k, 's', n]]: write request k of this call is answered with a bare completion code /
#            stores and acknowledges only n bytes (the caller then resumes with a later write step)
# Every read step is judged against the image the device holds for that FRU id AT THAT MOMENT (the image of
# `images` that is a prefix of the stored bytes; none -> not judged): the view the spec encoder gave for it.

_MODEL = {}


class FruStore(object):
    """byte-level FRU inventory device (IPMI v2.0 34.1-34.3), one byte string per FRU id"""

    def __init__(self, mem, limit):
        self.mem = dict((int(i), bytearray(b)) for i, b in mem.items())
        self.limit = limit
        self.plan = []
        self.n = 0
        self.log = []

    def handle(self, netfn, cmd, data):
        data = bytes(data)
        n = self.n
        self.n += 1
        rsp = self._answer(n, netfn, cmd, data)
        self.log.append((cmd, data, rsp))
        return rsp

    def _answer(self, n, netfn, cmd, data):
        if netfn != 0x0A:
            return b'\xc1'
        fault = next(((t, v) for k, t, v in self.plan if k == n), None)
        if fault and fault[0] == 'c':
            return bytes([fault[1]])
        if cmd == 0x10:
            if len(data) != 1:
                return b'\xc7'
            if data[0] not in self.mem:
                return b'\xcb'
            size = len(self.mem[data[0]])
            return bytes([0x00, size & 0xff, size >> 8, 0x00])
        if cmd == 0x11:
            if len(data) != 4:
                return b'\xc7'
            if data[0] not in self.mem:
                return b'\xcb'
            mem, off, cnt = self.mem[data[0]], data[1] | data[2] << 8, data[3]
            if cnt == 0:
                return b'\xcc'
            if cnt > self.limit:
                return b'\xca'
            if off + cnt > len(mem):
                return b'\xc9'
            return bytes([0x00, cnt]) + bytes(mem[off:off + cnt])
        if cmd == 0x12:
            if len(data) < 3:
                return b'\xc7'
            if data[0] not in self.mem:
                return b'\xcb'
            mem, off, new = self.mem[data[0]], data[1] | data[2] << 8, data[3:]
            if fault and fault[0] == 's':
                new = new[:fault[1]]
            if off >= len(mem) and new:
                return b'\xc9'
            new = new[:len(mem) - off]
            mem[off:off + len(new)] = new
            return bytes([0x00, len(new)])
        return b'\xc1'


def _pad(image, size):
    return bytes(image) + b'\xff' * (size - len(image))


def _held_image(images, mem):
    """index of the image the stored bytes start with (longest), or None"""
    best = None
    for i, im in enumerate(images):
        b = lean.unhex(im['hex'])
        if bytes(mem[:len(b)]) == b and (best is None or len(b) > len(lean.unhex(images[best]['hex']))):
            best = i
    return best


def _hdr_part(view):
    return view.split(' ', 1)[0][2:]


def _read_step(ipmi, st):
    from ..sim import dev11
    try:
        if st['do'] == 'inv':
            return 'ok ' + canon_areas(ipmi.get_fru_inventory(fru_id=int(st['fid'])))
        return 'ok ' + canon_header(ipmi.get_fru_inventory_header(fru_id=int(st['fid'])))
    except dev11.HangGuard:
        return 'py:Hang'
    except Exception as e:  # noqa
        return exc_tag(e)


def run_history(case, upto=None):
    """-> per step: None (not a read) | (held image index or None, real outcome, expected outcome or None)"""
    from ..sim import dev11
    images = case['images']
    size = int(case['size'])
    dev = FruStore(dict((int(f), _pad(lean.unhex(images[i]['hex']), size)) for f, i in case['init'].items()),
                   int(case['limit']))
    ipmi, iface = dev11.make_ipmi(dev.handle, cap=20000)
    res = []
    for st in case['steps'][:upto]:
        fid = int(st['fid'])
        dev.plan, dev.n = [], 0
        iface.calls = 0
        if st['do'] == 'poke':
            dev.mem[fid] = bytearray(_pad(lean.unhex(images[st['img']]['hex']), size))
            res.append(None)
        elif st['do'] == 'write':
            b = lean.unhex(images[st['img']]['hex'])
            dev.plan = [(int(k), t, int(v)) for k, t, v in st.get('faults') or []]
            try:
                ipmi.write_fru_data(array.array('B', b[int(st['off']):]), offset=int(st['off']), fru_id=fid)
            except dev11.HangGuard:
                pass
            except Exception:  # noqa  (a faulted write raises; what it must raise is C10's business)
                pass
            res.append(None)
        else:
            held = _held_image(images, dev.mem.get(fid, b''))
            real = _read_step(ipmi, st)
            want = None
            if held is not None:
                v = images[held]['view']
                want = 'ok ' + (_areas_part(v) if st['do'] == 'inv' else _hdr_part(v))
            res.append((held, real, want, bytes(dev.mem.get(fid, b''))))
    return res


def _fresh_read(case, st, mem):
    """the same read by a fresh Ipmi object from a fresh device holding `mem`"""
    from ..sim import dev11
    dev = FruStore({int(st['fid']): mem}, int(case['limit']))
    ipmi, _ = dev11.make_ipmi(dev.handle, cap=20000)
    return _read_step(ipmi, st)


def _history_bad(case):
    r = run_history(case)[-1]
    return r is not None and r[2] is not None and r[1] != r[2]


def shrink_history(case, k):
    steps = list(case['steps'][:k + 1])
    i = 0
    while i < len(steps) - 1:
        cand = steps[:i] + steps[i + 1:]
        if _history_bad(dict(case, steps=cand)):
            steps = cand
        else:
            i += 1
    return dict(case, steps=steps, step=len(steps) - 1)


def history_case(ctx, drv, vv, case, feats, tag):
    res = run_history(case)
    ctx.count('history:' + tag)
    for k, r in enumerate(res):
        st = case['steps'][k]
        ctx.count('history-step:' + st['do'] + ('+fault' if st.get('faults') else ''))
        if r is None:
            continue
        held, real, want, mem = r
        ctx.case(('history', case['size'], case['limit'], repr(case['init']), repr(case['steps'][:k + 1]),
                  tuple(im['hex'] for im in case['images'])), nontrivial=k >= 1)
        if want is None:
            ctx.count('history-read:no-image-held(not judged)')
            continue
        ctx.count('history-read:' + ('first' if not any(x is not None for x in res[:k]) else 'after-earlier-reads'))
        if drv is not None and st['do'] == 'inv':
            # tie: the Lean model of the device path on the bytes the device holds now
            hx = _hex(mem)
            if hx not in _MODEL:
                _MODEL[hx] = norm_model_dev(drv.ask(model_dev_line(vv, mem)))
            m = _MODEL[hx]
            if m != real:
                ctx.disagree('device-history', {'step': k, 'steps': case['steps'][:k + 1], 'hex': hx[:200]}, m[:300], real[:300])
        if real == want:
            continue
        sig = _diagnose(real, 'dev', feats[held])
        what = 'a well-formed FRU image (%s) read from a FRU device (%s of FRU %s) is not parsed to the encoded values' % (
            case['images'][held]['label'], 'get_fru_inventory' if st['do'] == 'inv' else 'get_fru_inventory_header', st['fid'])
        if k > 0 and _fresh_read(case, st, mem) == want:
            sig = 'C15:parse-encode:%s:after-earlier-operations' % ('wrong-values' if real.startswith('ok ') else 'raises')
            what += ' (real code: %s)' % real.split(' ')[0]
            what += ' - by an Ipmi object that read this FRU before the device contents changed (a fresh object reads it correctly)'
            small = shrink_history(case, k)
        else:
            small = dict(case, init={st['fid']: held}, steps=[st], step=0)
        ctx.violate(sig, what, small, expected=want[:600], observed=real[:600])
        return


def _write_steps(rng, fid, img_idx, nbytes, mode, wl=16):
    """steps that bring image `img_idx` (nbytes long) into FRU `fid` through write_fru_data"""
    nch = max(1, (nbytes + wl - 1) // wl)
    if mode == 'complete':
        return [{'do': 'write', 'fid': fid, 'img': img_idx, 'off': 0}]
    if mode == 'tail-first':
        return [{'do': 'write', 'fid': fid, 'img': img_idx, 'off': 8}, {'do': 'write', 'fid': fid, 'img': img_idx, 'off': 0}]
    k = 0 if mode == 'fault-first-chunk' or nch == 1 else rng.randrange(1, nch)
    clen = min(wl, nbytes - k * wl)
    if rng.random() < 0.5:
        flt, stored = [k, 'c', rng.choice([0xC3, 0xC0, 0xFF, 0xD5])], 0
    else:
        stored = rng.choice([0, 1, 8, clen - 1]) if clen > 1 else 0
        stored = min(stored, clen - 1)
        flt = [k, 's', stored]
    j = k * wl + stored
    return [{'do': 'write', 'fid': fid, 'img': img_idx, 'off': 0, 'faults': [flt]},
            {'do': 'write', 'fid': fid, 'img': img_idx, 'off': j}]


HISTORY_SHAPES = ('poke', 'complete', 'fault-later-chunk', 'fault-first-chunk', 'tail-first', 'other-fru', 'header-first',
                  'same-image-twice')


def device_histories(ctx, drv, vv, rng, valid):
    quick = ctx.tier == 'quick'
    pool = [v for v in valid if 24 <= len(v[2]) // 2 <= 700 and v[0] not in ('min-bcd', 'min-six1', 'min-six2', 'min-six4')]
    if len(pool) < 3:
        ctx.notes.append('device histories: fewer than three usable images')
        return
    n_pairs = 30 if quick else 250
    for _ in range(n_pairs):
        a = rng.choice(pool)
        for _try in range(20):
            b = rng.choice(pool)
            if _hdr_part(b[4]) != _hdr_part(a[4]):
                break
        c = rng.choice(pool)
        trio = [a, b, c]
        images = [{'hex': x[2], 'view': x[4], 'label': x[0]} for x in trio]
        feats = [features(x[1]) for x in trio]
        ctx.count('history-pair:%s' % ('same-layout' if _hdr_part(a[4]) == _hdr_part(b[4]) else 'different-layout'))
        size = (max(len(x[2]) // 2 for x in trio) + 7) // 8 * 8 + rng.choice([0, 8, 256])
        fid = rng.choice([0, 0, 1, 7, 254, 255])
        oth = rng.choice([i for i in (0, 3, 9, 200) if i != fid])
        base = {'op': 'history', 'images': images, 'size': size, 'limit': rng.choice([32, 32, 16, 255, 8]),
                'init': {fid: 0, oth: 2}}
        nb = len(b[2]) // 2
        for shape in HISTORY_SHAPES:
            first = {'do': rng.choice(['inv', 'inv', 'hdr']) if shape != 'header-first' else 'hdr', 'fid': fid}
            if shape == 'poke':
                mid = [{'do': 'poke', 'fid': fid, 'img': 1}]
            elif shape == 'other-fru':
                mid = [{'do': 'inv', 'fid': oth}, {'do': 'poke', 'fid': fid, 'img': 1}, {'do': 'inv', 'fid': oth}]
            elif shape == 'same-image-twice':
                mid = [{'do': 'inv', 'fid': oth}]
            elif shape == 'header-first':
                mid = _write_steps(rng, fid, 1, nb, rng.choice(['complete', 'fault-later-chunk', 'fault-later-chunk']))
            else:
                mid = _write_steps(rng, fid, 1, nb, shape)
            steps = [first] + mid + [{'do': 'inv', 'fid': fid}, {'do': 'hdr', 'fid': fid}]
            if rng.random() < 0.3:      # and back to the first image
                steps += [{'do': 'poke', 'fid': fid, 'img': 0}] if rng.random() < 0.5 else _write_steps(rng, fid, 0, len(a[2]) // 2, 'fault-later-chunk')
                steps += [{'do': 'inv', 'fid': fid}]
            history_case(ctx, drv, vv, dict(base, steps=steps, step=len(steps) - 1), feats, shape)
        if ctx.time_left() < (20 if quick else 120):
            ctx.notes.append('device histories stopped early (time)')
            break


# ------------------------------------------------------------------------------------------
# judging
# ------------------------------------------------------------------------------------------

def _areas_part(view):
    """'H:… C:… B:… P:… M:…' -> 'C:… B:… P:… M:…'"""
    return view.split(' ', 1)[1]


def _diagnose(real, kind, feat):
    """signature for a valid image that the real code does not report as encoded"""
    if real == 'py:AttributeError' and kind != 'b' and feat['bcd']:
        return SIG_BCD
    if real == 'py:IndexError' and feat['six_partial']:
        return SIG_SIX
    if feat.get('oem_c0') and _FLAGS is not None and _FLAGS[4]:
        return SIG_OEM
    if real.startswith('ok '):
        return 'C15:parse-encode:wrong-values'
    return 'C15:parse-encode:raises:%s' % real


def judge_valid(ctx, label, hexs, view, feat, kind, real):
    """property: parse(encode img) = view img, for every way of handing the image over"""
    want = 'ok ' + (view if kind != 'dev' else _areas_part(view))
    if real == want:
        return True
    sig = _diagnose(real, kind, feat)
    ctx.violate(sig, 'a well-formed FRU image (%s) given as %s is not parsed to the encoded values' % (
        label, {'b': 'bytes', 'a': "array('B')", 'l': 'list', 'f': 'file', 'dev': 'FRU device'}[kind]),
        {'op': 'valid', 'hex': hexs, 'kind': kind, 'view': view, 'label': label}, expected=want, observed=real)
    return False


REGION = {'h': 'header', 'C': 'chassis', 'B': 'board', 'P': 'product', 'M': 'multirecord'}


def region_of(view, pos):
    """which covered region a byte position belongs to (from the header offsets and order)"""
    if pos < 8:
        return 'header'
    h = view.split(' ')[0][2:].split(',')
    offs = [(int(h[2]), 'chassis'), (int(h[3]), 'board'), (int(h[4]), 'product'), (int(h[5]), 'multirecord')]
    best = 'header'
    for o, n in sorted(offs):
        if o and pos >= o:
            best = n
    return best


def area_of_length_byte(view, pos):
    """the info-area offset whose length byte is at `pos`"""
    return pos - 1


def judge_altered(ctx, drv, hexs, view, cov, pos, newb, kind, real, fill=None):
    """property: an image with an altered covered byte is never accepted (and the reader says so with DecodingError;
    the device may answer a read behind its storage with a completion code)"""
    c = cov[pos]
    data = bytearray(lean.unhex(hexs))
    old = data[pos]
    data[pos] = newb
    case = {'op': 'altered', 'hex': hexs, 'pos': pos, 'new': newb, 'kind': kind, 'cov': c}
    if fill is not None:
        case['fill'] = _hex(fill)
    how = {'b': 'bytes', 'a': "array('B')", 'l': 'list', 'f': 'file', 'dev': 'FRU device'}[kind]
    if not real.startswith('ok '):
        ctx.count('altered:rejected:' + real)
        if c != '0' and real.startswith('py:') and real != 'py:CompletionCodeError':
            ctx.violate('C15:altered-raises:%s%s' % (real[3:], ':device' if kind == 'dev' else ''),
                        'an image whose %s byte at offset %d (covered by a zero-sum checksum%s) was altered %02x -> %02x is '
                        'not rejected with DecodingError: %s (%s)' % (
                            region_of(view, pos), pos, ', the info-area length byte' if c == '2' else '', old, newb, real[3:], how),
                        case, expected='DecodingError', observed=real)
        return
    if c == '1':
        ctx.violate('C15:altered-accepted:%s' % region_of(view, pos),
                    'an image whose %s byte at offset %d (covered by a zero-sum checksum) was altered is accepted (%s)' % (
                        region_of(view, pos), pos, how), case, expected='rejected', observed=real[:200])
    elif c == '2':
        # every check the format allows, on the bytes the parser was given (device: the stored bytes): declared length
        # >= 1 unit, inside the data, zero sum over exactly the declared span; fields and C1h marker inside the declared
        # length; no area starting inside the span of another one
        given = (bytes(data) + bytes(fill) if fill is not None else device_store(data)) if kind == 'dev' else bytes(data)
        verdict = drv.ask('wf ' + _hex(given)) if drv is not None else 'sums'
        if verdict == 'ok':
            ctx.count('altered:length-byte-accepted(the altered bytes are a FRU image - %s: format limit)' % (
                'only unused space cut off' if newb < old else 'span lengthened into bytes of no area'))
            return
        off = area_of_length_byte(view, pos)
        dev = ':device' if kind == 'dev' else ''
        if verdict == 'fields':
            sig, why = SIG_SHORT + dev, 'from %d to %d units: the %d bytes of the new span sum to zero, but fields / the C1h ' \
                'end marker of the area lie BEHIND the new length - the values come from outside the checksummed span' % (
                    old, newb, 8 * newb)
        elif verdict == 'layout':
            sig, why = SIG_LONG + dev, 'from %d to %d units: the %d bytes of the new span sum to zero, but the span runs over the ' \
                'start of another area the common header announces' % (old, newb, 8 * newb)
        elif newb == 0 and kind == 'dev':
            sig, why = SIG_LEN0 + ':device', 'to 0: _read_fru_area reads no byte at all and the area object has no attributes'
        elif newb == 0:
            sig, why = SIG_LEN0, 'to 0: the checksum is taken over no byte at all'
        elif off + 8 * newb > len(given):
            sig, why = SIG_LENX, 'to %d units = %d bytes, %d more than the data hold: the checksum is taken over the truncated ' \
                'remainder' % (newb, 8 * newb, off + 8 * newb - len(given))
        else:
            sig, why = 'C15:altered-accepted:length-byte', 'although the declared span does not sum to zero'
        ctx.violate(sig, 'an image whose %s info-area length byte at offset %d (covered by the area checksum) was altered %s '
                    '- accepted (%s)' % (region_of(view, pos), pos, why, how), case, expected='rejected', observed=real[:200])
    else:
        ctx.count('altered:uncovered-accepted')


# ------------------------------------------------------------------------------------------
# streams
# ------------------------------------------------------------------------------------------

def _vv(flags):
    return ''.join('1' if f else '0' for f in flags)


def _variant_name(flags):
    return {(True,) * 8: 'asShipped', (False,) * 8: 'intended',
            (False, False, True, True, True, True, True, True): 'afterC15_1',
            (False,) * 5 + (True,) * 3: 'afterC15_3'}.get(tuple(flags), 'mixed')


def _alter_values(rng, old, tier, extra=()):
    if tier == 'thorough':
        return [v for v in range(256) if v != old]
    if extra:
        vals = set(extra) | set([0x00, 0x01, 0xff, (old + 1) & 0xff, (old - 1) & 0xff, old ^ 0x80])
        vals.discard(old)
        return sorted(vals)
    vals = set([old ^ 0x01, old ^ 0x80, (old + 1) & 0xff, (old - 1) & 0xff, old ^ 0xff, 0x00, 0xc1, 0xff])
    while len(vals) < 11:
        vals.add(rng.randrange(256))
    vals.discard(old)
    return sorted(vals)


# ---- steered length bytes ---------------------------------------------------------------------------------------

INFO_AREAS = (('chassis', 2, 'type'), ('board', 3, 'lang'), ('product', 4, 'lang'))


def _rec_data_len(r):
    return len(r[2]) if r[0] == 'g' else 5 + len(r[3]) if r[0] == 'p' else 7 + len(r[3])


def _layout(img, data, view):
    """[(name, start, end)] of the checksummed areas of an encoded image, in storage order"""
    h = [int(x) for x in view.split(' ')[0][2:].split(',')]
    out = []
    for name, k, _ in INFO_AREAS:
        if h[k]:
            out.append((name, h[k], h[k] + 8 * data[h[k] + 1]))
    if h[5]:
        out.append(('multirecord', h[5], h[5] + sum(5 + _rec_data_len(r) for r in img['records'])))
    return sorted(out, key=lambda x: x[1])


def _steer_target(img, data, view, name, newlen):
    """Which abstract byte can make the span [off, off + 8*newlen) of info area `name` - with its length byte set to
    `newlen` - sum to zero while the image stays an encoder output?  -> (position, setter) | None.
    The byte must lie inside the new span while the checksum byte that compensates it lies outside (info area: its
    type / language byte), or compensate with a net effect inside (multi-record data byte: record checksum -d, header
    checksum +d, both in front of it)."""
    lay = _layout(img, data, view)
    off, end = [(s0, e0) for n, s0, e0 in lay if n == name][0]
    e = off + 8 * newlen
    if e > len(data):
        return None
    if e < end:                       # shortened: the area's own type / language byte (offset 2), checksum outside
        key = dict((n, f) for n, _, f in INFO_AREAS)[name]
        return off + 2, (lambda im, v: im[name].__setitem__(key, v))
    for n, s0, e0 in lay:
        if s0 < e <= e0 and s0 >= end:
            if n != 'multirecord':
                if e == e0:
                    return None       # the span covers this area completely: it contributes 0 whatever it holds
                key = dict((x, f) for x, _, f in INFO_AREAS)[n]
                return s0 + 2, (lambda im, v, n=n, key=key: im[n].__setitem__(key, v))
            pos = s0
            for idx, r in enumerate(img['records']):
                p = pos + 5
                if r[0] == 'g' and r[1] != 0xc0 and r[2] and p < e:
                    return p, (lambda im, v, idx=idx: im['records'][idx][2].__setitem__(0, v))
                if r[0] == 'p' and r[3] and p + 5 < e:
                    return p + 5, (lambda im, v, idx=idx: im['records'][idx][3].__setitem__(0, v))
                pos += 5 + _rec_data_len(r)
            return None
    return None


def _copy_img(img):
    import copy
    return copy.deepcopy(img)


def steered_lengths(ctx, drv, vv, rng, valid):
    """every info area x every length value 1..255, the image steered so that the new span sums to zero where the
    format allows that; bytes, array, file, device (device: also through the first filler byte behind the image)"""
    quick = ctx.tier == 'quick'
    pool = [v for v in valid if 24 <= len(v[2]) // 2 <= (160 if quick else 400)
            and any(v[1].get(n) for n, _, _ in INFO_AREAS) and v[0] not in ('min-bcd', 'min-six1', 'min-six2', 'min-six4')]
    # prefer images with several areas (a lengthened span needs something to run into) and with unused space
    pool.sort(key=lambda v: -(sum(1 for n, _, _ in INFO_AREAS if v[1].get(n)) + (1 if v[1].get('records') else 0)))
    head = pool[:60]
    rng.shuffle(head)
    n_full = 4 if quick else 40       # every value 1..255; the images after these: the values whose span ends inside
    picked = head[:n_full + (12 if quick else 20)]      # the image or just behind it
    n_steered = 0
    for i_img, (label, img, hexs, cov, view) in enumerate(picked):
        data = lean.unhex(hexs)
        # 1. steer: one re-encoded image per (area, length value) whose span ends inside the image
        plans = []        # (name, pos of length byte, newlen, image tuple (hexs, cov, view), steered?)
        enc_lines, enc_meta = [], []
        for name, k, _ in INFO_AREAS:
            if not img.get(name):
                continue
            off = int(view.split(' ')[0][2:].split(',')[k])
            old = data[off + 1]
            for newlen in range(1, 256):
                if newlen == old or (i_img >= n_full and off + 8 * newlen > len(data) + 16):
                    continue
                tgt = _steer_target(img, data, view, name, newlen)
                if tgt is None:
                    plans.append([name, off + 1, newlen, (hexs, cov, view), False])
                    continue
                p, setter = tgt
                span = bytearray(data[off:off + 8 * newlen])
                span[1] = newlen
                want = (data[p] - sum(span)) % 256
                im2 = _copy_img(img)
                setter(im2, want)
                enc_lines.append(img_tokens(im2))
                enc_meta.append(len(plans))
                plans.append([name, off + 1, newlen, None, True])
        for j, e in zip(enc_meta, drv.ask_many(enc_lines)):
            pl = plans[j]
            if e.startswith('ok '):
                _, h2, c2, v2 = e.split(' ', 3)
                d2 = bytearray(lean.unhex(h2))
                off = pl[1] - 1
                d2[pl[1]] = pl[2]
                if len(h2) == len(hexs) and sum(d2[off:off + 8 * pl[2]]) % 256 == 0:
                    pl[3] = (h2, c2, v2)
                    continue
            ctx.count('steered:could-not-steer(re-encoded image has another layout)')
            pl[3], pl[4] = (hexs, cov, view), False
        # 2. model lines
        lines = []
        fills = []
        for name, pos, newlen, (h2, c2, v2), steered in plans:
            d2 = bytearray(lean.unhex(h2))
            d2[pos] = newlen
            off = pos - 1
            e = off + 8 * newlen
            fill = None
            if e > len(d2):
                # device: the span ends in the unused bytes behind the image - steer through the first of them
                n_fill = e - len(d2) + 8
                if n_fill <= 2100:
                    f = bytearray(b'\xff' * n_fill)
                    f[0] = (f[0] - sum(d2[off:]) - sum(f[:e - len(d2)])) % 256
                    fill = bytes(f)
            fills.append(fill)
            for kind in ('b', 'a'):
                lines.append('parse %s %s %s' % (vv, kind, _hex(d2)))
            lines.append(model_dev_line(vv, bytes(d2) + fill if fill is not None else device_store(d2)))
        ms = iter(drv.ask_many(lines))
        # 3. real code
        seen_valid = set()
        for (name, pos, newlen, (h2, c2, v2), steered), fill in zip(plans, fills):
            d2 = bytearray(lean.unhex(h2))
            if steered and h2 not in seen_valid:
                # the steered image is an encoder output: it has to parse to its view
                seen_valid.add(h2)
                real = real_parse(bytes(d2), 'b')
                ctx.case(('valid', 'b', h2))
                ctx.count('stream:valid:steered')
                judge_valid(ctx, label + '/steered', h2, v2, features(img), 'b', real)
            old = d2[pos]
            d2[pos] = newlen
            m_b, m_a, m_dev = next(ms), next(ms), norm_model_dev(next(ms))
            ctx.count('steered:%s:%s' % ('shortened' if newlen < old else 'lengthened',
                                         'zero-sum' if steered else 'device-filler' if fill is not None else 'unsteered'))
            for kind, model in (('b', m_b), ('a', m_a), ('f', m_a), ('dev', m_dev)):
                real = real_device(bytes(d2), fill) if kind == 'dev' else real_parse(bytes(d2), kind)
                ctx.case(('steered', kind, h2, pos, newlen, fill))
                ctx.count('stream:steered-length:%s' % kind)
                judge_altered(ctx, drv, h2, v2, c2, pos, newlen, kind, real, fill if kind == 'dev' else None)
                if model != real:
                    ctx.disagree('parse-steered', {'hex': h2, 'pos': pos, 'new': newlen, 'kind': kind,
                                                   'fill': _hex(fill) if fill is not None and kind == 'dev' else None},
                                 model[:300], real[:300])
            if steered:
                n_steered += 1
        ctx.count('steered-images')
        if ctx.time_left() < (22 if quick else 150):
            ctx.notes.append('steered length-byte stream stopped early (time)')
            break
    ctx.extra['steered_length_values'] = n_steered


def run(ctx):
    try:
        _run(ctx)
    finally:
        _cleanup()


def _run(ctx):
    global _FLAGS
    drv = ctx.driver('drv_c15')
    flags = _FLAGS = _probe()
    vv = _vv(flags)
    ctx.extra['variant'] = {'bcdBytesOnly': flags[0], 'sixStrict': flags[1], 'areaLenLax': flags[2],
                            'devLenLax': flags[3], 'picmgTypeOnly': flags[4], 'fieldsLax': flags[5],
                            'overlapLax': flags[6], 'devOverlapLax': flags[7], 'model': _variant_name(flags)}
    rng = ctx.rng('c15')
    quick = ctx.tier == 'quick'

    # ---- corpus: vendor images shipped with the repo's tests (tie + spec checksums)
    for name in ('kontron_am4010.bin', 'vadatech_utc017.bin'):
        p = repo.src(os.path.join('tests', 'fru_bin', name))
        if os.path.exists(p):
            with open(p, 'rb') as f:
                data = f.read()
            for kind in ('b', 'a'):
                real = real_parse(data, kind)
                model = drv.ask('parse %s %s %s' % (vv, MODEL_KIND[kind], _hex(data)))
                ctx.case(('vendor', name, kind))
                ctx.count('stream:vendor-file')
                if real != model:
                    ctx.disagree('vendor-image', {'file': name, 'kind': kind}, model, real)
                if real.startswith('ok ') and drv.ask('sums ' + _hex(data)) != '1':
                    ctx.violate('C15:accepted-without-checksums', 'vendor image %s accepted but the spec checksums fail' % name,
                                {'op': 'accept', 'hex': _hex(data), 'kind': kind}, expected='checksums hold', observed=real[:100])

    # ---- valid stream
    global _KEEP
    _KEEP = []
    images = directed_images(rng, ctx.tier)
    n_rand = 250 if quick else 6000
    for _ in range(n_rand):
        images.append(('random', gen_image(rng)))
    encs = drv.ask_many([img_tokens(img) for _, img in images])
    valid = []
    for (label, img), e in zip(images, encs):
        if e == 'illformed':
            ctx.count('generated:illformed(offsets or lengths exceed the format; skipped)')
            continue
        if not e.startswith('ok '):
            raise lean.LeanError('driver rejected an image description: %s' % e, img_tokens(img))
        _, hexs, cov, view = e.split(' ', 3)
        valid.append((label, img, hexs, cov, view))
    ctx.extra['images'] = len(valid)
    model_lines = []
    for label, img, hexs, cov, view in valid:
        for kind in ('b', 'a', 'l'):
            model_lines.append('parse %s %s %s' % (vv, kind, hexs))
        model_lines.append(model_dev_line(vv, device_store(lean.unhex(hexs))))
    models = iter(drv.ask_many(model_lines))
    n = 0
    for label, img, hexs, cov, view in valid:
        data = lean.unhex(hexs)
        feat = features(img)
        ctx.count('image:' + label)
        for nm in ('chassis', 'board', 'product'):
            a = img.get(nm)
            if a:
                ctx.count('area:' + nm)
                ctx.count('custom-fields:%d' % len(a['custom']))
                for fld in a['fields'] + a['custom']:
                    ctx.count('field-encoding:' + {'b': 'binary', 'd': 'bcd+', 's': '6bit', 't': '8bit'}[fld[0]])
        if img.get('internal') is not None:
            ctx.count('area:internal-use')
        ctx.count('records:%d' % len(img.get('records') or []))
        for r in img.get('records') or []:
            ctx.count('record-kind:' + {'g': 'generic', 'p': 'picmg', 'w': 'power-module'}[r[0]])
        m_by_kind = {}
        for kind in ('b', 'a', 'l'):
            m_by_kind[kind] = next(models)
        m_dev = norm_model_dev(next(models))
        if feat['oem_c0']:
            ctx.count('image-with:oem-c0-record(not PICMG)')
        for kind in KINDS:
            real = real_parse(data, kind)
            ctx.case(('valid', kind, hexs), nontrivial=len(data) > 8)
            ctx.count('stream:valid:' + kind)
            ctx.count('valid-outcome:' + (real if not real.startswith('ok ') else 'ok'))
            judge_valid(ctx, label, hexs, view, feat, kind, real)
            model = m_by_kind[MODEL_KIND[kind]]
            if model != real:
                ctx.disagree('parse-valid', {'label': label, 'kind': kind, 'hex': hexs}, model, real)
        # the model of the intended parser must report the view (theorem parse_encode, executed)
        # device path: property + tie with the model of the device path
        real = real_device(data)
        ctx.case(('valid', 'dev', hexs), nontrivial=len(data) > 8)
        ctx.count('stream:valid:device')
        judge_valid(ctx, label, hexs, view, feat, 'dev', real)
        if m_dev != real:
            ctx.disagree('parse-valid-device', {'label': label, 'hex': hexs}, m_dev, real)
        # device path, every area through its own getter (property only: what a getter must yield is the spec view's
        # slot - None for an area the image does not have; the transfer under it is C10)
        got = real_device_getters(data)
        ctx.case(('valid', 'devget', hexs), nontrivial=len(data) > 8)
        ctx.count('stream:valid:device-getters')
        for part in _areas_part(view).split(' '):
            ctx.count('device-getter-on:%s' % ('absent-area' if part[2:] == 'n' else 'present-area'))
        judge_getters(ctx, label, hexs, view, got)
        # date (modelled, not verified): civil date of the spec vs datetime
        if img.get('board') is not None:
            want = drv.ask('date %d' % img['board']['minutes'])
            got = real_date(data)
            ctx.case(('date', img['board']['minutes']))
            ctx.count('stream:date')
            if got != want and not got.startswith('py:') and got != 'DecodingError':
                ctx.violate('C15:mfg-date', 'manufacturing date differs from minutes since 1996-01-01',
                            {'op': 'date', 'hex': hexs, 'minutes': img['board']['minutes']}, expected=want, observed=got)
        n += 1
        if n % 60 == 1:
            ctx.sample({'label': label, 'image_hex': hexs[:160], 'view': view[:200]}, limit=5)
        if ctx.time_left() < (40 if quick else 300):
            ctx.notes.append('valid stream stopped at image %d of %d (time)' % (n, len(valid)))
            break

    recheck_kept(ctx)
    ctx.extra['kept_results_re_read'] = len(_KEEP or [])
    _KEEP = None

    # ---- device histories: one long-lived Ipmi object, device contents replaced between reads
    _MODEL.clear()
    device_histories(ctx, drv, vv, ctx.rng('c15-history'), valid)

    # ---- alteration stream
    n_alt = 14 if quick else 40
    pool = [v for v in valid if 16 <= len(v[2]) // 2 <= (220 if quick else 600)]
    picked = pool[:0]
    by_label = {}
    for v in pool:
        by_label.setdefault(v[0], []).append(v)
    order = ['subset', 'custom', 'records', 'random', 'oem-c0', 'enc-len', 'date', 'record-size', 'min-bcd']
    while len(picked) < n_alt and any(by_label.get(l) for l in order):
        for l in order:
            if by_label.get(l) and len(picked) < n_alt:
                picked.append(by_label[l].pop(rng.randrange(len(by_label[l]))))
    for label, img, hexs, cov, view in picked:
        data = lean.unhex(hexs)
        alts = []
        for pos in range(len(data)):
            extra = ()
            if cov[pos] == '2':
                # the one value for which the truncated remainder data[off:] sums to zero (a reader that sums the
                # clamped slice accepts it when the declared length reaches behind the end of the data) - for the
                # image as given and for the device storage (image + FFh fill)
                off = pos - 1
                rest = sum(data[off:]) - data[pos]
                store = device_store(data)
                extra = ((-rest) % 256, (-(sum(store[off:]) - data[pos])) % 256)
            for nb in _alter_values(rng, data[pos], ctx.tier if cov[pos] != '0' else 'quick', extra):
                alts.append((pos, nb))
        n_dev = 0
        plan = []
        for j, (pos, nb) in enumerate(alts):
            kinds = ['b', 'a']
            # device path: every alteration of an info-area length byte, a sample of the others
            if cov[pos] == '2' or (cov[pos] == '1' and j % 9 == 0):
                kinds.append('dev')
                n_dev += 1
            plan.append((pos, nb, kinds))
        lines = []
        for pos, nb, kinds in plan:
            d2 = bytearray(data)
            d2[pos] = nb
            h2 = _hex(d2)
            for kind in kinds:
                lines.append(model_dev_line(vv, device_store(d2)) if kind == 'dev' else 'parse %s %s %s' % (vv, kind, h2))
        ms = iter(drv.ask_many(lines))
        for pos, nb, kinds in plan:
            d2 = bytearray(data)
            d2[pos] = nb
            for kind in kinds:
                model = next(ms)
                if kind == 'dev':
                    model = norm_model_dev(model)
                    real = real_device(bytes(d2))
                else:
                    real = real_parse(bytes(d2), kind)
                ctx.case(('altered', kind, hexs, pos, nb))
                ctx.count('stream:altered:cov%s%s' % (cov[pos], ':device' if kind == 'dev' else ''))
                judge_altered(ctx, drv, hexs, view, cov, pos, nb, kind, real)
                if model != real:
                    ctx.disagree('parse-altered', {'hex': hexs, 'pos': pos, 'new': nb, 'kind': kind}, model, real)
        ctx.count('altered-images')
        if ctx.time_left() < (25 if quick else 200):
            ctx.notes.append('alteration stream stopped early (time)')
            break

    # ---- steered info-area length bytes: every value 1..255, zero sum over the new span where possible
    steered_lengths(ctx, drv, vv, ctx.rng('c15-steer'), valid)

    # ---- sub-parser stream (tie only): mutated area/record/field bytes and random bytes
    _subparsers(ctx, drv, vv, rng, valid)


def _real_sub(fn):
    try:
        return 'ok ' + fn()
    except Exception as e:  # noqa
        return exc_tag(e)


def _subparsers(ctx, drv, vv, rng, valid):
    from pyipmi import fru
    from pyipmi.fields import FruTypeLengthString
    quick = ctx.tier == 'quick'
    cls = {'c': ('chassis', fru.InventoryChassisInfoArea), 'b': ('board', fru.InventoryBoardInfoArea),
           'p': ('product', fru.InventoryProductInfoArea)}
    cases = []      # (line, thunk)

    def noisy(b):
        b = bytearray(b)
        r = rng.random()
        if r < 0.4 and b:
            for _ in range(rng.randrange(1, 4)):
                b[rng.randrange(len(b))] = rng.randrange(256)
        elif r < 0.7:
            b = b[:rng.randrange(len(b) + 1)]
        elif r < 0.85:
            b += bytearray(rng.randrange(256) for _ in range(rng.randrange(1, 9)))
        return bytes(b)

    def fix_area_sum(b):
        """make a mutated area pass its checksum again so that the field parser is reached"""
        b = bytearray(b)
        if len(b) >= 2:
            n = min(b[1] * 8, len(b))
            if n >= 1:
                b[n - 1] = (b[n - 1] - sum(b[:n])) % 256
        return bytes(b)

    n_tl = 1500 if quick else 30000
    for _ in range(n_tl):
        r = rng.random()
        if r < 0.5:
            t = rng.randrange(4)
            n = rng.choice((0, 1, 2, 3, 4, 5, 6, 7, 31, 32, 62, 63, rng.randrange(64)))
            body = [rng.randrange(256) if rng.random() < 0.5 else rng.choice((0x12, 0x9a, 0xab, 0xcd, 0x0f)) for _ in range(
                max(0, n + rng.choice((0, 0, 0, -1, -2, 3))))]
            b = bytes([t << 6 | n] + body)
        else:
            b = bytes(rng.randrange(256) for _ in range(rng.randrange(0, 12)))
        for kind in ('b', 'a', 'l'):
            if not b:
                continue
            cases.append(('tl %s %s %s' % (vv, kind, _hex(b)),
                          (lambda b=b, kind=kind: canon_field(FruTypeLengthString(as_kind(b, kind), 0))), 'tl'))
    take = valid if not quick else valid[::3]
    for label, img, hexs, cov, view in take:
        data = lean.unhex(hexs)
        h = view.split(' ')[0][2:].split(',')
        for key, idx in (('c', 2), ('b', 3), ('p', 4)):
            off = int(h[idx])
            if off:
                for _ in range(2):
                    b = noisy(data[off:])
                    if rng.random() < 0.7:
                        b = fix_area_sum(b)
                    if not b:
                        continue
                    kind = rng.choice(('b', 'a'))
                    cases.append(('area %s %s %s %s' % (vv, kind, key, _hex(b)),
                                  (lambda b=b, kind=kind, key=key: canon_area(cls[key][0], cls[key][1](as_kind(b, kind)))), 'area'))
        off = int(h[5])
        if off:
            for _ in range(3):
                b = noisy(data[off:])
                if not b:
                    continue
                cases.append(('mr %s %s' % (vv, _hex(b)), (lambda b=b: canon_multi(fru.InventoryMultiRecordArea(b))), 'mr'))
        b = noisy(data[:8])
        if b:
            cases.append(('hdr %s' % _hex(b), (lambda b=b: canon_header(fru.InventoryCommonHeader(b))), 'hdr'))
    for _ in range(400 if quick else 8000):
        b = bytes(rng.randrange(256) for _ in range(rng.randrange(1, 40)))
        if rng.random() < 0.6:
            b = bytes([rng.choice((0xc0, 0xc0, rng.randrange(256))), rng.choice((2, 0x82, rng.randrange(256))),
                       rng.randrange(0, 12), 0, 0]) + (bytes(PICMG_ID) + bytes([rng.choice((0x27, rng.randrange(256)))])
                                                       if rng.random() < 0.5 else b'') + b
            # make header and body checksums right most of the time
            bb = bytearray(b)
            if len(bb) >= 5 and rng.random() < 0.8:
                bb[3] = (-sum(bb[5:5 + bb[2]])) % 256
                bb[4] = (-sum(bb[:4])) % 256
            b = bytes(bb)
        cases.append(('mr %s %s' % (vv, _hex(b)), (lambda b=b: canon_multi(fru.InventoryMultiRecordArea(b))), 'mr'))
    models = drv.ask_many([c[0] for c in cases])
    for (line, thunk, what), model in zip(cases, models):
        real = _real_sub(thunk)
        ctx.case(('sub', line))
        ctx.count('stream:sub:' + what)
        ctx.count('sub-outcome:%s:%s' % (what, real if not real.startswith('ok ') else 'ok'))
        if real != model:
            ctx.disagree('sub-parser', {'line': line}, model, real)


# ------------------------------------------------------------------------------------------
# search / replay
# ------------------------------------------------------------------------------------------

def search(ctx):
    """Every generated input is already judged against the spec (view / checksum oracle) in `run`;
    a code/model disagreement on an input outside the property's quantifier (malformed bytes) has no
    failing input.  When the Lean obligations still check, a disagreement on a VALID image is
    promoted: the intended model is proved to report the view, so the code differs from it."""
    for d in ctx.disagreements:
        if d['what'] in ('parse-valid', 'parse-valid-device'):
            d['explained_by'] = 'parse-encode violations reported by the property oracle'
        if d['what'] in ('parse-altered', 'parse-steered') and d['model'].startswith('ok ') != d['code'].startswith('ok '):
            ctx.notes.append('acceptance differs between code and model on an altered image: %s' % d['case'])


def replay(ctx, v):
    case = v['case']
    op = case.get('op')
    try:
        if op == 'valid':
            data = lean.unhex(case['hex'])
            kind = case['kind']
            if kind == 'devget':
                real, want = real_device_getters(data), _areas_part(case['view'])
                print('image (%d bytes) in a FRU device, every area through its own getter (%s reported)' % (
                    len(data), case.get('getter')))
                print('  spec view : %s' % want)
                print('  real code : %s' % real)
                return real != want
            real = real_device(data) if kind == 'dev' else real_parse(data, kind)
            want = 'ok ' + (case['view'] if kind != 'dev' else _areas_part(case['view']))
            print('image (%d bytes) as %s' % (len(data), kind))
            print('  spec view : %s' % want)
            print('  real code : %s' % real)
            return real != want
        if op == 'altered':
            data = bytearray(lean.unhex(case['hex']))
            old = data[case['pos']]
            data[case['pos']] = case['new']
            dev = case['kind'] == 'dev'
            fill = lean.unhex(case['fill']) if case.get('fill') else None
            real = real_device(bytes(data), fill) if dev else real_parse(bytes(data), case['kind'])
            print('image (%d bytes), byte %d altered %02x -> %02x (coverage class %s%s), %s' % (
                len(data), case['pos'], old, case['new'], case['cov'],
                ': info-area length byte' if case['cov'] == '2' else '',
                'stored in a FRU device and read with get_fru_inventory()' if dev else 'as %s' % case['kind']))
            if fill is not None:
                print('  the device stores %d more bytes behind the image: %s%s' % (len(fill), _hex(fill[:12]), '...' if len(fill) > 12 else ''))
            print('  expected  : rejected with DecodingError')
            print('  real code : %s' % real[:300])
            if case['cov'] != '0' and real.startswith('py:') and real != 'py:CompletionCodeError':
                print('  (not accepted, but not a DecodingError either)')
                return True
            if case['cov'] == '2' and real.startswith('ok '):
                given = (bytes(data) + fill if fill is not None else device_store(data)) if dev else bytes(data)
                off = case['pos'] - 1
                print('  declared length %d bytes from offset %d; the data hold %d bytes from there; sum over the declared '
                      'span = %d' % (8 * case['new'], off, len(given) - off, sum(given[off:off + 8 * case['new']]) % 256))
                try:
                    verdict = ctx.driver('drv_c15').ask('wf ' + _hex(given))
                except lean.LeanError:
                    verdict = 'sums'
                print('  checks of the format on the altered bytes (checksums over the declared spans / fields inside '
                      'the areas / areas disjoint): %s' % {'ok': 'all hold', 'sums': 'a CHECKSUM fails',
                                                           'fields': 'a FIELD or the C1h marker lies outside its area',
                                                           'layout': 'AREAS OVERLAP'}.get(verdict, verdict))
                if verdict == 'ok':
                    print('  (the altered bytes are themselves a FRU image: format limit, not a violation)')
                return verdict != 'ok'
            return real.startswith('ok ')
        if op == 'history':
            print('FRU device: %d bytes per inventory area, at most %d bytes per read; initially %s' % (
                case['size'], case['limit'], ', '.join('FRU %s = image %s' % (f, i) for f, i in sorted(case['init'].items()))))
            for i, im in enumerate(case['images']):
                print('  image %d (%s, %d bytes): %s' % (i, im['label'], len(im['hex']) // 2, im['view'][:160]))
            print('history on ONE Ipmi object:')
            bad = False
            for k, (st, r) in enumerate(zip(case['steps'], run_history(case))):
                print(' step %d : %s' % (k, ' '.join('%s=%s' % kv for kv in sorted(st.items()))))
                if r is None:
                    continue
                held, real, want, _ = r
                print('   device holds image %s' % held)
                print('   expected  : %s' % (want or '(not judged)')[:400])
                print('   real code : %s' % real[:400])
                if want is not None and real != want:
                    bad = True
                    print('   VIOLATED')
            return bad
        if op == 'reread':
            from pyipmi import fru
            data = lean.unhex(case['hex'])
            inv = fru.FruInventory(as_kind(data, case['kind'] if case['kind'] in 'bal' else 'b'))
            first = 'ok ' + canon_inventory(inv)
            keep = []
            for hx, kd in case['later']:
                try:
                    keep.append(fru.FruInventory(as_kind(lean.unhex(hx), kd if kd in 'bal' else 'b')))
                except Exception:  # noqa
                    pass
            now = 'ok ' + canon_inventory(inv)
            print('  right after parsing        : %s' % first[:300])
            print('  after %d later parses       : %s' % (len(keep), now[:300]))
            return now != first
        if op == 'date':
            data = lean.unhex(case['hex'])
            got = real_date(data)
            print('minutes %d: expected %s, real code %s' % (case['minutes'], v.get('expected'), got))
            return got != v.get('expected')
        if op == 'accept':
            data = lean.unhex(case['hex'])
            real = real_parse(data, case['kind'])
            print('real code: %s' % real[:200])
            return real.startswith('ok ')
    finally:
        _cleanup()
    print('unknown replay case')
    return True
