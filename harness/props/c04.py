"""C04 — A reply is attributed only to the request it answers, on every native transport.

Correspondence: the REAL `Rmcp`, `IpmbDev` and `Aardvark` classes are driven through their public
`send_and_receive_raw` with every outside effect substituted (harness/sim/transport04.py) and
compared, request by request, with the Lean models (`drv_c04`): outcome / returned bytes, bytes
written, events consumed, `next_sequence_number` and the content of `_q` afterwards.

Property (always on, judged on the real code by the Lean *specification*, not by the model):
  P1 attribution   ok d  =>  d is the data of an intact reply to THIS request that was carried by a
                   frame actually received (Spec.Attribution.allowedAnswers)
  P2 sequence      the request on the wire carries a sequence number different from the previous one
  P3 progress      a script "<= max_retries unrelated frames (bare acknowledgements of THIS transaction free),
                   possibly after <= max_retries time-outs, then the reply" must return that reply — on a fresh
                   interface (finds_match_after_noise) and after ANY history, whatever earlier requests left
                   unread in the socket (no_poisoning)
  P4 error origin  a CompletionCodeError leaves the transport only on an intact response to the Send Message of
                   the transaction in hand (never from a late / foreign acknowledgement or a damaged frame)

The socket's receive queue is part of the history: the datagrams of a step's script that the request did not
read are still in the (fake) socket when the next request starts (harness/sim/transport04.py).

"All sequences of requests on one interface object" includes the requests that `establish_session` and `close_session`
make: a step of a case is a plain request or one of these operations (`{'establish': {...}, 'scripts': [...]}` /
`{'close': 1, 'scripts': [...]}`), whose requests are observed INSIDE the real call (T.run_rmcp_op) and judged and
compared with the model one by one (`flatten`), late replies to requests from before the operation included.
"""
import itertools

from ..lib import lean
from ..sim import transport04 as T
from ..translate import loops04

ID = 'C04'
TARGETS = ['PyIpmi.Props.C04', 'drv_c04']
LEVEL = 'proof'
RULE = ('RMCP: every ordering up to length 4 (thorough: 5, then 6 while time remains) of {matching reply, stale '
        'sequence number, other command, other netFn, other LUN, bad header checksum, bad payload checksum, BOTH checksums '
        'bad by cancelling amounts (header +d, payload -d: the frame as a whole still sums to zero), both bad not '
        'cancelling, bare bridge acknowledgement, time-out} x max_retries 0..3 (length 6: the nine single-fault letters); '
        'every d = 1..255 x second damaged byte in {responder address, completion code, last data byte, payload checksum} '
        'of the cancelling kind in front of the reply on all three transports; the same up to length 3 with both quirks and '
        'wrong-length datagrams; seeded random scripts over the extended alphabet (Send-Message envelopes 1-2 deep '
        'around replies, stale frames and doubly damaged replies, intact reply in a doubly damaged envelope, envelope with error completion code, short/empty/malformed datagrams) with '
        'random requests (netFn, LUN, command, payload, routing depth 0..3, sequence numbers incl. wrap-around); '
        'sessions of 2-6 requests on one interface object where late replies to earlier requests arrive during later '
        'ones AND what a request leaves unread (duplicates, replies to retransmissions, frames behind the reply) is '
        'the first thing the next request reads (persistent socket queue); directed histories: k = 1..3 surplus '
        'datagrams during request 1 x max_retries 0..2, then 4 requests whose replies arrive.  Requests whose command '
        'id is 34h in network functions other than App (HPM.1 Get Upgrade Status 2Ch/34h, OEM) bridged and NOT bridged, '
        'and raw Send Message (App/34h) not bridged; wrapped replies with a corrupted wrapper byte (every wrapper field, '
        'depth 1-2); acknowledgements (cc 00h and error codes) that belong to an EARLIER transaction, during bridged and '
        'un-bridged requests.  ipmb-dev and Aardvark: every ordering up to length 3 of {reply, stale, other '
        'cmd/netFn/LUN, bad header / payload / both checksums (cancelling and not), idle poll, read error} x 4 timing patterns, random scripts (wrong length prefix, '
        'short frames), sessions in which is_ipmc_accessible probes are requests like the others (directed: request, '
        'late reply, probe) and in which every fifth request / probe names a target with a routing of 1..4 hops '
        '(directed: [request,] routed request or probe with the reply of the local owner of that address ready, then a '
        'request whose reply arrives - a refused request must leave no trace).  SESSION OPERATIONS among the requests '
        '(RMCP): establish_session and close_session on the same Rmcp object between plain requests - every request they '
        'make (Get Channel Authentication Capabilities, Get Session Challenge, Activate Session, Set Session Privilege '
        'Level, Close Session) is observed inside the real call and judged and compared with the model like any other: '
        'directed histories [a handshake that fails at request 1..4: silence within the budget, an error completion code, '
        'an unanswered presence ping] -> establish_session again (other privilege level, other authentication types '
        'offered: none / MD5 / password) while the LATE reply to the unanswered request, and to other requests of the '
        'first attempt, arrives after request 1..4 of the new handshake was sent -> request, close_session, sessionless '
        'request, each with a late reply from before; a request that times out followed by a handshake during which its '
        'reply arrives; close and open again, two opens without a close, close twice; start counters 0, 7, 31, 59..63 (the '
        'wrap inside a handshake) x max_retries 0..2; seeded random histories of 2-7 operations with up to max_retries '
        '(sometimes one more) late replies to any of the last five requests in front of an answer.  The harness knows '
        'which frames answer EARLIER requests (checked against the bytes that really went over the wire): data of such a '
        'frame returned is a violation although its header passes the filter; consecutive requests on the wire are compared '
        'across and inside the operations; the state a request starts from (next_sequence_number, _q) is compared with the '
        'state the request before it left.  A case is distinct by (transport, configuration, state, requests, scripts); non-trivial = at '
        'least one event.')
ASSUMPTIONS = [
    'the step functions of the loop models (lean/PyIpmi/Model/RmcpLoop.lean: rmcpRequest/outer/inner/nextQ/nextSock/'
    'classify; IpmbDevLoop.lean: i2cRequest/i2cAttempts/recvRaw) are hand-written; what they hard-wire is now '
    'GENERATED as well: harness/translate/loops04.py re-reads Rmcp._send_and_receive, IpmbDev/Aardvark.'
    '_send_and_receive and ._receive_raw from the working tree on every run and writes them statement by statement '
    '(tiny loop AST of Model/LoopAst.lean: order and nesting of with/while/try/if, every test, assignment, call with '
    'arguments, break/continue/raise/return/assert, except clauses; locals by number, so a renamed local is invisible; '
    'docstrings, comments, exception messages and log texts dropped) to Gen/Loops04.lean; theorems '
    'source_shape_rmcp/_ipmbdev/_aardvark state that these ARE the functions the models were written from '
    '(Loops.Shape.*, each statement annotated with the step function that mirrors it) and source_facts reads off the '
    'generated value that the sequence number is advanced by the first statement only, _q is read in one place and '
    'never written, one send and one receive per round.  Any statement that moves, appears, disappears or changes '
    'stops these theorems from building (a semantically neutral rewrite too: then the verdict is '
    'no-failing-input-found at most)',
    'what remains by hand: that each annotated step function computes what its Python statements do (CPython '
    'semantics of the statements, of queue.Queue, socket, os/select/time, pyaardvark and of the ipmb.py helpers '
    'checksum/encode/rx_filter/decode_bridged_message the RMCP model includes) - tied by this correspondence run '
    'on the real classes; loop bounds, sequence rule, Send Message id and slice bounds are separate generated '
    'constants the models take as parameters (gen_loop_shape; a constant that cannot be read keeps the pinned value, '
    'is counted in Gen.Loops04.notExtracted and breaks gen_loop_shape and the translator tie)',
    'receive events are given: real socket timing, OS buffering and datagram loss are outside the model; wall-clock '
    'time of ipmb-dev/Aardvark is a virtual clock in 1/64 s ticks carried by the events',
    'the RMCP/IPMI-session wrapper: plain requests run without a session or inside the sessions the generated '
    'establish_session calls opened (authentication none / MD5 / password, as the scripted BMC offers); packing and '
    'authentication are C05/C06 - this check looks at the IPMB frame inside the datagram only, and the scripted BMC '
    'answers without an authentication code (the library does not verify inbound authentication)',
    'establish_session / close_session are modelled as the requests they make (lean/PyIpmi/Model/RmcpOps.lean: the '
    'presence ping is an arbitrary function of the socket content, the handshake a prefix of its requests); that they '
    'reach next_sequence_number / _q in no other way is READ from the three modules on every run (harness/translate/'
    'loops04.py part 3 -> Gen/IfaceState04.lean; Props.C04.source_state_writers: a store to an attribute of that name '
    'outside __init__ / _inc_sequence_number, a call of _inc_sequence_number outside the request functions, a mention of '
    '_q outside __init__ / _send_and_receive or attribute access by computed name stops the theorem from building) and '
    'checked on the real objects (state between two requests); the handshake answers are built from IPMI v1.5 '
    '18.12-18.17; the order and content of the handshake itself are C06',
    'OBSERVATION, not judged (no request is made, the caller gets an error): Rmcp.ping() reads the socket without '
    'discarding what earlier requests left there - establish_session on an interface whose last request left a datagram '
    'unread (its reply arrived behind more late frames than the budget tolerates) fails once with DecodingError before '
    'its first request, and the pong stays in the socket for the next drain; generated and counted '
    '(op:establish_session:0-requests:DecodingError), in the model a ping that fails',
    'the reply that counts for a bridged request is the innermost embedded message of a received datagram whose '
    'Send Message envelopes are all INTACT (both checksums, netFn 07h, command 34h): data out of a damaged envelope '
    'is a violation of the attribution clause (Spec.Attribution.Carries true)',
    'the socket keeps what was delivered and not read from one request to the next (FakeSock.arrived); the silent '
    'periods of a script leave nothing behind; a non-blocking read sees only what has already arrived',
    'which state of the source the correspondence compares with (requeue / cmdOnly / drain of Loops.Cfg, inc of '
    'i2cProbe, refuseRouted of I2cCfg per transport) is decided by probing the real code with the witnesses of the '
    'counter-example theorems; the PROPERTY is judged on the real code in every case',
    'ipmb-dev / Aardvark do not bridge: a request or probe for a target whose routing has more than one hop is refused '
    '(NotSupportedError before anything is written, fixes/C09-2.diff; routed_target_refused_i2c) - "an error", which this '
    'property allows; whether such a request may instead go out un-bridged is property C09\'s (C09:<transport>:routing-'
    'ignored).  Sessions on these transports contain routed targets (depth 1..4, requests and probes): a refused request '
    'must leave no trace - the next request goes out with the next sequence number and finds its reply',
    'NOT claimed for ipmb-dev / Aardvark (observations of the second audit, findings/c04/round2): (1) these transports '
    'have no transaction lock - two application threads sharing one interface object can be given the same sequence '
    'number and each other\'s replies; the library itself starts no thread on these transports (the keep-alive thread is '
    'Rmcp\'s), the models are sequential and the "schedules" of the quantifier are explored for Rmcp only (threads stream, '
    'C14); (2) `while retries < self.max_retries`: on these transports max_retries counts ATTEMPTS (Rmcp: retries after '
    'the first attempt), so a budget of 0 sends nothing and every request ends in IpmiTimeoutError - always an error, never '
    'wrong data; changing the loop test would change the default behaviour (4 attempts instead of 3).  The model mirrors '
    'the source (I2cCfg.attempts = max_retries + Gen.…AttemptsExtra, AttemptsExtra = 0) and finds_match_after_noise_i2c is '
    'stated for fewer failed attempts than `attempts`; the harness keeps the default budget (3)',
    'rmcp_ignore_rq_seq is a documented opt-out: with it the sequence number is not part of "matches the request"',
    'the one combination excluded from the progress clauses: a BRIDGED request whose own reply passes the filter of '
    'the outstanding Send Message (a Send Message to LUN 0 of the target sent through a bridge) - nothing in the '
    'frame tells it from the bridge\'s response; every other request, command 34h included, is judged',
    'header fields are in range (netFn < 64, LUN < 4, addresses and command < 256); the loop models are '
    'sequential: what threads can do to the sequence counter is explored on the real code (threads stream, with '
    'C14\'s scheduler and fake BMC) and proved in the interleaving model of C14 (Props.C14.rq_seq_distinct_on_wire, '
    'for the source with fixes/C04-2.diff; racy_seq_asShipped_counterexample for the pinned source)',
]
TRUSTED = ['harness/translate/loops04.py (syntax-directed Python-AST -> LoopAst printer; constant readers)',
           'harness/sim/transport04.py']

SIG_ATTR = 'C04:%s:attribution'
SIG_SEQ = 'C04:%s:seq_distinct'
SIG_NOISE = 'C04:%s:finds_match_after_noise'
SIG_POISON = 'C04:%s:no_poisoning'
SIG_CC = 'C04:%s:foreign-completion-code'

_gen = None


def translate(ctx):
    global _gen
    _gen = loops04.generate()


# =============================================================== stimuli (from the spec figure)
BASE9 = ['match', 'stale', 'cmd', 'netfn', 'lun', 'hdr', 'pay', 'ack', 'T']
# a frame in BOTH fault classes at once: header checksum off by +d AND payload part off by e, every other field that of
# the reply.  `both`: e = -d, the two errors cancel modulo 256 (the message as a whole still adds up to zero - a filter
# that verifies ONE checksum over the whole frame takes it for intact); `bothnc`: they do not cancel
BOTH = ['both', 'bothnc']
BASE11 = BASE9 + BOTH
EXT = BASE11 + ['wrapmatch', 'wrap2match', 'wrapstale', 'envcc', 'short', 'empty', 'hdr6', 'envshort', 'ack7',
               'M', 'Lmatch', 'Lstale', 'matchcc', 'stale2', 'stale32', 'echo',
               'wrapbad', 'wrapbadcc', 'lateack', 'lateackcc', 'cmd34', 'envccold', 'wrapboth', 'bothwrap']
# frames that must be treated as unrelated whatever request is outstanding
FOREIGN = ['lateack', 'lateackcc', 'envccold', 'wrapbad', 'wrapbadcc', 'wrapboth', 'bothwrap']
I2C9 = ['match', 'stale', 'cmd', 'netfn', 'lun', 'hdr', 'pay', 'I', 'E']
I2C11 = I2C9 + BOTH
I2C_EXT = I2C11 + ['short', 'Lmatch', 'matchcc', 'sendmsg', 'echo', 'empty', 'stale2', 'stale32']


def _reply(req, cur_seq, rq_sa, data, **kw):
    f = dict(netfn=req['netfn'] + 1, rs_lun=req['lun'], cmd=req['cmd'], seq=cur_seq)
    f.update(kw)
    bad1, bad2 = f.pop('bad1', 0), f.pop('bad2', 0)
    return T.rsp_frame(rq_sa, f['netfn'], 0, req['rs_sa'], f['seq'], f['rs_lun'], f['cmd'], data, bad1, bad2)


def frame_of(kind, req, seq, rq_sa, data):
    """IPMB frame (bytes) for a frame kind relative to request `req` carrying sequence `seq`."""
    if kind in ('match', 'wrapmatch', 'wrap2match', 'Lmatch', 'wrapbad', 'wrapbadcc', 'bothwrap'):
        f = _reply(req, seq, rq_sa, data)
    elif kind == 'matchcc':
        f = _reply(req, seq, rq_sa, b'\xc1')
    elif kind in ('stale', 'wrapstale', 'Lstale'):
        f = _reply(req, seq, rq_sa, data, seq=(seq - 1) % 64)
    elif kind == 'stale2':
        f = _reply(req, seq, rq_sa, data, seq=(seq + 17) % 64)
    elif kind == 'stale32':
        f = _reply(req, seq, rq_sa, data, seq=seq ^ 32)
    elif kind == 'cmd':
        c = req['cmd'] ^ 1
        if c == 0x34:
            c = req['cmd'] ^ 2
        f = _reply(req, seq, rq_sa, data, cmd=c)
    elif kind == 'cmd34':       # the reply to another command whose id is 34h (not Send Message unless netFn is App)
        f = _reply(req, seq, rq_sa, data, cmd=0x34 if req['cmd'] != 0x34 else 0x35)
    elif kind == 'netfn':
        f = _reply(req, seq, rq_sa, data, netfn=(req['netfn'] + 3) % 64)
    elif kind == 'echo':       # the request's own netFn (even): an echo, not a response
        f = _reply(req, seq, rq_sa, data, netfn=req['netfn'])
    elif kind == 'lun':
        f = _reply(req, seq, rq_sa, data, rs_lun=(req['lun'] + 1) % 4)
    elif kind == 'hdr':
        f = _reply(req, seq, rq_sa, data, bad1=1)
    elif kind == 'pay':
        f = _reply(req, seq, rq_sa, data, bad2=0x80)
    elif kind in ('both', 'wrapboth'):        # header checksum +d, payload checksum -d (d = 1..255 chosen by the data)
        d = 1 + sum(data) % 255
        f = _reply(req, seq, rq_sa, data, bad1=d, bad2=256 - d)
    elif kind == 'bothnc':      # header checksum +d, payload checksum +d' with d + d' != 0 (mod 256)
        d = 1 + sum(data) % 255
        f = _reply(req, seq, rq_sa, data, bad1=d, bad2=d if d != 128 else 1)
    elif kind == 'sendmsg':
        f = T.send_msg_envelope(b'', rq_sa=rq_sa, seq=seq)
    elif ':' in kind:           # single-field variants: 'seq:5' = that field set to / offset by the value
        fld, val = kind.split(':')[:2]
        val = int(val)
        if fld == 'seq':
            f = _reply(req, seq, rq_sa, data, seq=val)
        elif fld == 'lun':
            f = _reply(req, seq, rq_sa, data, rs_lun=val)
        elif fld == 'netfn':
            f = _reply(req, seq, rq_sa, data, netfn=val)
        elif fld == 'cmd':
            f = _reply(req, seq, rq_sa, data, cmd=val)
        elif fld == 'chk1':
            f = _reply(req, seq, rq_sa, data, bad1=val)
        elif fld == 'chk2':
            f = _reply(req, seq, rq_sa, data, bad2=val)
        elif fld == 'cancel':
            # 'cancel:<d>:<where>': header checksum byte +d and byte <where> of the payload part (3 = responder
            # address, 6 = completion code, 7.. = data, -1 = the payload checksum itself) -d: two damaged bytes,
            # both checksums invalid, the frame as a whole still adds up to zero
            where = int(kind.split(':')[2])
            f = T.damage_cancelling(_reply(req, seq, rq_sa, data), val, where)
        else:
            raise ValueError(kind)
    else:
        raise ValueError(kind)
    if kind in ('wrapmatch', 'wrapstale', 'wrapboth'):
        # (`wrapboth`: an intact Send Message response around a reply whose two checksums are off by cancelling amounts)
        f = T.send_msg_envelope(f, rq_sa=rq_sa, seq=seq)
    if kind == 'bothwrap':      # the intact reply inside a Send Message response whose two checksums are off by +d / -d
        f = T.damage_cancelling(T.send_msg_envelope(f, rq_sa=rq_sa, seq=seq), 1 + sum(data) % 255, -1)
    if kind in ('wrapbad', 'wrapbadcc'):
        # the reply inside a Send Message response ONE byte of which is damaged: `wrapbad` a header / checksum
        # byte chosen by the data, `wrapbadcc` the completion code (00h -> an error code)
        f = bytearray(T.send_msg_envelope(f, rq_sa=rq_sa, seq=seq))
        if kind == 'wrapbadcc':
            f[6] = (0x83, 0xc0, 0xc3, 0xff)[sum(data) % 4]
        else:
            off = (0, 1, 2, 3, 4, 5, len(f) - 1)[sum(data) % 7]
            f[off] = (f[off] + 1 + sum(data) % 255) % 256
        f = bytes(f)
    if kind == 'wrap2match':
        f = T.send_msg_envelope(T.send_msg_envelope(f, rq_sa=0x20, rs_sa=0x82, seq=seq), rq_sa=rq_sa, seq=seq)
    return f


def rmcp_event(kind, req, seq, rq_sa, data):
    if kind == 'T':
        return ['T']
    if kind == 'M':
        return ['M']
    if kind == 'ack':
        return ['F', T.send_msg_envelope(b'', rq_sa=rq_sa, seq=seq).hex()]
    if kind == 'ack7':          # header + completion code, no trailing checksum
        return ['F', T.send_msg_envelope(b'', rq_sa=rq_sa, seq=seq)[:-1].hex()]
    if kind == 'envcc':
        return ['F', T.send_msg_envelope(b'', rq_sa=rq_sa, seq=seq, cc=0xc3).hex()]
    if kind == 'lateack':       # acknowledgement (cc 00h) of the Send Message of an EARLIER transaction
        return ['F', T.send_msg_envelope(b'', rq_sa=rq_sa, seq=(seq - 1) % 64).hex()]
    if kind == 'lateackcc':     # … that failed (cc 83h)
        return ['F', T.send_msg_envelope(b'', rq_sa=rq_sa, seq=(seq - 1) % 64, cc=0x83).hex()]
    if kind == 'envccold':      # … two transactions ago, cc C3h
        return ['F', T.send_msg_envelope(b'', rq_sa=rq_sa, seq=(seq - 2) % 64, cc=0xc3).hex()]
    if kind == 'envshort':
        return ['F', T.send_msg_envelope(b'\x01\x02', rq_sa=rq_sa, seq=seq).hex()]
    if kind == 'hdr6':
        return ['F', T.send_msg_envelope(b'', rq_sa=rq_sa, seq=seq)[:6].hex()]
    if kind == 'short':
        return ['F', _reply(req, seq, rq_sa, data)[:4].hex()]
    if kind == 'empty':
        return ['F', '']
    f = frame_of(kind, req, seq, rq_sa, data)
    return ['L' if kind.startswith('L') else 'F', f.hex()]


def i2c_event(kind, req, seq, rq_sa, data, dt):
    if kind == 'I':
        return ['I']
    if kind == 'E':
        return ['E', dt]
    if kind == 'short':
        return ['F', dt, _reply(req, seq, rq_sa, data)[:4].hex()]
    if kind == 'empty':
        return ['F', dt, '']
    f = frame_of(kind, req, seq, rq_sa, data)
    return ['L' if kind.startswith('L') else 'F', dt, f.hex()]


# =============================================================== cases
# case = {'transport': 'rmcp'|'ipmbdev'|'aardvark', 'cfg': {...}, 'seq0': n,
#         'steps': [{'req': {...}, 'events': [...], 'kinds': [...]}]}

def _req_id(req, seq):
    return (req['netfn'], req['lun'], req['cmd'], seq)


def run_real(case):
    """Execute the whole case on the real code; -> list of per-step observations."""
    tr = case['transport']
    res = []
    if tr == 'rmcp':
        c = case['cfg']
        iface = T.make_rmcp(max_retries=c['mr'], ignore_rq_seq=bool(c.get('igs')),
                            ignore_sdu_length=bool(c.get('igl')))
        iface.next_sequence_number = case['seq0']
        session = None
        for st in case['steps']:
            if 'req' not in st:
                # establish_session / close_session: an operation that makes requests (T.run_rmcp_op observes each)
                session = session or T.make_session()
                res.append(T.run_rmcp_op(iface, session, st))
                continue
            pre_seq, pre_q = iface.next_sequence_number, T.rmcp_queue(iface)
            r = T.run_rmcp(iface, st['req'], st['events'])
            r['pre_seq'], r['pre_q'] = pre_seq, pre_q
            res.append(r)
        return res
    rig = T.IpmbDevRig() if tr == 'ipmbdev' else T.AardvarkRig()
    try:
        rig.iface.next_sequence_number = case['seq0']
        for st in case['steps']:
            pre_seq = rig.iface.next_sequence_number
            if 'probe' in st:
                r = T.run_i2c_probe(rig, st['probe'], st['events'], st.get('routing'))
            else:
                r = T.run_i2c(rig, st['req'], st['events'])
            r['pre_seq'], r['pre_q'] = pre_seq, []
            res.append(r)
    finally:
        rig.close()
    return res


PROBE_REQ = {'netfn': 6, 'lun': 0, 'cmd': 1, 'payload': ''}


def _step_req(st):
    """the request a step puts on the wire (`is_ipmc_accessible` = Get Device ID to LUN 0 of the target)"""
    if 'probe' in st:
        r = dict(PROBE_REQ, rs_sa=st['probe'])
        if st.get('routing'):
            r['routing'] = st['routing']
        return r
    return st['req']


def is_op(st):
    return 'establish' in st or 'close' in st


def op_name(st):
    return 'establish_session' if 'establish' in st else 'close_session' if 'close' in st else None


def flatten(case, res):
    """-> [(index of the step, step-like dict of ONE request, its observation)]: the requests on the wire in order.  A
    plain step is one request; establish_session / close_session contribute the requests they made (the request as the
    code made it, the script that was played to it, the frames of that script that are late replies)."""
    out = []
    for si, (st, r) in enumerate(zip(case['steps'], res)):
        if not is_op(st):
            out.append((si, st, r))
            continue
        kinds = st.get('kinds') or []
        for k, ir in enumerate(r['inner']):
            out.append((si, {'req': ir['req'], 'events': ir['events'], 'kinds': kinds[k] if k < len(kinds) else [],
                             'late': (st.get('late') or [])[k] if k < len(st.get('late') or []) else [],
                             'op': op_name(st), 'k': k}, ir))
    # a frame counts as "late reply to an earlier request" only if an EARLIER request that really went over the wire
    # (one of the 63 before this one) carries the header this frame answers - whatever the generator meant it to be
    for i, (_si, st, _r) in enumerate(out):
        if st.get('late'):
            earlier = [o[2]['tx'][0] for o in out[max(0, i - 63):i] if o[2].get('tx') and o[2]['tx'][0]]
            ok = [f for f in st['late'] if any(_answers(f, t) for t in earlier)]
            if ok != st['late']:
                out[i] = (out[i][0], dict(st, late=ok), out[i][2])
    return out


def _answers(fhex, tx):
    """the header of frame `fhex` is that of a response to the request frame `tx` (IPMI v1.5 figure 7-3 / 7-4)"""
    f = bytes.fromhex(fhex)
    return (len(f) >= 7 and len(tx) >= 7 and f[0] == tx[3] and f[3] == tx[0] and f[1] >> 2 == (tx[1] >> 2) + 1
            and f[4] >> 2 == tx[4] >> 2 and f[4] & 3 == tx[1] & 3 and f[5] == tx[5] and f[1] & 3 == tx[4] & 3)


def _hexq(q):
    return ','.join(lean.hexs(x) for x in q) if q else '-'


def _evs(events):
    # (a presence pong that was not read by the ping it answers is, for a request, a datagram that is no IPMI message
    # - like 'M' it ends the request with DecodingError when it is read)
    return ['M' if e[0] == 'P' else e[0] if e[0] in 'TM' else e[0] + (e[1] or '-') for e in events]


def bridged_of(req, seq, tr='rmcp'):
    """'-' or the sequence number of the outstanding Send Message (routing with more than one entry; ipmb-dev and
    Aardvark never bridge: they refuse such a target - or, as shipped, ignored the routing)"""
    return str(seq) if tr == 'rmcp' and len(req.get('routing') or []) > 1 else '-'


def _rt(req):
    return ','.join('%d:%d:%d' % (h[0], h[1], h[2] if h[2] is not None else 0) for h in req.get('routing') or []) or '-'


def refused(tr, req, r):
    """ipmb-dev / Aardvark refused a target that is reachable only through a bridge: NotSupportedError and NOTHING
    written (fixes/C09-2.diff) - an error, as the property allows; whether a routed request is refused or put on the
    wire un-bridged is judged by C09"""
    return tr != 'rmcp' and len(req.get('routing') or []) > 1 and r['out'][0] == 'NotSupportedError' and not r['tx']


def model_line(case, st, r, variant):
    req = _step_req(st)
    pl = req.get('payload') or '-'
    if case['transport'] == 'rmcp':
        c = case['cfg']
        rt = _rt(req)
        return 'rmcp %d %d %d %d %d %d %d %d %s %s %d %d %d %d %s %s %s' % (
            c['mr'], int(bool(c.get('igs'))), int(bool(c.get('igl'))), variant['requeue'], variant['cmdOnly'],
            variant['drain'], 0x81, r['pre_seq'], _hexq(r['pre_q']), ','.join(_evs(r['pre_sock'])) or '-',
            req['rs_sa'], req['netfn'], req['lun'], req['cmd'], pl, rt, ' '.join(_evs(st['events'])))
    evs = []
    for e in st['events']:
        if e[0] == 'I':
            evs.append('I')
        elif e[0] == 'E':
            evs.append('E%d' % e[1])
        else:
            evs.append('%s%d:%s' % (e[0], e[1], e[2] or '-'))
    kind = 'd' if case['transport'] == 'ipmbdev' else 'a'
    rf = variant['refuse'][case['transport']]
    if 'probe' in st:
        return 'probe %s %d %d %d %d %s %s' % (kind, variant['inc'], rf, r['pre_seq'], st['probe'], _rt(req), ' '.join(evs))
    return 'i2c %s %d %d %d %d %d %d %s %s %s' % (kind, rf, r['pre_seq'], req['rs_sa'], req['netfn'], req['lun'], req['cmd'],
                                                 pl, _rt(req), ' '.join(evs))


def real_line(case, r):
    out = r['out']
    o = ('ok ' + lean.hexs(out[1])) if out[0] == 'ok' else out[0]
    tx = r['tx']
    txs = lean.hexs(tx[0]) if tx and tx[0] is not None else '?'
    if case['transport'] == 'rmcp':
        return '%s seq=%d q=%s consumed=%d sends=%d tx=%s left=%s' % (
            o, r['seq'], _hexq(r['queue']), r['consumed'] + r['drained'] * 0, len(tx), txs,
            ','.join(_evs(r['left'])) or '-')
    return '%s seq=%d consumed=%d sends=%d tx=%s' % (o, r['seq'], r['consumed'], len(tx), txs)


def _frames_seen(case, st, r):
    """Payloads of the datagrams the blocking reads of the request were given (what it can have looked at):
    what was still in the socket and not discarded, then the arrivals it consumed."""
    if case['transport'] == 'rmcp':
        return [e[1] for e in r['seen'] if e[0] in ('F', 'L')]
    return [e[2] for e in st['events'][:r['consumed']] if e[0] in ('F', 'L')]


class Judge(object):
    """Batches the Lean questions of many cases, then compares and judges."""

    def __init__(self, ctx, drv, variant):
        self.ctx, self.drv, self.variant = ctx, drv, variant
        self.cls_cache = {}
        self.pending = []

    def add(self, case):
        self.pending.append((case, run_real(case)))
        if len(self.pending) >= 1500:
            self.flush()

    # ---- Spec predicates on single frames, cached
    def _cls_key(self, cs, rid, br, fhex):
        return '%d %d %d %d %d %s %s' % (cs, rid[0], rid[1], rid[2], rid[3], br, fhex or '-')

    def flush(self):
        ctx = self.ctx
        pend, self.pending = self.pending, []
        lines, slots = [], []
        need_cls = {}
        flats = [flatten(case, res) for case, res in pend]
        for ci, (case, res) in enumerate(pend):
            cs = 0 if (case['transport'] == 'rmcp' and case['cfg'].get('igs')) else 1
            for si, (_osi, st, r) in enumerate(flats[ci]):
                lines.append(model_line(case, st, r, self.variant))
                slots.append(('model', ci, si))
                req = _step_req(st)
                wire_seq = (r['pre_seq'] + 1) % 64
                rid = _req_id(req, wire_seq)
                br = bridged_of(req, wire_seq, case['transport'])
                if r['out'][0] == 'ok' and 'probe' not in st:
                    recv = [lean.hexs(x) for x in r['pre_q']] + [f or '-' for f in _frames_seen(case, st, r)]
                    lines.append('oracle %d %d %d %d %d %s' % (cs, rid[0], rid[1], rid[2], rid[3], ' '.join(recv)))
                    slots.append(('oracle', ci, si))
                    late = st.get('late') or []
                    if late and any(f in late for f in recv):
                        # the same question without the frames that are replies to EARLIER requests
                        lines.append('oracle %d %d %d %d %d %s' % (cs, rid[0], rid[1], rid[2], rid[3],
                                                                   ' '.join(f for f in recv if f not in late)))
                        slots.append(('oracle-nolate', ci, si))
                fhs = [e[1] if case['transport'] == 'rmcp' else e[2] for e in st['events'] if e[0] == 'F']
                if r['out'][0].startswith('CompletionCodeError') and case['transport'] == 'rmcp':
                    fhs += _frames_seen(case, st, r)
                for fh in fhs:
                    k = self._cls_key(cs, rid, br, fh)
                    if k not in self.cls_cache and k not in need_cls:
                        need_cls[k] = True
        for k in need_cls:
            lines.append('classify ' + k)
            slots.append(('cls', k, None))
        answers = self.drv.ask_many(lines)
        model, oracle, nolate = {}, {}, {}
        for (kind, a, b), ans in zip(slots, answers):
            if kind == 'model':
                model[(a, b)] = ans
            elif kind == 'oracle':
                oracle[(a, b)] = ans
            elif kind == 'oracle-nolate':
                nolate[(a, b)] = ans
            else:
                self.cls_cache[a] = _parse_cls(ans)
        for ci, (case, res) in enumerate(pend):
            self._judge_case(case, res, model, oracle, ci, flats[ci], nolate)
        if len(self.cls_cache) > 400000:
            self.cls_cache.clear()

    def _judge_case(self, case, res, model, oracle, ci, flat, nolate):
        ctx = self.ctx
        tr = case['transport']
        nev = sum(len(st['events']) for _o, st, _r in flat)
        ctx.case(_case_key(case), nontrivial=nev > 0)
        ctx.count('transport:' + tr)
        ctx.count('requests_per_case:%d' % min(len(flat), 12))
        for st, r in zip(case['steps'], res):
            if is_op(st):
                ctx.count('op:%s:%d-requests:%s' % (op_name(st), len(r['inner']), r['out'][0].split(':')[0]))
        prev = None
        for si, (osi, st, r) in enumerate(flat):
            # ---------- tie: nothing but a request changes the state the requests share (Loops.runOps: establish_session,
            # close_session and the presence ping touch neither next_sequence_number nor _q)
            if prev is not None and (r['pre_seq'] != prev['seq'] or
                                     ('queue' in prev and r['pre_q'] != prev['queue'])):
                ctx.disagree('%s interface state between two requests%s' % (tr, ' (inside / before %s)' % st['op'] if st.get('op') else ''),
                             _mini(case, osi),
                             'next_sequence_number=%d _q=%s (as the previous request left them)' % (
                                 prev['seq'], _hexq(prev.get('queue') or [])),
                             'next_sequence_number=%d _q=%s' % (r['pre_seq'], _hexq(r['pre_q'])))
            prev = r
            if st.get('op'):
                ctx.count('request:inside-%s:cmd-%02xh:%s' % (st['op'], st['req']['cmd'], r['out'][0].split(':')[0]))
                if any(f in (st.get('late') or []) for f in _frames_seen(case, st, r)):
                    ctx.count('late-reply-read:inside-%s' % st['op'])
            elif any(f in (st.get('late') or []) for f in _frames_seen(case, st, r)):
                ctx.count('late-reply-read:plain-request')
            ctx.count('outcome:%s:%s' % (tr, r['out'][0].split(':')[0]))
            ctx.count('script_len:%d' % min(len(st['events']), 9))
            if 'probe' in st:
                ctx.count('request:is_ipmc_accessible')
            elif tr != 'rmcp' and _step_req(st).get('routing'):
                pass
            elif st['req']['cmd'] == 0x34:
                ctx.count('request:cmd-34h:%s:%s' % ('App' if st['req']['netfn'] == 6 else 'other-netfn',
                                                      'bridged' if len(st['req'].get('routing') or []) > 1 else 'not-bridged'))
            if tr != 'rmcp' and _step_req(st).get('routing'):
                ctx.count('request:%s:routing-depth-%d:%s' % (tr, len(_step_req(st)['routing']),
                                                             'refused' if refused(tr, _step_req(st), r) else 'sent'))
            if tr == 'rmcp' and r['pre_sock']:
                ctx.count('socket-not-empty-at-start:%d' % min(len(r['pre_sock']), 4))
            for k in st.get('kinds', []):
                ctx.count('kind:' + k)
            # ---------- tie: real code vs Lean model
            m = model.get((ci, si))
            code = real_line(case, r)
            if m is not None and m != code:
                ctx.disagree('%s request %d' % (tr, si), _mini(case, osi), m, code)
            if tr != 'rmcp' and 'probe' not in st:
                fails = len(r['tx']) - (0 if r['out'][0] == 'IpmiTimeoutError' else 1)
                want = [0.2 * (i + 1) for i in range(fails)]
                if len(r['sleeps']) != len(want) or any(abs(a - b) > 1e-9 for a, b in zip(r['sleeps'], want)):
                    ctx.disagree('%s sleep schedule' % tr, _mini(case, osi), repr(want), repr(r['sleeps']))
            # ---------- property
            for v in judge_step(case, si, st, r, oracle.get((ci, si)), self._cls, nolate.get((ci, si))):
                ctx.violate(v[0], v[1], _mini(case, osi), expected=v[2], observed=v[3])
            # P2 on the wire itself (independent of where the interface keeps its counter): the innermost
            # request frame of this step must not carry the sequence number of the previous step's frame,
            # whatever the outcome of the previous request was
            ws = _wire_seq(r)
            if si > 0 and ws is not None and ws == _wire_seq(flat[si - 1][2]):
                ctx.violate(_sig_wire(tr, st), _what_wire(flat, si), _mini(case, osi),
                            expected='sequence != %d' % ws, observed='sequence %d' % ws)

    def _cls(self, cs, rid, br, fhex):
        k = self._cls_key(cs, rid, br, fhex)
        if k not in self.cls_cache:
            self.cls_cache[k] = _parse_cls(self.drv.ask('classify ' + k))
        return self.cls_cache[k]


def _sig_wire(tr, st):
    return (SIG_SEQ % tr) + (':is_ipmc_accessible' if 'probe' in st else '') + \
        (':' + st['op'] if st.get('op') else '')


def _what_wire(flat, si):
    _o, st, r = flat[si]
    _po, pst, pr = flat[si - 1]

    def where(s):
        return ('request %d of %s' % (s['k'] + 1, s['op'])) if s.get('op') else \
            'is_ipmc_accessible' if 'probe' in s else 'a plain request'
    return ('two consecutive requests carry the same sequence number on the wire: %s (cmd %02xh, ended with %s), then %s '
            '(cmd %02xh)' % (where(pst), _step_req(pst)['cmd'], pr['out'][0], where(st), _step_req(st)['cmd']))


def _parse_cls(ans):
    d = dict(p.split('=') for p in ans.split()) if '=' in ans else {}
    return (d.get('reply') == '1', d.get('unrelated') == '1', d.get('bareack') == '1', d.get('ownrsp') == '1')


def _wire_seq(r):
    """Sequence number in the first frame a step wrote (outermost IPMB header), or None."""
    tx = r.get('tx')
    if tx and tx[0] is not None and len(tx[0]) >= 5:
        return tx[0][4] >> 2
    return None


def _doubly_damaged(fhex):
    """both checksums of the frame are invalid and the two errors cancel (the whole frame sums to zero)"""
    f = bytes.fromhex(fhex)
    return len(f) >= 7 and sum(f[:3]) % 256 != 0 and sum(f[3:]) % 256 != 0 and sum(f) % 256 == 0


def judge_step(case, si, st, r, oracle_ans, cls, nolate_ans=None):
    """Property clauses on one request of the real code.  -> [(signature, what, expected, observed)]."""
    tr = case['transport']
    out = []
    req = _step_req(st)
    probe = 'probe' in st
    cs = 0 if (tr == 'rmcp' and case['cfg'].get('igs')) else 1
    wire_seq_expected = None
    # P2 — sequence numbers
    tx = r['tx']
    if tx and tx[0] is not None and len(tx[0]) >= 5:
        ws = tx[0][4] >> 2
        if ws == r['pre_seq'] or any(t != tx[0] for t in tx):
            out.append(((SIG_SEQ % tr) + (':is_ipmc_accessible' if probe else ''),
                        'request carries the same sequence number as the previous one (or re-sends differ)',
                        'sequence != %d' % r['pre_seq'], 'sequence %d' % ws))
        wire_seq_expected = ws
    elif refused(tr, req, r):
        return out          # an error before anything was written: nothing else to judge here
    else:
        out.append((SIG_SEQ % tr, 'no well-formed request was written', 'one IPMB request', repr(tx)[:80]))
    rid = _req_id(req, (r['pre_seq'] + 1) % 64)
    br = bridged_of(req, rid[3], tr)
    # P1 — attribution
    if r['out'][0] == 'ok' and not probe:
        got = lean.hexs(r['out'][1])
        allowed = (oracle_ans or 'allowed').split()[1:]
        if got not in allowed:
            sig, what = SIG_ATTR % tr, 'returned data is not the data of a received intact reply to this request'
            if tr == 'rmcp' and any(len(e) > 1 and e[1] and bytes.fromhex(e[1])[5:6] == b'\x34' for e in r['seen'][-1:]):
                sig += ':damaged-wrapper'
                what += ' (it was taken out of a Send Message response that is not intact)'
            if any(_doubly_damaged(f) and got in (lean.hexs(bytes.fromhex(f)[6:-1]), lean.hexs(bytes.fromhex(f)[7:-1][6:-1]))
                   for f in _frames_seen(case, st, r) if f):
                sig += ':two-cancelling-corruptions'
                what += (' (it is the data of a frame whose header checksum AND payload checksum are both invalid, by '
                         'amounts that cancel modulo 256: the frame as a whole adds up to zero)')
            out.append((sig, what, 'one of %s or an error' % (allowed or 'none'), got))
        elif nolate_ans is not None and got not in nolate_ans.split()[1:]:
            # the header fields of a reply cannot tell it from the late reply to an EARLIER request that carried the same
            # sequence number: the harness knows which frames the reference BMC produced for earlier requests
            out.append(((SIG_ATTR % tr) + ':late-reply' + (':' + st['op'] if st.get('op') else ''),
                        'the data of the late reply to an EARLIER request is returned as the answer (that request carried '
                        'the same sequence number %d%s)' % (rid[3], ', cmd %02xh inside %s' % (req['cmd'], st['op'])
                                                            if st.get('op') else ''),
                        'the reply to this request (%s) or an error' % (' / '.join(nolate_ans.split()[1:]) or 'none received yet'),
                        got))
    if r['out'][0] == 'ok' and probe:
        # "accessible" must rest on an intact reply to THIS probe (its own sequence number) among the frames read
        frames = _frames_seen(case, st, r)
        prid = _req_id(req, wire_seq_expected if wire_seq_expected is not None else rid[3])
        if not any(cls(1, prid, '-', f)[0] for f in frames) or wire_seq_expected == r['pre_seq']:
            out.append(((SIG_ATTR % tr) + ':is_ipmc_accessible',
                        'is_ipmc_accessible says "accessible" on a frame that is not the reply to this probe (a late '
                        'reply to an earlier request carries the same sequence number)',
                        'IpmiTimeoutError (nobody answered the probe)', 'True'))
    # P4 — a completion code is raised only from an intact response to the Send Message of THIS transaction
    if tr == 'rmcp' and r['out'][0].startswith('CompletionCodeError'):
        own = [f for f in _frames_seen(case, st, r) if f and cls(cs, rid, br, f)[3]]
        if not own:
            out.append((SIG_CC % tr, 'CompletionCodeError is raised from a frame that is not an intact response to the '
                        'Send Message of this transaction (%s)' % ('the request is not bridged at all' if br == '-' else
                                                                    'late / foreign acknowledgement or damaged frame'),
                        'the frame is dropped like any other unrelated frame', r['out'][0]))
    # P3 — progress
    if not probe and req['netfn'] % 2 == 0 and wire_seq_expected == rid[3]:
        exp = progress_expectation(case, st, rid, br, cs, cls)
        if exp is not None:
            got = ('ok ' + lean.hexs(r['out'][1])) if r['out'][0] == 'ok' else r['out'][0]
            if got != 'ok ' + exp:
                fresh = (si == 0)
                sig = (SIG_NOISE if fresh else SIG_POISON) % tr
                what = ('a matching reply preceded by no more unrelated frames than the retry budget allows is not '
                        'returned' if fresh else
                        'frames received during earlier requests prevent a later request from finding its reply')
                if not fresh and tr == 'rmcp' and r['pre_sock'] and not r['pre_q']:
                    sig += ':socket-leftover'
                    what += ' (%d datagram(s) an earlier request left unread in the socket)' % len(r['pre_sock'])
                elif req['cmd'] == 0x34:
                    sig += ':cmd-34h'
                    what += ' (the request\'s command id is 34h, network function %02xh, %s)' % (
                        req['netfn'], 'bridged' if br != '-' else 'not bridged')
                elif tr == 'rmcp' and (got.startswith('CompletionCodeError') or br == '-') and any(
                        e[0] == 'F' and e[1] and bytes.fromhex(e[1])[5:6] == b'\x34' and not cls(cs, rid, br, e[1])[3]
                        for e in st['events']):
                    sig += ':foreign-send-message-response'
                    what += ' (a Send Message response that does not belong to this transaction is in front of it)'
                out.append((sig, what, 'ok ' + exp, got))
    return out


def progress_expectation(case, st, rid, br, cs, cls):
    """If the script has the shape the progress clauses speak about, the data that must be
    returned (hex), else None."""
    tr = case['transport']
    evs = st['events']
    if tr == 'rmcp':
        mr = case['cfg']['mr']
        touts, noise = 0, 0
        for e in evs:
            if e[0] == 'T':
                touts += 1
                noise = 0
                if touts > mr:
                    return None
                continue
            if e[0] != 'F':
                return None
            rep, unrel, ack, own = cls(cs, rid, br, e[1])
            if rep:
                if own:
                    return None      # a Send Message to LUN 0 of the target through a bridge: ambiguous by design
                f = bytes.fromhex(e[1])
                return lean.hexs(f[6:-1])
            if ack:
                continue
            if not unrel:
                return None
            noise += 1
            if noise > mr:
                return None
        return None
    # ipmb-dev / Aardvark: attempts 1..3, each limited by 16 ticks
    timeout, attempts = 16, 3
    if _gen:
        timeout = _gen['ipmbdevTimeoutTicks' if tr == 'ipmbdev' else 'aardvarkTimeoutTicks']
        attempts = _gen[('ipmbdev' if tr == 'ipmbdev' else 'aardvark') + 'MaxRetries']
    failed, el = 0, 0
    for e in evs:
        if e[0] in ('I', 'E'):
            failed += 1
            el = 0
            if failed >= attempts:
                return None
            continue
        if e[0] != 'F':
            return None
        rep = cls(cs, rid, '-', e[2])[0]
        if el + e[1] >= timeout:
            return None
        if rep:
            f = bytes.fromhex(e[2])
            return lean.hexs(f[6:-1])
        if len(bytes.fromhex(e[2])) < 6:
            return None
        el += e[1]
    return None


def _case_key(case):
    return (case['transport'], tuple(sorted(case['cfg'].items())), case['seq0'],
            tuple((op_name(s), str(s.get('establish')), str(s.get('scripts')), s.get('ping')) if is_op(s) else
                  (tuple(sorted((k, str(v)) for k, v in _step_req(s).items())), 'probe' in s, str(s['events']))
                  for s in case['steps']))


def _mini(case, upto):
    c = dict(case)
    c['steps'] = [dict((k, s[k]) for k in ('req', 'probe', 'routing', 'events', 'establish', 'close', 'scripts', 'ping',
                                           'late') if k in s) for s in case['steps'][:upto + 1]]
    return c


# =============================================================== generators
def _std_req(i):
    return {'rs_sa': 0x20, 'netfn': (6, 0x0a, 0x2c, 4)[i % 4], 'lun': (i // 4) % 4, 'cmd': (1, 0x10, 0x35, 0xff)[(i // 16) % 4],
            'payload': ('', 'aa', '0102030405')[(i // 64) % 3]}


def _rand_req(rng, routing=True):
    cmd = rng.randrange(256)
    netfn = 2 * rng.randrange(32)
    if rng.random() < 0.12:
        # command id 34h: HPM.1 Get Upgrade Status (2Ch), OEM / other network functions, and - not bridged - a raw
        # Send Message (App): every one of them is a request like any other
        cmd, netfn = 0x34, rng.choice([0x2c, 0x2c, 0x30, 0x0a, 6, 2 * rng.randrange(32)])
    req = {'rs_sa': rng.choice([0x20, 0x82, 0x72, 0xb2]), 'netfn': netfn, 'lun': rng.randrange(4),
           'cmd': cmd, 'payload': bytes(rng.randrange(256) for _ in range(rng.choice([0, 0, 1, 2, 5, 16]))).hex()}
    if routing and rng.random() < 0.4:
        d = rng.randrange(1, 4)
        hops = [(0x81, 0x20, 0), (0x20, 0x82, 7), (0x20, 0x72, 2)][:d]
        hops[-1] = (hops[-1][0], hops[-1][1], None)
        req['routing'] = [list(h) for h in hops]
    return req


def _data(rng):
    return bytes([0]) + bytes(rng.randrange(256) for _ in range(rng.choice([0, 1, 3, 8])))


def _rmcp_step(kinds, req, pre_seq, data):
    seq = (pre_seq + 1) % 64
    return {'req': req, 'kinds': [k.split(':')[0] for k in kinds],
            'events': [rmcp_event(k, req, seq, 0x81, data + bytes([i])) for i, k in enumerate(kinds)]}


def _i2c_step(kinds, dts, req, pre_seq, data):
    seq = (pre_seq + 1) % 64
    return {'req': req, 'kinds': [k.split(':')[0] for k in kinds],
            'events': [i2c_event(k, req, seq, 0x20, data + bytes([i]), dt)
                       for i, (k, dt) in enumerate(zip(kinds, dts))]}


def gen_rmcp_exhaustive(ctx, judge, maxlen, mrs, alphabet, quirks=(0, 0), tag='exh'):
    i = 0
    for n in range(maxlen + 1):
        for kinds in itertools.product(alphabet, repeat=n):
            for mr in mrs:
                i += 1
                seq0 = (i * 7) % 64
                req = _std_req(i)
                case = {'transport': 'rmcp', 'cfg': {'mr': mr, 'igs': quirks[0], 'igl': quirks[1]}, 'seq0': seq0,
                        'steps': [_rmcp_step(kinds, req, seq0, b'\x00\xaa\xbb')]}
                judge.add(case)
                ctx.count('gen:rmcp-%s' % tag)
        if ctx.time_left() < 40:
            ctx.notes.append('rmcp %s enumeration stopped after length %d (time budget)' % (tag, n))
            return


def gen_rmcp_random(ctx, judge, rng, n):
    for _ in range(n):
        mr = rng.choice([0, 1, 1, 2, 3, 4])
        req = _rand_req(rng)
        seq0 = rng.choice([0, 1, 61, 62, 63, rng.randrange(64)])
        kinds = [rng.choice(EXT) for _ in range(rng.randrange(0, 9))]
        case = {'transport': 'rmcp', 'cfg': {'mr': mr, 'igs': int(rng.random() < 0.25), 'igl': int(rng.random() < 0.25)},
                'seq0': seq0, 'steps': [_rmcp_step(kinds, req, seq0, _data(rng))]}
        judge.add(case)
        ctx.count('gen:rmcp-random')


def _progress_script(rng, mr, alphabet_noise, with_timeouts):
    kinds = []
    if with_timeouts:
        for _ in range(rng.randrange(0, mr + 1)):
            kinds += [rng.choice(alphabet_noise) for _ in range(rng.randrange(0, mr + 1))] + ['T']
    k = rng.randrange(0, mr + 1)
    body = [rng.choice(alphabet_noise) for _ in range(k)]
    for _ in range(rng.randrange(0, 3)):
        body.insert(rng.randrange(len(body) + 1), 'ack')
    return kinds + body + ['match'] + [rng.choice(EXT) for _ in range(rng.randrange(0, 2))]


def gen_rmcp_leftovers(ctx, judge):
    """directed histories for the last clause: k surplus datagrams (duplicates of the reply, the reply to a
    retransmission, stale / damaged frames) reach the socket during request 1; then four requests whose replies
    arrive"""
    reqs = [{'rs_sa': 0x20, 'netfn': 6, 'lun': 0, 'cmd': 1, 'payload': ''},
            {'rs_sa': 0x82, 'netfn': 0x0a, 'lun': 0, 'cmd': 0x23, 'payload': '0000'},
            {'rs_sa': 0x82, 'netfn': 0x2c, 'lun': 0, 'cmd': 0x34, 'payload': '00'}]
    i = 0
    for mr in (0, 1, 2):
        for k in (1, 2, 3):
            for surplus in ('match', 'stale', 'pay', 'both', 'cmd', 'lateackcc', 'wrapbad'):
                for same in (True, False):
                    i += 1
                    seq0 = (i * 5) % 64
                    steps, pre = [], seq0
                    for si in range(5):
                        req = reqs[0] if same else reqs[(i + si) % 3]
                        kinds = ['match'] + ([surplus] * k if si == 0 else [])
                        steps.append(_rmcp_step(kinds, req, pre, bytes([0, si + 1])))
                        pre = (pre + 1) % 64
                    judge.add({'transport': 'rmcp', 'cfg': {'mr': mr, 'igs': 0, 'igl': 0}, 'seq0': seq0, 'steps': steps})
                    ctx.count('gen:rmcp-leftover')
    # a request that times out (T x budget), its reply arrives late: it is in the socket when the next one starts
    for mr in (0, 1, 2):
        for late in ('match', 'wrapmatch'):
            i += 1
            seq0 = (i * 5) % 64
            req = reqs[1]
            steps = [_rmcp_step(['T'] * (mr + 1) + [late], req, seq0, b'\x00\x11'),
                     _rmcp_step(['match'], req, (seq0 + 1) % 64, b'\x00\x22'),
                     _rmcp_step(['match'], req, (seq0 + 2) % 64, b'\x00\x33')]
            judge.add({'transport': 'rmcp', 'cfg': {'mr': mr, 'igs': 0, 'igl': 0}, 'seq0': seq0, 'steps': steps})
            ctx.count('gen:rmcp-leftover')


def gen_rmcp_bridging(ctx, judge, rng):
    """directed: requests whose command id is 34h (bridged and not), corrupted wrapper bytes, acknowledgements
    of earlier transactions - each in front of the reply, with a budget that tolerates one unrelated frame"""
    routes = [None, [[0x81, 0x20, 0], [0x20, 0x82, None]], [[0x81, 0x20, 0], [0x20, 0x82, 7], [0x20, 0x72, None]]]
    i = 0
    for netfn, cmd in ((0x2c, 0x34), (0x30, 0x34), (6, 0x34), (6, 1), (0x0a, 0x11)):
        for route in routes:
            if netfn == 6 and cmd == 0x34 and route:
                continue         # Send Message through a bridge: excluded (see ASSUMPTIONS)
            for kinds in (['match'], ['wrapmatch'], ['ack', 'match'], ['ack', 'wrapmatch'], ['lateack', 'match'],
                          ['lateackcc', 'match'], ['envccold', 'match'], ['wrapbad', 'match'], ['wrapbadcc', 'match'],
                          ['wrapbad', 'wrapmatch'], ['wrapbadcc', 'wrapmatch'], ['cmd34', 'match'], ['wrapbad'],
                          ['both', 'match'], ['both', 'wrapmatch'], ['wrapboth', 'wrapmatch'], ['bothwrap', 'wrapmatch'],
                          ['wrapboth'], ['bothwrap'], ['bothnc', 'match'],
                          ['wrapbadcc'], ['lateackcc'], ['stale', 'lateackcc', 'match']):
                for mr in (0, 1, 2):
                    i += 1
                    seq0 = (i * 3) % 64
                    req = {'rs_sa': 0x72 if route else 0x20, 'netfn': netfn, 'lun': 0, 'cmd': cmd, 'payload': ''}
                    if route:
                        req['routing'] = route
                    data = bytes([0, rng.randrange(256), rng.randrange(256)])
                    judge.add({'transport': 'rmcp', 'cfg': {'mr': mr, 'igs': 0, 'igl': 0}, 'seq0': seq0,
                               'steps': [_rmcp_step(kinds, req, seq0, data)]})
                    ctx.count('gen:rmcp-bridging')


def gen_rmcp_sessions(ctx, judge, rng, n):
    noise = ['stale', 'cmd', 'netfn', 'lun', 'hdr', 'pay', 'both', 'bothnc', 'stale2', 'stale32', 'echo', 'wrapstale',
             'lateack', 'lateackcc', 'wrapbad', 'cmd34']
    for _ in range(n):
        mr = rng.choice([0, 1, 2, 3])
        cfg = {'mr': mr, 'igs': int(rng.random() < 0.15), 'igl': int(rng.random() < 0.15)}
        seq0 = rng.choice([0, 5, 60, 62, 63, rng.randrange(64)])
        steps, pre = [], seq0
        same_req = _rand_req(rng) if rng.random() < 0.5 else None
        for si in range(rng.randrange(2, 7)):
            req = same_req or _rand_req(rng)
            r = rng.random()
            if r < 0.45:
                kinds = _progress_script(rng, mr, noise, rng.random() < 0.4)
                if rng.random() < 0.3:
                    # surplus datagrams behind the reply: still in the socket when the next request starts
                    kinds += [rng.choice(['match', 'stale', 'pay', 'both', 'wrapmatch', 'lateackcc', 'cmd'])
                              for _ in range(rng.randrange(1, 4))]
            elif r < 0.6:
                kinds = ['T'] * rng.randrange(1, mr + 3)
            elif r < 0.75:
                kinds = [rng.choice(noise) for _ in range(rng.randrange(1, mr + 3))]
            else:
                kinds = [rng.choice(EXT) for _ in range(rng.randrange(0, 7))]
            steps.append(_rmcp_step(kinds, req, pre, _data(rng)))
            pre = (pre + 1) % 64
        judge.add({'transport': 'rmcp', 'cfg': cfg, 'seq0': seq0, 'steps': steps})
        ctx.count('gen:rmcp-session')


# =============================================================== session operations among the requests
# establish_session / close_session are operations on the interface object whose requests (Get Channel Authentication
# Capabilities 38h, Get Session Challenge 39h, Activate Session 3Ah, Set Session Privilege Level 3Bh, Close Session 3Ch,
# all App / LUN 0 to the BMC) share next_sequence_number, _q and the socket with every other request.
HS_CMDS = [0x38, 0x39, 0x3a, 0x3b]
CAPS = [0x01, 0x04, 0x10, 0x05, 0x11, 0x15]      # authentication types offered (none / MD5 / password combinations)


def hs_req(cmd):
    return {'rs_sa': 0x20, 'netfn': 6, 'lun': 0, 'cmd': cmd, 'payload': ''}


def bmc_answer(cmd, priv, caps, tag):
    """completion code + data of the BMC's answer (IPMI v1.5 18.12-18.17); `tag` makes the answers of different
    requests for the same command different"""
    tag &= 0xff
    if cmd == 0x38:     # channel, authentication type support, status, reserved, OEM id (3), OEM auxiliary
        return bytes([0, 1, caps, 0, 0, 0, 0, 0, tag])
    if cmd == 0x39:     # temporary session id, challenge string
        return bytes([0, tag, 0x10, 0x20, 0x30]) + bytes((tag + i) & 0xff for i in range(16))
    if cmd == 0x3a:     # authentication type for the rest of the session, session id, initial inbound seq, privilege
        auth = 2 if caps & 4 else 4 if caps & 0x10 else 0
        return bytes([0, auth, tag, 0x77, 0x66, 0x55, 1 + tag % 5, 0, 0, 0, priv])
    if cmd == 0x3b:
        return bytes([0, priv])
    return bytes([0])


class Hist(object):
    """builds one case: a sequence of plain requests and session operations on one Rmcp object, remembering every
    request made so far (request, sequence number it was sent with when the counter is never reset, the BMC's answer)
    so that LATE replies to them can be delivered during later requests"""

    def __init__(self, seq0, mr):
        self.seq0, self.pre, self.mr = seq0, seq0, mr
        self.steps, self.made = [], []
        self.has_session, self.activated = False, False
        self.unread = []            # what the last request / ping left unread in the socket ('F' frames, 'P' pongs)

    def case(self):
        return {'transport': 'rmcp', 'cfg': {'mr': self.mr, 'igs': 0, 'igl': 0}, 'seq0': self.seq0, 'steps': self.steps}

    def late_of(self, i):
        m = self.made[i]
        return _reply(m['req'], m['seq'], 0x81, m['data']).hex()

    def _script(self, req, data, late, mode):
        """-> (events, kinds, the request returns data).  mode: 'ok' the reply arrives | 'silent' nothing but the late
        frames | 'retry-ok' one time-out, then the reply | ('cc', code) the reply carries an error completion code"""
        seq = (self.pre + 1) % 64
        self.pre = seq
        evs = [['F', f] for f in late]
        kinds = ['late'] * len(late)
        if isinstance(mode, tuple):
            data = bytes([mode[1]])
        self.made.append({'req': req, 'seq': seq, 'data': data})
        # (the stale datagrams are discarded before the request is sent; a round of the receive loop reads at most
        # max_retries + 1 frames that are not its reply)
        over = len(late) > self.mr
        self.unread = ['F'] * (len(late) - self.mr - 1) if over else []
        if mode == 'silent':
            return evs + [['T']] * (self.mr + 1), kinds + ['T'] * (self.mr + 1), False
        rf = ['F', _reply(req, seq, 0x81, data).hex()]
        if over:
            self.unread.append('F')
        if mode == 'retry-ok' and self.mr >= 1:
            return evs + [['T'], rf], kinds + ['T', 'match'], not over
        return evs + [rf], kinds + ['match'], not over

    def request(self, req, data, late=(), mode='ok'):
        evs, kinds, _ok = self._script(req, data, list(late), mode)
        self.steps.append({'req': req, 'events': evs, 'kinds': kinds, 'late': list(late)})

    def establish(self, priv, caps, tag, modes=('ok', 'ok', 'ok', 'ok'), late=None, ping='pong'):
        """modes[k] / late[k]: what happens to request k of the handshake; it stops at the first request that fails"""
        late = late or {}
        scripts, kindss, lates = [], [], []
        self.has_session, self.activated = False, False
        # the presence ping reads the OLDEST unread datagram: anything but a pong ends the attempt before its first request
        if ping == 'pong':
            self.unread.append('P')
        ponged = bool(self.unread) and self.unread.pop(0) == 'P'
        if ponged:
            for k, cmd in enumerate(HS_CMDS):
                lk = list(late.get(k, ()))
                evs, kinds, ok = self._script(hs_req(cmd), bmc_answer(cmd, priv, caps, tag + k), lk, modes[k])
                scripts.append(evs)
                kindss.append(kinds)
                lates.append(lk)
                if not ok or isinstance(modes[k], tuple):
                    break
                if k == 1:
                    self.has_session = True
                if k == 2:
                    self.activated = True
        st = {'establish': {'priv': priv}, 'scripts': scripts, 'kinds': kindss, 'late': lates}
        if ping != 'pong':
            st['ping'] = ping
        if not ponged:
            st['ping-fails'] = 1
        self.steps.append(st)

    def close(self, late=(), mode='ok'):
        scripts, kindss, lates = [], [], []
        if self.has_session and self.activated:
            evs, kinds, ok = self._script(hs_req(0x3c), bytes([0]), list(late), mode)
            scripts, kindss, lates = [evs], [kinds], [list(late)]
            if ok and not isinstance(mode, tuple):
                self.activated = False
        self.steps.append({'close': 1, 'scripts': scripts, 'kinds': kindss, 'late': lates})


PLAIN_REQS = [{'rs_sa': 0x20, 'netfn': 6, 'lun': 0, 'cmd': 1, 'payload': ''},
              {'rs_sa': 0x20, 'netfn': 6, 'lun': 0, 'cmd': 0x38, 'payload': '0e04'},
              {'rs_sa': 0x20, 'netfn': 0x0a, 'lun': 0, 'cmd': 0x23, 'payload': '0000'},
              {'rs_sa': 0x82, 'netfn': 0x2c, 'lun': 0, 'cmd': 0x34, 'payload': '00'}]


def gen_rmcp_reestablish(ctx, judge):
    """directed: a connection attempt fails at request `failk` of the handshake (no answer within the budget); the
    application calls establish_session again on the same interface object (another privilege level, a BMC that offers
    other authentication types for it); the LATE reply to the unanswered request - and to others of the first attempt -
    arrives after request `j` of the new handshake has been sent (the drain before a request cannot remove it), in front
    of the genuine reply; then a request, close_session and a sessionless request, each with a late reply from before."""
    i = 0
    for seq0 in (0, 63, 59, 7):
        for mr in (0, 1, 2):
            for failk in (0, 1, 2, 3):
                for j in (0, 1, 2, 3):
                    for nlate in sorted(set((1, mr))):
                        i += 1
                        h = Hist(seq0, mr)
                        if i % 3 == 0:
                            h.request(PLAIN_REQS[i % 4], bytes([0, i & 0xff]))
                        modes = ['ok'] * 4
                        modes[failk] = 'silent'
                        first = len(h.made)
                        h.establish(4, CAPS[i % len(CAPS)], 0x40 + i, modes)
                        failed = len(h.made) - 1                    # the request that got no answer
                        late = [h.late_of(failed)] + [h.late_of(first + (i + x) % (failed - first + 1)) for x in range(nlate - 1)]
                        h.establish(2 + i % 3, CAPS[(i + 1) % len(CAPS)], 0x80 + i, ['ok'] * 4, {j: late[:nlate]})
                        last = len(h.made) - 1
                        h.request(PLAIN_REQS[(i + 1) % 4], bytes([0, 0xa0, i & 0xff]), [h.late_of(last)][:mr])
                        h.close([h.late_of(failed)][:mr])
                        h.request(PLAIN_REQS[(i + 2) % 4], bytes([0, 0xb0, i & 0xff]), [h.late_of(len(h.made) - 1)][:mr])
                        judge.add(h.case())
                        ctx.count('gen:rmcp-reestablish')
    # a plain request that times out, its reply arrives during the handshake that follows; a session that is closed
    # and opened again; two opens without a close in between
    for seq0 in (0, 63, 62, 61, 60, 31):
        for mr in (1, 2):
            for j in (0, 1, 2, 3):
                i += 1
                h = Hist(seq0, mr)
                h.request(PLAIN_REQS[i % 4], bytes([0, 0x11, i & 0xff]), mode='silent')
                h.establish(4, CAPS[i % len(CAPS)], i, ['ok'] * 4, {j: [h.late_of(0)]})
                h.request(PLAIN_REQS[(i + 1) % 4], bytes([0, 0x22]), [h.late_of(1 + j)])
                if i % 2:
                    h.close([h.late_of(len(h.made) - 1)])
                h.establish(3, CAPS[(i + 2) % len(CAPS)], i + 9, ['ok', 'retry-ok', 'ok', 'ok'], {(j + 1) % 4: [h.late_of(1 + j)]})
                h.request(PLAIN_REQS[(i + 2) % 4], bytes([0, 0x33]), [h.late_of(len(h.made) - 4)])
                h.close()
                h.close()
                judge.add(h.case())
                ctx.count('gen:rmcp-reopen')
    # the presence ping is not answered / an error completion code ends the handshake: the next attempt starts where
    # the counter stands
    for seq0 in (0, 63):
        for k in range(4):
            i += 1
            h = Hist(seq0, 1)
            modes = ['ok'] * 4
            modes[k] = ('cc', (0x81, 0xd4, 0xc1, 0xcc)[k])
            h.establish(4, 0x01, i, modes)
            h.establish(4, 0x01, i + 5, ['ok'] * 4, ping='lost')
            h.establish(4, 0x04, i + 9, ['ok'] * 4, {0: [h.late_of(0)]})
            h.request(PLAIN_REQS[0], bytes([0, 0x44]), [h.late_of(k)])
            judge.add(h.case())
            ctx.count('gen:rmcp-handshake-refused')


def gen_rmcp_ops_random(ctx, judge, rng, n):
    """seeded random histories of 2-7 operations {request, establish_session (un-faulted / silence or an error completion
    code at a random request), close_session}, with up to `max_retries` (sometimes one more) late replies to any of the
    last five requests in front of what a request is answered with"""
    for _ in range(n):
        h = Hist(rng.choice([0, 0, 1, 58, 60, 61, 62, 63, rng.randrange(64)]), rng.choice([0, 1, 1, 2, 3]))

        def lates():
            if not h.made or rng.random() < 0.35:
                return []
            k = rng.randrange(0, h.mr + 1) if rng.random() < 0.85 else h.mr + 1
            return [h.late_of(rng.randrange(max(0, len(h.made) - 5), len(h.made))) for _x in range(k)]

        for _k in range(rng.randrange(2, 8)):
            r = rng.random()
            if r < 0.4:
                req = rng.choice(PLAIN_REQS) if rng.random() < 0.6 else _rand_req(rng, routing=False)
                h.request(req, _data(rng) + bytes([len(h.made) & 0xff]), lates(),
                          rng.choice(['ok', 'ok', 'ok', 'silent', 'retry-ok']))
            elif r < 0.8:
                modes = ['ok'] * 4
                if rng.random() < 0.5:
                    modes[rng.randrange(4)] = rng.choice(['silent', 'silent', 'retry-ok', ('cc', rng.choice([0x81, 0xc1, 0xd4, 0xcc]))])
                late = dict((k, lates()) for k in range(4) if rng.random() < 0.5)
                h.establish(rng.choice([2, 3, 4]), rng.choice(CAPS), rng.randrange(256), modes, late,
                            'lost' if rng.random() < 0.05 else 'pong')
            else:
                h.close(lates(), rng.choice(['ok', 'ok', 'silent']))
        judge.add(h.case())
        ctx.count('gen:rmcp-ops-random')


DT_PATTERNS = [(1, 1, 1, 1, 1, 1), (5, 5, 5, 5, 5, 5), (8, 7, 1, 1, 1, 1), (16, 1, 15, 1, 20, 3)]


def gen_i2c_exhaustive(ctx, judge, tr, maxlen):
    i = 0
    for n in range(maxlen + 1):
        for kinds in itertools.product(I2C11, repeat=n):
            for dts in (DT_PATTERNS if n else DT_PATTERNS[:1]):
                i += 1
                seq0 = (i * 11) % 64
                req = _std_req(i)
                case = {'transport': tr, 'cfg': {}, 'seq0': seq0,
                        'steps': [_i2c_step(kinds, dts, req, seq0, b'\x00\x11\x22')]}
                judge.add(case)
                ctx.count('gen:%s-exh' % tr)


def i2c_routing(rng, rs_sa, depth):
    """a path of `depth` hops from the interface (slave address 20h) to `rs_sa`: one hop = the target sits on the
    local bus (the hop names the interface's and the target's address); more = it is reachable only through bridges"""
    via = [(0x20, 0x82, 7), (0x20, 0x8e, 2), (0x20, 0x90, 0)][:depth - 1]
    return [list(h) for h in via] + [[0x20, rs_sa, None]]


def gen_i2c_random(ctx, judge, rng, tr, n):
    alpha = [k for k in I2C_EXT if not (tr == 'aardvark' and k in ('Lmatch', 'empty'))]
    refuse = judge.variant['refuse'][tr]
    for _ in range(n):
        seq0 = rng.choice([0, 62, 63, rng.randrange(64)])
        steps, pre = [], seq0
        for si in range(rng.choice([1, 1, 1, 2, 3, 4])):
            req = _rand_req(rng, routing=False)
            req['rs_sa'] &= 0xfe
            probe = rng.random() < 0.25
            if probe:
                req = dict(PROBE_REQ, rs_sa=req['rs_sa'])
            if rng.random() < 0.2:
                req['routing'] = i2c_routing(rng, req['rs_sa'], rng.choice((1, 2, 2, 3, 4)))
            kinds = [rng.choice(alpha) for _ in range(rng.randrange(0, 8))]
            if rng.random() < 0.4:
                kinds = [rng.choice(['stale', 'stale32', 'cmd', 'lun', 'pay', 'both', 'bothnc', 'I', 'E']) for _ in range(rng.randrange(0, 4))] + ['match']
            dts = [rng.choice([0, 1, 2, 3, 5, 8, 15, 16, 17, 40]) for _ in kinds]
            step = _i2c_step(kinds, dts, req, pre, _data(rng))
            if probe:
                step = {'probe': req['rs_sa'], 'kinds': step['kinds'], 'events': step['events']}
                if req.get('routing'):
                    step['routing'] = req['routing']
            steps.append(step)
            if not (refuse and len(req.get('routing') or []) > 1):
                pre = (pre + 1) % 64         # a refused request does not use a sequence number up
        judge.add({'transport': tr, 'cfg': {}, 'seq0': seq0, 'steps': steps})
        ctx.count('gen:%s-random' % tr)


def gen_i2c_routed(ctx, judge, tr):
    """directed: a target behind 1..3 bridges among ordinary requests on one interface object - request / probe for
    the routed target (a matching reply from whoever owns that address on the LOCAL bus is ready), then a request for
    a target on the local bus whose reply arrives: it must be answered whatever happened before"""
    refuse = judge.variant['refuse'][tr]
    local = {'rs_sa': 0x82, 'netfn': 6, 'lun': 0, 'cmd': 1, 'payload': ''}
    for seq0 in (0, 62, 63):
        for depth in (1, 2, 3, 4):
            for probe in (False, True):
                for first in (True, False):
                    far = {'rs_sa': 0x72, 'netfn': 6, 'lun': 0, 'cmd': 1, 'payload': '', 'routing': i2c_routing(None, 0x72, depth)}
                    steps, pre = [], seq0
                    if not first:
                        steps.append(_i2c_step(['match'], (2,), local, pre, b'\x00\x82'))
                        pre = (pre + 1) % 64
                    st = _i2c_step(['match'], (2,), far, pre, b'\x00\x72')
                    if probe:
                        st = {'probe': 0x72, 'routing': far['routing'], 'kinds': st['kinds'], 'events': st['events']}
                    steps.append(st)
                    if not (refuse and depth > 1):
                        pre = (pre + 1) % 64
                    steps.append(_i2c_step(['stale', 'match'], (1, 2), local, pre, b'\x00\x83'))
                    judge.add({'transport': tr, 'cfg': {}, 'seq0': seq0, 'steps': steps})
                    ctx.count('gen:%s-routed' % tr)


def gen_i2c_probes(ctx, judge, tr):
    """directed: `is_ipmc_accessible` as a request among requests - after a request whose reply came late (the late
    copy is the first thing the probe reads), after another probe, before a request"""
    gdi = dict(PROBE_REQ, rs_sa=0x82)
    other = {'rs_sa': 0x82, 'netfn': 0x0a, 'lun': 0, 'cmd': 0x10, 'payload': ''}
    i = 0
    for seq0 in (0, 5, 62, 63):
        for first in (gdi, other):
            for late in (True, False):
                for target in (0x82, 0x84):
                    i += 1
                    s1 = _i2c_step(['I', 'match'], (0, 2), first, seq0, b'\x00\x82\x00\x01')
                    # the probe: the late copy of the reply to request 1 (sequence number of request 1) arrives, nobody
                    # answers the probe itself
                    pk = (['stale'] if late else []) + ['I']
                    p1 = _i2c_step(pk, (3, 0)[:len(pk)], dict(PROBE_REQ, rs_sa=target), (seq0 + 1) % 64, b'\x00\x82\x00\x01')
                    p2 = _i2c_step(['match'], (2,), dict(PROBE_REQ, rs_sa=target), (seq0 + 2) % 64, b'\x00\x84')
                    s4 = _i2c_step(['stale', 'match'], (1, 2), other, (seq0 + 3) % 64, b'\x00\x55')
                    steps = [s1, {'probe': target, 'kinds': p1['kinds'], 'events': p1['events']},
                             {'probe': target, 'kinds': p2['kinds'], 'events': p2['events']}, s4]
                    judge.add({'transport': tr, 'cfg': {}, 'seq0': seq0, 'steps': steps})
                    ctx.count('gen:%s-probe' % tr)


def gen_field_sweep(ctx, judge):
    """Every single-field mismatch on its own: one frame that differs from the reply in exactly one
    header field or checksum (all 63 other sequence numbers, 3 LUNs, 63 netFns, 254 commands, 255 wrong
    values of each checksum) and every frame with BOTH checksums invalid by cancelling amounts (255 values of
    d x 4 places of the second damaged byte), followed by the reply; retry budget 1 (RMCP)."""
    reqs = [{'rs_sa': 0x20, 'netfn': 6, 'lun': 0, 'cmd': 1, 'payload': ''},
            {'rs_sa': 0x82, 'netfn': 0x2c, 'lun': 2, 'cmd': 0xa5, 'payload': '00'}]
    for tr in ('rmcp', 'ipmbdev', 'aardvark'):
        for ri, req in enumerate(reqs):
            seq0 = 40 if ri else 0
            seq = (seq0 + 1) % 64
            variants = ['seq:%d' % v for v in range(64) if v != seq]
            variants += ['lun:%d' % v for v in range(4) if v != req['lun']]
            variants += ['netfn:%d' % v for v in range(64) if v != req['netfn'] + 1]
            variants += ['cmd:%d' % v for v in range(256) if v != req['cmd']]
            variants += ['chk1:%d' % v for v in range(1, 256)]
            variants += ['chk2:%d' % v for v in range(1, 256)]
            # both checksums damaged by amounts that cancel: header checksum +d, one byte of the payload part -d
            # (responder address, completion code, last data byte, the payload checksum itself), every d
            variants += ['cancel:%d:%d' % (v, w) for v in range(1, 256) for w in (3, 6, -2, -1)]
            for v in variants:
                if tr == 'rmcp':
                    case = {'transport': tr, 'cfg': {'mr': 1, 'igs': 0, 'igl': 0}, 'seq0': seq0,
                            'steps': [_rmcp_step([v, 'match'], req, seq0, b'\x00\x5a')]}
                else:
                    case = {'transport': tr, 'cfg': {}, 'seq0': seq0,
                            'steps': [_i2c_step([v, 'match'], (2, 3), req, seq0, b'\x00\x5a')]}
                judge.add(case)
                ctx.count('gen:%s-field-sweep' % tr)


# =============================================================== schedules (the property's quantifier names them)
THREAD_CFGS = [([(1, 1), (1, 1)], 0, 0), ([(1, 1)], 1, 0), ([(2, 1), (1, 1)], 0, 1)]


def _threads_judge(cfg, out):
    """-> [(signature, what, expected, observed)] for one schedule of real threads sharing one Rmcp object"""
    from . import c14
    res = []
    dup = c14._dup_rq(out)
    if dup:
        res.append((SIG_SEQ % 'rmcp' + ':threads',
                    'two consecutive requests - of threads %s and %s - carry the same sequence number on the wire '
                    '(the counter is advanced and read outside the transaction lock)' % (dup[0][0], dup[0][2]),
                    'every transmitted request carries a sequence number different from the one before it',
                    'wire (T:thread:datagram:session seq:rq_seq:cmd) %s' % ' '.join(w for w in out.wire if w[0] == 'T')))
    bad = c14._wrong_replies(out)
    if bad:
        res.append((SIG_ATTR % 'rmcp' + ':late-reply:threads',
                    'the late reply to an earlier request is returned as the answer: ' + ', '.join(
                        'thread %d sent datagram %s and was handed the reply to datagram %d' % b for b in bad),
                    'the reply to its own request, or an error', ' '.join(c14._res_tokens(out.results))))
    return res


def gen_rmcp_threads(ctx, budget_s):
    """Two or three real threads (the second one can be the interface's own keep-alive) on ONE real Rmcp under the
    deterministic scheduler of harness/sim/sched.py, every schedule with <= 2 preemptions at shared-access
    granularity (every load / store of next_sequence_number is a scheduling point) - "A increments, B increments, B
    reads, A reads" among them - together with one late reply (the reply to one datagram arrives only after the
    next datagram was sent)."""
    import time
    from . import c14
    from ..sim import sched as S
    t_end = time.time() + budget_s
    seen = set()
    for i, (workers, ka, late) in enumerate(THREAD_CFGS):
        cfg = c14._cfg(workers, ka, 'none', 0x50 + i, [4, 63, 0][i % 3], 'access')
        cfg['late'] = late

        def ex(prefix, cfg=cfg):
            out = c14.execute(cfg, S.ReplayPolicy(prefix), record=True)
            ctx.case(('threads', repr(sorted(cfg.items())), tuple(out.choices)), nontrivial=len(out.choices) > 0)
            ctx.count('gen:rmcp-threads')
            if out.status != 'complete':
                ctx.disagree('scheduler (C04 threads stream)', {'cfg': cfg}, 'complete', out.status)
                return None
            for sig, what, exp, obs in _threads_judge(cfg, out):
                if sig not in seen:
                    seen.add(sig)
                    ctx.violate(sig, what, {'transport': 'rmcp-threads', 'cfg': cfg, 'choices': S.rle(out.choices)},
                                expected=exp, observed=obs)
            return out.record
        S.explore(ex, 2 if ctx.tier == 'quick' else 3, limit=3000 if ctx.tier == 'quick' else 40000,
                  should_stop=lambda: time.time() > t_end or len(seen) >= 2)


# =============================================================== which variant does the tree implement?
# the witnesses of the counter-example theorems of Props/C04.lean, run on the real code

def witness_case():
    """finds_match_after_noise_requeue_counterexample / no_poisoning_requeue_counterexample (before fixes/C04-1)"""
    req = {'rs_sa': 0x20, 'netfn': 6, 'lun': 0, 'cmd': 1, 'payload': ''}
    return {'transport': 'rmcp', 'cfg': {'mr': 1, 'igs': 0, 'igl': 0}, 'seq0': 0,
            'steps': [_rmcp_step(['stale', 'match'], req, 0, b'\x00\xaa\xbb'),
                      _rmcp_step(['match'], req, 1, b'\x00\xcc')]}


def witness_cmd34():
    """un-bridged HPM.1 Get Upgrade Status (2Ch/34h): as shipped its reply is taken for a Send Message response"""
    req = {'rs_sa': 0x20, 'netfn': 0x2c, 'lun': 0, 'cmd': 0x34, 'payload': ''}
    return {'transport': 'rmcp', 'cfg': {'mr': 0, 'igs': 0, 'igl': 0}, 'seq0': 0,
            'steps': [_rmcp_step(['match'], req, 0, b'\x00\x00\x33')]}


def witness_late_ack():
    """late_ack_asShipped_counterexample: the failing acknowledgement of an earlier transaction, request not bridged"""
    req = {'rs_sa': 0x20, 'netfn': 6, 'lun': 0, 'cmd': 1, 'payload': ''}
    return {'transport': 'rmcp', 'cfg': {'mr': 1, 'igs': 0, 'igl': 0}, 'seq0': 1,
            'steps': [_rmcp_step(['lateackcc', 'match'], req, 1, b'\x00\xcc')]}


def witness_leftover():
    """no_poisoning_asShipped_counterexample: the reply to request 1 is delivered twice, max_retries = 0"""
    req = {'rs_sa': 0x20, 'netfn': 6, 'lun': 0, 'cmd': 1, 'payload': ''}
    return {'transport': 'rmcp', 'cfg': {'mr': 0, 'igs': 0, 'igl': 0}, 'seq0': 0,
            'steps': [_rmcp_step(['match', 'match'], req, 0, b'\x00\xaa'),
                      _rmcp_step(['match'], req, 1, b'\x00\xcc'),
                      _rmcp_step(['match'], req, 2, b'\x00\xdd')]}


def witness_probe(tr):
    """probe_reuses_seq_asShipped_counterexample: request, then is_ipmc_accessible; the late reply to the request
    is the only thing the probe reads"""
    req = dict(PROBE_REQ, rs_sa=0x82)
    s1 = _i2c_step(['match'], (2,), req, 0, b'\x00\x82')
    p = _i2c_step(['stale', 'I'], (2, 0), dict(PROBE_REQ, rs_sa=0x84), 1, b'\x00\x82')
    return {'transport': tr, 'cfg': {}, 'seq0': 0,
            'steps': [s1, {'probe': 0x84, 'kinds': p['kinds'], 'events': p['events']}]}


def witness_routed(tr):
    """the example of Props.C04 / Props.C09.i2c_routing_ignored_asShipped_counterexample: Get Device ID for the MMC at
    72h behind the carrier IPMC 82h (bridge channel 7); whoever owns 72h on the local bus answers"""
    req = dict(PROBE_REQ, rs_sa=0x72, routing=[[0x20, 0x82, 7], [0x20, 0x72, None]])
    return {'transport': tr, 'cfg': {}, 'seq0': 0, 'steps': [_i2c_step(['match'], (2,), req, 0, b'\x00\x72')]}


def probe_variant():
    """-> {'requeue', 'cmdOnly', 'drain', 'inc'} (0/1) and {'refuse': {transport: 0/1}} of the working tree, as
    Loops.Cfg / i2cProbe / I2cCfg.refuseRouted name them"""
    v = {}
    res = run_real(witness_case())
    v['requeue'] = 1 if (res[0]['out'][0] == 'RetryError' and res[0]['queue']) else 0
    v['cmdOnly'] = 0 if run_real(witness_cmd34())[0]['out'][0] == 'ok' else 1
    v['drain'] = 1 if run_real(witness_leftover())[1]['out'][0] == 'ok' else 0
    res = run_real(witness_probe('ipmbdev'))
    v['inc'] = 1 if _wire_seq(res[1]) != _wire_seq(res[0]) else 0
    v['refuse'] = {}
    for tr in ('ipmbdev', 'aardvark'):
        r = run_real(witness_routed(tr))[0]
        v['refuse'][tr] = 1 if (r['out'][0] == 'NotSupportedError' and not r['tx']) else 0
    return v


VARIANT_NAMES = {'requeue': ('unmatched frame dropped', 'unmatched frame put back into _q (before fixes/C04-1)'),
                 'cmdOnly': ('Send Message response recognised by rx_filter against the outstanding request',
                             'every frame with byte 5 = 34h unwrapped (before fixes/C09-1)'),
                 'drain': ('no drain: unread datagrams stay in the socket (before fixes/C04-3)',
                           'stale datagrams discarded before a request is sent'),
                 'inc': ('is_ipmc_accessible reuses the previous sequence number (before fixes/C04-4)',
                         'is_ipmc_accessible advances the sequence number'),
                 'refuse': ('Target.routing ignored: a routed request goes un-bridged to the local bus (before fixes/C09-2)',
                            'a target behind a bridge is refused (NotSupportedError, nothing written)')}


def _variant_names(variant):
    out = {}
    for k, v in variant.items():
        if isinstance(v, dict):
            for tr, x in v.items():
                out['%s:%s' % (k, tr)] = VARIANT_NAMES[k][x]
        else:
            out[k] = VARIANT_NAMES[k][v]
    return out


# =============================================================== entry points
def _corpus():
    cases = [witness_case(), witness_cmd34(), witness_late_ack(), witness_leftover(), witness_probe('ipmbdev'),
             witness_probe('aardvark'), witness_routed('ipmbdev'), witness_routed('aardvark')]
    # Appendix-B style directed cases: filter says no but data returned; acknowledgements counted
    req = {'rs_sa': 0x20, 'netfn': 6, 'lun': 0, 'cmd': 1, 'payload': ''}
    breq = dict(req, rs_sa=0x82, routing=[[0x81, 0x20, 0], [0x20, 0x82, None]])
    for mr in (0, 1, 2):
        cases.append({'transport': 'rmcp', 'cfg': {'mr': mr, 'igs': 0, 'igl': 0}, 'seq0': 3,
                      'steps': [_rmcp_step(['ack'] * (mr + 2) + ['match'], breq, 3, b'\x00\x01')]})
        cases.append({'transport': 'rmcp', 'cfg': {'mr': mr, 'igs': 0, 'igl': 0}, 'seq0': 63,
                      'steps': [_rmcp_step(['cmd'] * mr + ['match'], req, 63, b'\x00\x02'),
                                _rmcp_step(['stale'] * mr + ['match'], req, 0, b'\x00\x03')]})
    return cases


def run(ctx):
    drv = ctx.driver('drv_c04')
    variant = probe_variant()
    ctx.extra['source_variant'] = _variant_names(variant)
    judge = Judge(ctx, drv, variant)
    if _gen:
        c = dict(p.split('=') for p in drv.ask('consts').split())
        if int(c['send']) != _gen['cmdSendMessage'] or int(c['mod']) != _gen['rmcpSeqMod'] or \
                int(c['app']) != _gen['netfnApp']:
            ctx.disagree('generated constants', {}, str(c), str(_gen))
    rng = ctx.rng('c04')
    quick = ctx.tier == 'quick'
    for case in _corpus():
        judge.add(case)
        ctx.count('gen:corpus')
    gen_rmcp_leftovers(ctx, judge)
    gen_rmcp_bridging(ctx, judge, ctx.rng('c04-bridging'))
    gen_rmcp_reestablish(ctx, judge)
    gen_rmcp_ops_random(ctx, judge, ctx.rng('c04-ops'), 400 if quick else 8000)
    for tr in ('ipmbdev', 'aardvark'):
        gen_i2c_probes(ctx, judge, tr)
        gen_i2c_routed(ctx, judge, tr)
    gen_rmcp_threads(ctx, 6 if quick else 40)
    gen_field_sweep(ctx, judge)
    gen_rmcp_exhaustive(ctx, judge, 4 if quick else 5, (0, 1, 2, 3), BASE11)
    for q in ((1, 0), (0, 1), (1, 1)):
        gen_rmcp_exhaustive(ctx, judge, 3, (0, 1, 2, 3), BASE11 + ['Lmatch', 'Lstale'], quirks=q, tag='quirks')
    gen_rmcp_random(ctx, judge, rng, 3000 if quick else 40000)
    gen_rmcp_sessions(ctx, judge, rng, 1500 if quick else 20000)
    for tr in ('ipmbdev', 'aardvark'):
        gen_i2c_exhaustive(ctx, judge, tr, 3 if quick else 4)
        gen_i2c_random(ctx, judge, rng, tr, 1500 if quick else 20000)
    judge.flush()
    if not quick:
        # length-6 orderings while time remains (one budget, then all)
        for mr in (2, 0, 1, 3):
            if ctx.time_left() < 480:
                ctx.notes.append('length-6 enumeration: stopped before max_retries=%d (time budget)' % mr)
                break
            i = 0
            for kinds in itertools.product(BASE9, repeat=6):
                i += 1
                seq0 = (i * 7) % 64
                judge.add({'transport': 'rmcp', 'cfg': {'mr': mr, 'igs': 0, 'igl': 0}, 'seq0': seq0,
                           'steps': [_rmcp_step(kinds, _std_req(i), seq0, b'\x00\xaa\xbb')]})
                ctx.count('gen:rmcp-exh6')
            judge.flush()
    judge.flush()
    samples = _corpus()[:4]
    for c in samples:
        ctx.sample({'case': _mini(c, len(c['steps']) - 1), 'real': [real_line(c, r) for r in run_real(c)]})


def search(ctx):
    """The property clauses are judged on the real code for every generated case in `run`;
    when only the tie broke, look further with longer random sessions judged by the Spec
    oracle alone (no model involved)."""
    try:
        drv = ctx.driver('drv_c04')
    except lean.LeanError:
        ctx.notes.append('search: no driver (Spec oracle unavailable)')
        return
    rng = ctx.rng('c04-search')
    judge = Judge(ctx, drv, probe_variant())
    keep = ctx.disagreements
    ctx.disagreements = []
    try:
        gen_rmcp_leftovers(ctx, judge)
        gen_rmcp_bridging(ctx, judge, rng)
        gen_rmcp_reestablish(ctx, judge)
        gen_rmcp_ops_random(ctx, judge, rng, 1500)
        gen_rmcp_sessions(ctx, judge, rng, 3000)
        gen_rmcp_random(ctx, judge, rng, 3000)
        for tr in ('ipmbdev', 'aardvark'):
            gen_i2c_probes(ctx, judge, tr)
            gen_i2c_routed(ctx, judge, tr)
            gen_i2c_random(ctx, judge, rng, tr, 1500)
        judge.flush()
    finally:
        ctx.disagreements = keep


def replay(ctx, v):
    case = v['case']
    if case.get('transport') == 'rmcp-threads':
        from . import c14
        from ..sim import sched as S
        cfg = case['cfg']
        out = c14.execute(cfg, S.ReplayPolicy(S.unrle(case['choices'])))
        print('real threads on one Rmcp object: %s; the reply to datagram %s is delivered late' % (cfg, cfg.get('late')))
        print('  wire log (T:tid:serial:session_seq:rq_seq:cmd / R:tid:serial): ' + ' '.join(out.wire))
        print('  results (tid:sent:got): ' + ' '.join(c14._res_tokens(out.results)))
        print('  accesses (tid:event): ' + ' '.join(out.trace))
        bad = False
        for sig, what, exp, obs in _threads_judge(cfg, out):
            print('  VIOLATES %s: %s' % (sig, what))
            if sig == v.get('signature'):
                bad = True
        return bad
    drv = ctx.driver('drv_c04')
    judge = Judge(ctx, drv, probe_variant())
    res = run_real(case)
    bad = False
    print('transport %s cfg %s seq0 %d' % (case['transport'], case['cfg'], case['seq0']))
    flat = flatten(case, res)
    last_op = None
    for si, (osi, st, r) in enumerate(flat):
        if st.get('op') and last_op != osi:
            last_op = osi
            print(' step %d: %s(%s) -> %s' % (osi, st['op'], case['steps'][osi].get('establish') or '',
                                              ' '.join(str(x) for x in res[osi]['out'])[:80]))
        if si > 0 and (r['pre_seq'] != flat[si - 1][2]['seq']):
            print('   (next_sequence_number was %d after the previous request and is %d now)' % (flat[si - 1][2]['seq'], r['pre_seq']))
        req = _step_req(st)
        rid = _req_id(req, (r['pre_seq'] + 1) % 64)
        cs = 0 if (case['transport'] == 'rmcp' and case['cfg'].get('igs')) else 1
        oracle = nolate = None
        if r['out'][0] == 'ok' and 'probe' not in st:
            recv = [lean.hexs(x) for x in r['pre_q']] + [f or '-' for f in _frames_seen(case, st, r)]
            oracle = drv.ask('oracle %d %d %d %d %d %s' % (cs, rid[0], rid[1], rid[2], rid[3], ' '.join(recv)))
            late = st.get('late') or []
            if late and any(f in late for f in recv):
                nolate = drv.ask('oracle %d %d %d %d %d %s' % (cs, rid[0], rid[1], rid[2], rid[3],
                                                               ' '.join(f for f in recv if f not in late)))
        print(' request %d %s%s%s' % (si, 'is_ipmc_accessible ' if 'probe' in st else
                                      ('[request %d of %s] ' % (st['k'] + 1, st['op'])) if st.get('op') else '', req,
                                      '  -> refused, nothing written' if refused(case['transport'], req, r) else ''))
        if case['transport'] == 'rmcp':
            print('   in the socket at the start: %s' % (r['pre_sock'] or 'nothing'))
        print('   arrives   %s' % st['events'])
        print('   real code %s' % real_line(case, r))
        late_seen = [f for f in _frames_seen(case, st, r) if f in (st.get('late') or [])]
        if late_seen:
            print('   of these, late replies to earlier requests: %s' % late_seen)
        for sig, what, exp, obs in judge_step(case, si, st, r, oracle, judge._cls, nolate):
            print('   VIOLATES %s: %s' % (sig, what))
            print('     expected %s' % exp)
            print('     observed %s' % obs)
            if sig == v.get('signature'):
                bad = True
        ws = _wire_seq(r)
        if si > 0 and ws is not None and ws == _wire_seq(flat[si - 1][2]):
            sig = _sig_wire(case['transport'], st)
            print('   VIOLATES %s: %s' % (sig, _what_wire(flat, si)))
            if sig == v.get('signature'):
                bad = True
    return bad
