"""C03 — IPMB frames carry valid checksums; the reply filter passes only intact matches."""
import collections

from ..lib import lean, rng as rnglib
from ..sim import transport04 as T
from ..translate import ipmb as tr

ID = 'C03'
TARGETS = ['PyIpmi.Props.C03', 'drv_c03']
LEVEL = 'proof'
RULE = ('transmit side: boundary + seeded request headers (6-bit netfn, 2-bit LUNs, 6-bit seq, 8-bit addresses/cmd) x '
        'payloads 0..64 bytes (thorough also 255, 1024) go through the real IpmbHeaderReq.encode / encode_ipmb_msg and '
        'the Lean model; the real frame is parsed by the Lean specification (Spec.Wire.parseReq, sum8).  Receive side: '
        'for sampled requests the reply of the specification figure (Spec.Wire.mkReply) and, one at a time, a reply with '
        'one field of the figure changed (netfn: request\'s own / other odd / other even, cmd, each LUN, seq, each '
        'address), a bad header checksum, a bad payload checksum, frames of 0..7 bytes, each under all 32 flag '
        'settings; every single-byte corruption (255 x len) of sampled accepted replies.  Real rx_filter vs Lean model '
        '(tie) and vs Spec.Wire.isReplyTo (property).  Histories: the filter has no memory in the property, so every '
        'frame is judged on its own although all frames go through rx_filter in ONE process; each reported case '
        'carries the frames that went through the filter before it (replayed in order).  Directed sequences through '
        'one long-lived request-header object: intact match / one-field mismatches / checksum faults, each followed '
        'by runt frames of 0..5 bytes (prefixes of the reply and runts whose byte sums are zero), then the intact '
        'match again, under default / all / random flags.  Transmit side: every header also through one long-lived '
        'IpmbHeaderReq object whose fields are re-assigned (same frame as from a fresh object demanded).  '
        'Through the LAN transport (the only caller that may take a frame apart BEFORE rx_filter sees it): replies of '
        'the specification to a Get-Device-ID-like, an HPM.1 2Ch/34h and a seeded request - plain (request not bridged) '
        'and inside 1..3 Send Message responses (routing depth 2..4) - are handed to the real '
        'Rmcp.send_and_receive_raw over a fake socket intact (must be returned) and with EVERY single-byte corruption '
        '(255 x len, every wrapper byte included; thorough: more frames): the damaged frame must be rejected - no '
        'data, no CompletionCodeError / IndexError out of it.  '
        'Response frames the library transmits: for boundary + seeded + directed (all 32 even netFn, all 16 LUN pairs, '
        'sequence numbers 0/1/62/63) request headers x bodies (completion code + 0..64 data bytes) the real '
        'IpmbHeaderRsp().from_req_header(request header) + encode_ipmb_msg - the request header set attribute by '
        'attribute and decoded by IpmbHeaderReq(data=<request frame of the specification, Spec.Wire.mkRequest>) - is '
        'compared with the Lean model (assignments of from_req_header / byte list of IpmbHeaderRsp.encode regenerated '
        'from the AST) and judged against the response frame of the figure (Spec.Wire.mkReply; the real frame is read '
        'back by Spec.Wire.parseRsp and given to the real rx_filter of that request); ONE IpmbHeaderRsp object '
        're-used for several requests; IpmbHeaderRsp objects filled in by hand through encode() / encode_ipmb_msg; '
        'out-of-range and odd-netFn request headers (tie only); Get Device ID requests with varied addresses, LUNs '
        'and sequence numbers through the library\'s BMC emulation (pyipmi.emulation.handle_rmcp_ipmi_msg): the '
        'header of the frame it transmits must be the response header to that request.  '
        'Distinct by (op, header, flags, bytes); non-trivial = non-empty payload / frame of >= 6 bytes.')
ASSUMPTIONS = [
    'the arithmetic of checksum / IpmbHeaderReq.encode / IpmbHeaderRsp.decode and the checks list of rx_filter are '
    'regenerated from the AST of the working tree every run (Gen/IpmbFilter.lean); the control flow around them '
    '(array(\'B\') overflow, IndexError on short frames, conjunction of the checks, encode_ipmb_msg assembling '
    'header+data+checksum(msg[3:])) is hand-written in Model/Ipmb.lean and tied by this correspondence run',
    'header fields are naturals in the model (negative attribute values are not generated)',
    'rx_filter_iff is stated for an outstanding request with an even netfn (a request)',
    'no transport passes rs_lun= to rx_filter (checked on the AST of pyipmi/interfaces/*.py each run)',
    'the filter model is a function of (request header, flags, frame) only: frames go through the real rx_filter in '
    'one process and each is compared with the model / judged by the specification on its own; a reported case '
    'carries the preceding calls (last 8 + earlier calls with the same frame bytes + its whole sequence)',
]
ASSUMPTIONS += [
    'the last clause (a reply with any single corrupted byte is rejected) is also judged where a received frame is '
    'looked at before rx_filter: the bridging branch of Rmcp._send_and_receive (modelled by Bridge.classifyRx of '
    'Model/Bridge.lean in two variants, as shipped / repaired; the variant the correspondence uses is probed on the real '
    'code with the witness of transport_corruption_asShipped_counterexample; the property is judged on the real code '
    'either way).  RMCP / session packing of the fake datagrams is not under test (authentication none); retry '
    'accounting is C04\'s (max_retries = 0: one frame, then silence)',
]
ASSUMPTIONS += [
    '"every IPMB frame the library transmits" is read to include the response frames of the library\'s own BMC '
    'emulation (pyipmi/emulation.py), built by IpmbHeaderRsp.from_req_header + IpmbHeaderRsp.encode + encode_ipmb_msg of '
    'the anchored file; "what it was asked to carry" for a response is the figure\'s response to the request '
    '(requester / responder address and LUN in their roles, netFn + 1, same sequence number and command, the body).  '
    'Which state of from_req_header (as shipped / intended, Ipmb.fromReqTable) the tree has is probed with the witness of '
    'response_frame_asShipped_counterexample and recorded; the correspondence uses the assignments read from the AST.  '
    'The emulation is driven below its RMCP layer (handle_rmcp_ipmi_msg, IPMI v1.5 session header, authentication none); '
    'its command handlers and the hand-patched invalid-command reply (_create_invalid_response) are not under test',
]
TRUSTED = ['harness/translate/ipmb.py', 'harness/props/c03.py', 'harness/sim/transport04.py (fake UDP socket)']

FIELDS = ('rs_sa', 'rs_lun', 'netfn', 'rq_sa', 'rq_lun', 'rq_seq', 'cmdid')
BITS = (8, 2, 6, 8, 2, 6, 8)
FLAGS = ('rq_sa', 'rs_sa', 'rq_lun', 'rs_lun', 'rq_seq')
DEFAULT_FLAGS = '00011'

def translate(ctx):
    tr.generate()


# ---------------------------------------------------------------------------------------
# real code
# ---------------------------------------------------------------------------------------

def _mk_header(vals):
    from pyipmi.interfaces.ipmb import IpmbHeaderReq
    h = IpmbHeaderReq()
    for k, v in zip(FIELDS, vals):
        setattr(h, k, v)
    return h


def _outcome(fn):
    """('ok', value) or (exception tag in the model's vocabulary,)"""
    try:
        return ('ok', fn())
    except Exception as e:  # noqa
        n = type(e).__name__
        return ({'DecodingError': 'DecodingError', 'EncodingError': 'EncodingError'}.get(n, 'py:' + n),)


def real_header(vals):
    r = _outcome(lambda: bytes(bytearray(_mk_header(vals).encode())))
    return 'ok ' + lean.hexs(r[1]) if r[0] == 'ok' else r[0]


def real_encode(vals, data):
    from pyipmi.interfaces.ipmb import encode_ipmb_msg
    r = _outcome(lambda: bytes(bytearray(encode_ipmb_msg(_mk_header(vals), data))))
    return 'ok ' + lean.hexs(r[1]) if r[0] == 'ok' else r[0]


# the rx_filter calls made so far in this process (most recent last): a reported case carries them,
# because the replay runs in a new process and the property gives the filter no memory
HISTORY = 8
_calls = []                                   # every (req, flags, frame) given to rx_filter in this process
_by_frame = collections.defaultdict(list)     # frame -> indices into _calls


def _history(n, frame, window=HISTORY):
    """of the first n calls of this process: the last `window` ones and (first and last 4 of) the earlier calls
    that were given the very same frame bytes"""
    same = [i for i in _by_frame.get(frame, ()) if i < n - window]
    if len(same) > 8:
        same = same[:4] + same[-4:]
    return tuple(_calls[i] for i in same) + tuple(_calls[max(0, n - window):n])


def real_filter(vals, flags, frame, header=None):
    from pyipmi.interfaces.ipmb import rx_filter
    kw = dict((k, c == '1') for k, c in zip(FLAGS, flags))
    if flags == DEFAULT_FLAGS:
        kw = {}          # exercise the keyword defaults themselves
    _by_frame[frame].append(len(_calls))
    _calls.append((vals, flags, frame))
    h = header if header is not None else _mk_header(vals)
    r = _outcome(lambda: rx_filter(h, frame, **kw))
    if r[0] != 'ok':
        return r[0]
    if r[1] is True:
        return 'ok 1'
    if r[1] is False:
        return 'ok 0'
    return 'py:not-a-bool:%r' % (r[1],)


def real_checksum(data):
    from pyipmi.interfaces.ipmb import checksum
    r = _outcome(lambda: checksum(list(data)))
    return str(r[1]) if r[0] == 'ok' else r[0]


def hs(vals):
    return ' '.join(str(v) for v in vals)


# ---------------------------------------------------------------------------------------
# generators
# ---------------------------------------------------------------------------------------

def gen_headers(rng, n, request=False):
    out = []
    corners = [tuple(0 for _ in BITS), tuple((1 << b) - 1 for b in BITS),
               (0x72, 0, 6, 0x20, 0, 2, 1), (0x20, 3, 0x2c, 0x81, 3, 63, 0xff), (0xff, 0, 63, 0, 3, 0, 0x34)]
    out += corners
    while len(out) < n:
        out.append(tuple(rnglib.boundary_int(rng, b) for b in BITS))
    if request:
        out = [h[:2] + (h[2] & 0x3e,) + h[3:] for h in out]
    return out[:n]


def gen_payload(rng, n):
    mode = rng.random()
    if mode < 0.15:
        return bytes([rng.choice((0, 0xff, 0x80, 0x7f))]) * n
    return bytes(rng.randrange(256) for _ in range(n))


def out_of_range_headers(rng, n):
    """at most one field beyond its width: overflow of array('B') or bleeding into the neighbour field"""
    out = []
    for _ in range(n):
        h = [rnglib.boundary_int(rng, b) for b in BITS]
        i = rng.randrange(len(BITS))
        h[i] = (1 << BITS[i]) + rng.choice((0, 1, 2, 3, (1 << BITS[i]) - 1, rng.randrange(1 << BITS[i])))
        out.append(tuple(h))
    return out


MISMATCH_KINDS = ('match', 'netfn-is-request', 'netfn-other-odd', 'netfn-other-even', 'cmd', 'rs_lun', 'rq_seq',
                  'rq_sa', 'rs_sa', 'rq_lun', 'hdr-checksum', 'payload-checksum', 'swapped-luns')


def reply_variants(rng, req):
    """(kind, header given to Spec.mkReply, netfn override, post-edit) — exactly one thing differs
    from the intact matching reply in each variant"""
    rs_sa, rs_lun, netfn, rq_sa, rq_lun, seq, cmd = req
    def other(v, bits):
        return (v + rng.randrange(1, 1 << bits)) % (1 << bits)
    out = [('match', req, None)]
    # mkReply adds 1 to the netfn it is given: pass netfn-1 style values through `netfn_out`
    out.append(('netfn-is-request', req, netfn))                      # reply carries the request's own (even) netfn
    odd = (netfn + 1 + 2 * rng.randrange(1, 32)) % 64
    out.append(('netfn-other-odd', req, odd))
    even = (netfn + 2 * rng.randrange(1, 32)) % 64
    out.append(('netfn-other-even', req, even))
    out.append(('cmd', (rs_sa, rs_lun, netfn, rq_sa, rq_lun, seq, other(cmd, 8)), None))
    out.append(('rs_lun', (rs_sa, other(rs_lun, 2), netfn, rq_sa, rq_lun, seq, cmd), None))
    out.append(('rq_seq', (rs_sa, rs_lun, netfn, rq_sa, rq_lun, other(seq, 6), cmd), None))
    out.append(('rq_sa', (rs_sa, rs_lun, netfn, other(rq_sa, 8), rq_lun, seq, cmd), None))
    out.append(('rs_sa', (other(rs_sa, 8), rs_lun, netfn, rq_sa, rq_lun, seq, cmd), None))
    out.append(('rq_lun', (rs_sa, rs_lun, netfn, rq_sa, other(rq_lun, 2), seq, cmd), None))
    if rs_lun != rq_lun:
        out.append(('swapped-luns', (rs_sa, rq_lun, netfn, rq_sa, rs_lun, seq, cmd), None))
    return out


ALL_FLAGS = ['%d%d%d%d%d' % (a, b, c, d, e) for a in (0, 1) for b in (0, 1) for c in (0, 1) for d in (0, 1) for e in (0, 1)]


# ---------------------------------------------------------------------------------------
# judging
# ---------------------------------------------------------------------------------------

def judge_checksum(ctx, drv, data, model=None):
    case = {'op': 'checksum', 'data': lean.hexs(data)}
    real = real_checksum(data)
    if model is not None and model != real:
        ctx.disagree('checksum', case, model, real)
    ok = real.isdigit() and 0 <= int(real) < 256 and (sum(data) + int(real)) % 256 == 0
    if not ok:
        ctx.violate('C03:checksum', 'checksum(data) does not make the byte sum zero modulo 256', case,
                    expected=str((-sum(data)) % 256), observed=real)
    return ok


def judge_encode(ctx, drv, vals, data, m_hdr=None, m_enc=None, spec_parse=None, spec_sums=None, in_range=True):
    """`spec_parse`/`spec_sums` are the Lean Spec's reading of the REAL frame (asked by the caller
    in a batch); when None they are asked here (replay)."""
    case = {'op': 'encode', 'hdr': list(vals), 'data': lean.hexs(data)}
    r_hdr = real_header(vals)
    r_enc = real_encode(vals, data)
    if m_hdr is not None and m_hdr != r_hdr:
        ctx.disagree('IpmbHeaderReq.encode', case, m_hdr, r_hdr)
    if m_enc is not None and m_enc != r_enc:
        ctx.disagree('encode_ipmb_msg', case, m_enc, r_enc)
    if not in_range:
        return True
    bad = False
    if not r_enc.startswith('ok '):
        ctx.violate('C03:encode-raises', 'encode_ipmb_msg raises on an in-range header', case,
                    expected='a frame', observed=r_enc)
        return False
    frame = r_enc[3:]
    if spec_sums is None:
        spec_sums = drv.ask('sums ' + frame)
    if spec_parse is None:
        spec_parse = drv.ask('parse ' + frame)
    s1, s2 = spec_sums.split()
    if s1 != '0':
        ctx.violate('C03:frame:header-checksum', 'bytes 0..2 of the transmitted frame do not sum to zero', case,
                    expected='sum8(frame[0:3]) = 0', observed='%s in %s' % (s1, frame))
        bad = True
    if s2 != '0':
        ctx.violate('C03:frame:payload-checksum', 'bytes 3.. of the transmitted frame do not sum to zero', case,
                    expected='sum8(frame[3:]) = 0', observed='%s in %s' % (s2, frame))
        bad = True
    want = 'some %s %s' % (hs(vals), lean.hexs(data))
    if not bad and spec_parse != want:
        ctx.violate('C03:frame:carries', 'a responder parsing the transmitted frame does not read the fields/data it '
                    'was asked to carry', case, expected=want, observed=spec_parse)
        bad = True
    if r_hdr != 'ok ' + frame[:12]:
        ctx.violate('C03:header-encode', 'IpmbHeaderReq.encode() is not the first six bytes of the frame', case,
                    expected=frame[:12], observed=r_hdr)
        bad = True
    return not bad


def _before(recent):
    return [[list(r), fl, lean.hexs(f)] for r, fl, f in recent]


def judge_filter(ctx, drv, req, flags, frame, kind, model=None, spec=None, header=None, before=0):
    """`header`: a long-lived request-header object to use (None: a fresh one); `before`: how many calls
    precede this one in its sequence (they all go into the reported case, + the HISTORY calls before them)"""
    n0 = len(_calls)
    real = real_filter(req, flags, frame, header)
    case = {'op': 'filter', 'req': list(req), 'flags': flags, 'frame': lean.hexs(frame), 'kind': kind}
    if real != 'ok 0' or spec == '1' or spec is None or model not in (None, real):
        # only a case that may be reported carries its history
        case['before'] = _before(_history(n0, frame, HISTORY + before))
        case['same_header'] = header is not None
    if model is not None and model != real:
        if not (model.startswith('py:') and real.startswith('py:')):
            ctx.disagree('rx_filter', case, model, real)
    if spec is None:
        spec = drv.ask('isreply %s %s %s' % (hs(req), flags, lean.hexs(frame)))
    return _judge_filter_outcome(ctx, drv, case, real, frame, kind, spec)


def _judge_filter_outcome(ctx, drv, case, real, frame, kind, spec):
    if real == 'ok 1' and spec != '1':
        ctx.violate('C03:rx_filter:accepts:%s' % kind,
                    'rx_filter accepts a frame that is not an intact matching reply (%s)' % kind, case,
                    expected='False', observed='True')
        return False
    if real == 'ok 0' and spec == '1':
        ctx.violate('C03:rx_filter:rejects-intact-match',
                    'rx_filter rejects the intact reply to the outstanding request', case,
                    expected='True', observed='False')
        return False
    if len(frame) >= 6 and not real.startswith('ok '):
        ctx.violate('C03:rx_filter:raises', 'rx_filter raises on a frame of >= 6 bytes', case,
                    expected='a boolean', observed=real)
        return False
    return True


# ---------------------------------------------------------------------------------------
# run
# ---------------------------------------------------------------------------------------

def _run_transmit(ctx, drv, rng, n_hdr, lens, tag=''):
    hdrs = gen_headers(rng, n_hdr)
    cases = []
    for i, h in enumerate(hdrs):
        for n in (lens if i < 12 else [rng.choice(lens), rng.randrange(0, 65)]):
            cases.append((h, gen_payload(rng, n), True))
    for h in out_of_range_headers(rng, max(8, n_hdr // 4)):
        cases.append((h, gen_payload(rng, rng.randrange(0, 9)), False))
    m_hdr = drv.ask_many(['hdr ' + hs(h) for h, _, _ in cases])
    m_enc = drv.ask_many(['enc %s %s' % (hs(h), lean.hexs(d)) for h, d, _ in cases])
    # the Spec reads the REAL frame
    reals = [real_encode(h, d) for h, d, _ in cases]
    frames = [r[3:] if r.startswith('ok ') else '-' for r in reals]
    sums = drv.ask_many(['sums ' + f for f in frames])
    parses = drv.ask_many(['parse ' + f for f in frames])
    for (h, d, inr), mh, me, sp, ss in zip(cases, m_hdr, m_enc, parses, sums):
        ctx.case(('enc', h, d), nontrivial=len(d) > 0)
        ctx.count('encode:%s' % ('in-range' if inr else 'out-of-range'))
        ctx.count('payload-len:%s' % ('0' if len(d) == 0 else '1-16' if len(d) <= 16 else '17-64' if len(d) <= 64 else '>64'))
        if not inr:
            ctx.count('encode-outcome:' + (me.split()[0] if me.startswith('ok') else me))
        judge_encode(ctx, drv, h, d, mh, me, sp, ss, inr)
    ctx.sample({'op': 'encode', 'hdr': list(cases[0][0]), 'data': lean.hexs(cases[0][1]), 'frame': m_enc[0]})
    # data=None behaves as b''
    from pyipmi.interfaces.ipmb import encode_ipmb_msg
    for h in hdrs[:5]:
        a = _outcome(lambda: bytes(bytearray(encode_ipmb_msg(_mk_header(h), None))))
        b = _outcome(lambda: bytes(bytearray(encode_ipmb_msg(_mk_header(h), b''))))
        ctx.case(('enc-none', h), nontrivial=False)
        ctx.count('encode:data-None')
        if a != b:
            ctx.violate('C03:encode-none', 'encode_ipmb_msg(header, None) differs from encode_ipmb_msg(header, b\'\')',
                        {'op': 'encode', 'hdr': list(h), 'data': '-'}, expected=repr(b), observed=repr(a))
    # checksum() on its own
    datas = [b'', b'\x00', b'\xff', b'\x80\x80', bytes(range(256)), b'\xff' * 255, b'\xff' * 256, b'\xff' * 257]
    datas += [gen_payload(rng, rng.randrange(0, 70)) for _ in range(60)]
    ms = drv.ask_many(['cks ' + lean.hexs(d) for d in datas])
    for d, m in zip(datas, ms):
        ctx.case(('cks', d), nontrivial=len(d) > 0)
        ctx.count('checksum')
        judge_checksum(ctx, drv, d, m)


def _run_filter(ctx, drv, rng, n_req, n_corrupt_frames, all_flags_for):
    reqs = gen_headers(rng, n_req, request=True)
    stim = []      # (req, kind, flags, frame)
    accepted = []  # (req, flags, frame) intact matches for the corruption sweep
    mk_lines, mk_meta = [], []
    for i, req in enumerate(reqs):
        body = bytes([rng.choice((0, 0, 0xc1, rng.randrange(256)))]) + gen_payload(rng, rng.choice((0, 1, 3, 16, rng.randrange(0, 65))))
        for kind, hdr, netfn_out in reply_variants(rng, req):
            h = list(hdr)
            # Spec.mkReply answers header h with netfn h.netfn+1; to put an arbitrary netfn N on the
            # wire the builder is given N-1 (mod 64)
            if netfn_out is not None:
                if netfn_out == 0:
                    continue     # netfn 0 on the wire cannot be written as (n + 1)
                h[2] = netfn_out - 1
            mk_lines.append('mkreply %s %s' % (hs(h), lean.hexs(body)))
            mk_meta.append((i, req, kind))
    frames = drv.ask_many(mk_lines)
    for (i, req, kind), fx in zip(mk_meta, frames):
        frame = lean.unhex(fx)
        flag_sets = ALL_FLAGS if i < all_flags_for else [DEFAULT_FLAGS, '00010', rng.choice(ALL_FLAGS), '11111']
        for fl in flag_sets:
            stim.append((req, kind, fl, frame))
        if kind == 'match':
            accepted.append((req, frame))
            # checksum faults keep every field of the figure intact
            for pos, knd in ((2, 'hdr-checksum'), (len(frame) - 1, 'payload-checksum')):
                bad = bytearray(frame)
                bad[pos] = (bad[pos] + rng.randrange(1, 256)) % 256
                for fl in flag_sets:
                    stim.append((req, knd, fl, bytes(bad)))
                if i < all_flags_for:
                    for bit in range(8):     # every single-bit fault of either checksum byte
                        bad = bytearray(frame)
                        bad[pos] ^= 1 << bit
                        stim.append((req, knd, DEFAULT_FLAGS, bytes(bad)))
            if i < 6:
                for n in range(0, 8):
                    for fl in (DEFAULT_FLAGS, '00000'):
                        stim.append((req, 'short-%d' % n, fl, frame[:n]))
    models = drv.ask_many(['flt %s %s %s' % (hs(r), fl, lean.hexs(f)) for r, _, fl, f in stim])
    specs = drv.ask_many(['isreply %s %s %s' % (hs(r), fl, lean.hexs(f)) for r, _, fl, f in stim])
    for (req, kind, fl, frame), m, s in zip(stim, models, specs):
        ctx.case(('flt', req, fl, frame), nontrivial=len(frame) >= 6)
        ctx.count('filter:' + (kind if not kind.startswith('short') else 'short-frame'))
        ctx.count('filter-flags:' + ('default' if fl == DEFAULT_FLAGS else 'other'))
        ctx.count('filter-spec:' + ('reply' if s == '1' else 'not-reply'))
        ctx.count('filter-outcome:' + m)
        judge_filter(ctx, drv, req, fl, frame, kind, m, s)
    ctx.sample({'op': 'filter', 'req': list(stim[0][0]), 'flags': stim[0][2], 'frame': lean.hexs(stim[0][3]),
                'model': models[0], 'spec': specs[0]})
    # every single-byte corruption of accepted replies
    n_corr = 0
    for req, frame in accepted[:n_corrupt_frames]:
        if ctx.time_left() < 25:
            ctx.notes.append('corruption sweep stopped early (time budget)')
            break
        fl = DEFAULT_FLAGS if n_corr % 3 else '11111'
        muts = []
        for i in range(len(frame)):
            for b in range(256):
                if b != frame[i]:
                    muts.append(frame[:i] + bytes([b]) + frame[i + 1:])
        models = drv.ask_many(['flt %s %s %s' % (hs(req), fl, lean.hexs(f)) for f in muts])
        for f, m in zip(muts, models):
            ctx.case(('corrupt', req, fl, f))
            n0 = len(_calls)
            real = real_filter(req, fl, f)
            if m != real:
                ctx.disagree('rx_filter', {'op': 'filter', 'req': list(req), 'flags': fl, 'frame': lean.hexs(f),
                                           'kind': 'corruption'}, m, real)
            if real != 'ok 0':
                pos = [i for i in range(len(f)) if f[i] != frame[i]][0]
                ctx.violate('C03:rx_filter:accepts:corrupted-%s' % ('header' if pos < 3 else 'payload'),
                            'rx_filter does not reject a reply with one corrupted byte (offset %d)' % pos,
                            {'op': 'filter', 'req': list(req), 'flags': fl, 'frame': lean.hexs(f), 'kind': 'corruption',
                             'intact': lean.hexs(frame), 'before': _before(_history(n0, f)), 'same_header': False},
                            expected='False', observed=real)
        ctx.count('filter:single-byte-corruption', len(muts))
        ctx.count('corruption-frames')
        n_corr += 1
    # two corrupted bytes whose deltas cancel modulo 256 (every pair of offsets): a filter that sums the
    # whole frame, or header and payload together, accepts these; judged by the specification
    stim2 = []
    for req, frame in accepted[:max(6, n_corrupt_frames // 2)]:
        for i in range(len(frame)):
            for j in range(i + 1, len(frame)):
                for d in (1, 0x80, rng.randrange(1, 256)):
                    bad = bytearray(frame)
                    bad[i] = (bad[i] + d) % 256
                    bad[j] = (bad[j] - d) % 256
                    stim2.append((req, DEFAULT_FLAGS if (i + j) % 4 else '11111', bytes(bad)))
    models = drv.ask_many(['flt %s %s %s' % (hs(r), fl, lean.hexs(f)) for r, fl, f in stim2])
    specs = drv.ask_many(['isreply %s %s %s' % (hs(r), fl, lean.hexs(f)) for r, fl, f in stim2])
    for (req, fl, f), m, sp in zip(stim2, models, specs):
        ctx.case(('corrupt2', req, fl, f))
        judge_filter(ctx, drv, req, fl, f, 'two-cancelling-corruptions', m, sp)
    ctx.count('filter:two-cancelling-corruptions', len(stim2))


def zero_sum_runts(rng, frame):
    """frames of 0..5 bytes: prefixes of `frame`, and runts whose header part / rest sum to zero modulo 256
    (no complete header, no command or sequence byte: never the reply to anything)"""
    out = [('short-%d' % n, bytes(frame[:n])) for n in range(6)]
    a, b = rng.randrange(256), rng.randrange(256)
    x = rng.randrange(1, 256)
    three = bytes([a, b, (-(a + b)) % 256])
    out += [('short-1', b'\x00'), ('short-2', bytes([x, (-x) % 256])), ('short-3', b'\x00\x00\x00'),
            ('short-3', three), ('short-4', three + b'\x00'), ('short-4', bytes(frame[:3]) + b'\x00'),
            ('short-5', three + bytes([x, (-x) % 256])), ('short-5', bytes(frame[:3]) + bytes([x, (-x) % 256])),
            ('short-5', b'\x00' * 5)]
    return out


def _run_filter_histories(ctx, drv, rng, n_req):
    """sequences of frames through rx_filter with ONE request-header object per sequence (the outstanding
    request of a transport); every frame is judged on its own by the specification"""
    reqs = gen_headers(rng, n_req, request=True)
    plans = []      # (req, flags, [(kind, mkreply-line or None, post)])
    mk_lines = []
    for i, req in enumerate(reqs):
        body = bytes([rng.choice((0, 0xc1))]) + gen_payload(rng, rng.choice((0, 1, 3, rng.randrange(0, 20))))
        variants = reply_variants(rng, req)
        rng.shuffle(variants)
        variants = [v for v in variants if v[0] == 'match'] + [v for v in variants if v[0] != 'match'][:3]
        rng.shuffle(variants)
        lines = []
        for kind, hdr, netfn_out in variants:
            h = list(hdr)
            if netfn_out is not None:
                if netfn_out == 0:
                    continue
                h[2] = netfn_out - 1
            lines.append((kind, 'mkreply %s %s' % (hs(h), lean.hexs(body))))
        lines.append(('match', 'mkreply %s %s' % (hs(req), lean.hexs(body))))
        flags = (DEFAULT_FLAGS, '11111', '00000', rng.choice(ALL_FLAGS))[i % 4]
        plans.append((req, flags, lines))
        mk_lines += [l for _, l in lines]
    frames = iter(drv.ask_many(mk_lines))
    seqs = []
    for req, flags, lines in plans:
        seq = []
        for kind, _ in lines:
            frame = lean.unhex(next(frames))
            seq.append((kind, frame))
            r = rng.random()
            if kind == 'match' and r < 0.5:
                for pos, knd in ((2, 'hdr-checksum'), (len(frame) - 1, 'payload-checksum'),
                                 (rng.randrange(6, len(frame)), 'payload-checksum')):
                    bad = bytearray(frame)
                    bad[pos] = (bad[pos] + rng.randrange(1, 256)) % 256
                    seq.append((knd, bytes(bad)))
                    seq += rng.sample(zero_sum_runts(rng, frame), 4)
            runts = zero_sum_runts(rng, frame)
            seq += runts if kind == 'match' else rng.sample(runts, 5)
        seqs.append((req, flags, seq))
    flat = [(req, flags, f) for req, flags, seq in seqs for _, f in seq]
    models = iter(drv.ask_many(['flt %s %s %s' % (hs(r), fl, lean.hexs(f)) for r, fl, f in flat]))
    specs = iter(drv.ask_many(['isreply %s %s %s' % (hs(r), fl, lean.hexs(f)) for r, fl, f in flat]))
    for req, flags, seq in seqs:
        header = _mk_header(req)
        before = []
        for kind, frame in seq:
            m, sp = next(models), next(specs)
            ctx.case(('flt-seq', req, flags, tuple(b[2] for b in before), frame), nontrivial=len(before) > 0)
            ctx.count('filter-sequence:' + (kind if not kind.startswith('short') else 'runt-after-' + (
                before[-1][3] if before and not before[-1][3].startswith('short') else 'runt' if before else 'nothing')))
            judge_filter(ctx, drv, req, flags, frame, kind, m, sp, header=header, before=len(before))
            before.append((req, flags, frame, kind))
        ctx.count('filter-sequences')
    ctx.sample({'op': 'filter-sequence', 'req': list(seqs[0][0]), 'flags': seqs[0][1],
                'frames': [lean.hexs(f) for _, f in seqs[0][2][:12]]})


def _run_encode_histories(ctx, rng, hdrs):
    """transmit side: one long-lived IpmbHeaderReq object, fields re-assigned before every frame; the frame
    must be the one a fresh header object gives (which the main stream judges by the specification)"""
    from pyipmi.interfaces.ipmb import IpmbHeaderReq, encode_ipmb_msg
    long_h, seq = IpmbHeaderReq(), []
    for n, h in enumerate(hdrs):
        if n % 10 == 0:
            long_h, seq = IpmbHeaderReq(), []
        d = gen_payload(rng, rng.choice((0, 1, 5, rng.randrange(0, 30))))
        seq.append([list(h), lean.hexs(d)])
        for k, v in zip(FIELDS, h):
            setattr(long_h, k, v)
        a = _outcome(lambda: bytes(bytearray(long_h.encode())))
        b = _outcome(lambda: bytes(bytearray(encode_ipmb_msg(long_h, d))))
        got = (a[0] if a[0] != 'ok' else 'ok ' + lean.hexs(a[1]), b[0] if b[0] != 'ok' else 'ok ' + lean.hexs(b[1]))
        want = (real_header(h), real_encode(h, d))
        ctx.case(('enc-seq', tuple(map(repr, seq))), nontrivial=len(seq) > 1)
        ctx.count('encode:reused-header-object')
        if got != want:
            ctx.violate('C03:encode:reused-header-object',
                        'a header object whose fields were re-assigned does not encode like a fresh one',
                        {'op': 'encode-history', 'seq': list(seq)}, expected=list(want), observed=list(got))


# ---------------------------------------------------------------------------------------
# response frames the library transmits (IpmbHeaderRsp.from_req_header / .encode + encode_ipmb_msg)
# ---------------------------------------------------------------------------------------

RSP_CLASSES = (('netfn', (2,)), ('addresses', (0, 3)), ('luns', (1, 4)), ('seq', (5,)), ('cmd', (6,)))
W_REQ = (0x20, 0, 6, 0x81, 0, 1, 1)            # Props.C03.sReq: Get Device ID, rqSA 81h -> rsSA 20h, sequence number 1
W_BODY = bytes([0, 0xaa, 0xbb])


def _show(r):
    return 'ok ' + lean.hexs(r[1]) if r[0] == 'ok' else r[0]


def real_response(req, body, req_frame=None, rsp_obj=None):
    """the frame the library builds to answer request `req` with `body`: from_req_header on a (fresh) IpmbHeaderRsp,
    then encode_ipmb_msg.  `req_frame`: decode the request header from these bytes instead of setting attributes"""
    from pyipmi.interfaces.ipmb import IpmbHeaderReq, IpmbHeaderRsp, encode_ipmb_msg

    def f():
        rh = IpmbHeaderReq(data=req_frame) if req_frame is not None else _mk_header(req)
        h = rsp_obj if rsp_obj is not None else IpmbHeaderRsp()
        h.from_req_header(rh)
        return bytes(bytearray(encode_ipmb_msg(h, body)))
    return _show(_outcome(f))


def real_rsp_encode(vals, body):
    """(IpmbHeaderRsp.encode(), encode_ipmb_msg(header, body)) of a response header object filled in by hand"""
    from pyipmi.interfaces.ipmb import IpmbHeaderRsp, encode_ipmb_msg

    def mk():
        h = IpmbHeaderRsp()
        for k, v in zip(FIELDS, vals):
            setattr(h, k, v)
        return h
    return (_show(_outcome(lambda: bytes(bytearray(mk().encode())))),
            _show(_outcome(lambda: bytes(bytearray(encode_ipmb_msg(mk(), body))))))


_rvariant = []


def response_variant(drv):
    """which state of IpmbHeaderRsp.from_req_header the tree has: the witness of
    Props.C03.response_frame_asShipped_counterexample"""
    if not _rvariant:
        real = real_response(W_REQ, W_BODY)
        line = '%s %s' % (hs(W_REQ), lean.hexs(W_BODY))
        _rvariant.append('asShipped' if real == drv.ask('rspframe a ' + line) else
                         'intended' if real == drv.ask('rspframe i ' + line) else 'other')
    return _rvariant[0]


def judge_response_frame(ctx, drv, case, req, body, real, expected=None, what_built='IpmbHeaderRsp.from_req_header + encode_ipmb_msg'):
    """`real`: the frame the library built to answer request `req` with `body`; judged against the figure"""
    if expected is None:
        expected = drv.ask('mkreply %s %s' % (hs(req), lean.hexs(body)))
    if real == 'ok ' + expected:
        return True
    if not real.startswith('ok '):
        ctx.violate('C03:response-frame:raises', '%s raises for an in-range request header' % what_built, case,
                    expected='ok ' + expected, observed=real)
        return False
    fx = real[3:]
    s1, s2 = drv.ask('sums ' + fx).split()
    if s1 != '0' or s2 != '0':
        which = 'header' if s1 != '0' else 'payload'
        ctx.violate('C03:response-frame:%s-checksum' % which,
                    'the %s bytes of the response frame built by %s do not sum to zero' % (which, what_built), case,
                    expected='ok ' + expected, observed=real)
        return False
    want = (req[0], req[1], req[2] + 1, req[3], req[4], req[5], req[6])
    parsed = drv.ask('parsersp ' + fx).split()
    accepted = real_filter(req, DEFAULT_FLAGS, lean.unhex(fx))
    note = '; rx_filter of that request says %s' % {'ok 1': 'True', 'ok 0': 'False'}.get(accepted, accepted)
    if parsed[0] != 'some':
        ctx.violate('C03:response-frame:length', 'the response frame built by %s is too short to be one%s' % (what_built, note),
                    case, expected='ok ' + expected, observed=real)
        return False
    got = tuple(int(x) for x in parsed[1:8])
    wrong = [FIELDS[i] for i in range(7) if got[i] != want[i]]
    cls = [c for c, idx in RSP_CLASSES if any(got[i] != want[i] for i in idx)]
    if not cls:
        cls, wrong = ['data'], ['data']
    ctx.violate('C03:response-frame:%s' % cls[0],
                'the frame built to answer a request (%s) does not carry the fields of the response to it: wrong %s%s'
                % (what_built, ', '.join(wrong), note), case,
                expected='ok %s  (%s)' % (expected, dict(zip(FIELDS, want))),
                observed='%s  (%s)' % (real, dict(zip(FIELDS, got))))
    return False


def judge_response(ctx, drv, req, body, via, model=None, expected=None, judge=True):
    case = {'op': 'response', 'req': list(req), 'body': lean.hexs(body), 'via': via}
    req_frame = None
    if via == 'decode':
        req_frame = lean.unhex(drv.ask('mkreq %s -' % hs(req)))
        case['req_frame'] = lean.hexs(req_frame)
    real = real_response(req, body, req_frame)
    if model is not None and model != real and not (model.startswith('py:') and real.startswith('py:')):
        ctx.disagree('from_req_header + encode_ipmb_msg', case, model, real)
    if not judge:
        return True
    return judge_response_frame(ctx, drv, case, req, body, real, expected)


def judge_rsp_encode(ctx, drv, vals, body, m_hdr=None, m_enc=None, expected=None):
    """a response header object filled in by hand (netfn = the response's, odd): encode() / encode_ipmb_msg against
    the figure's response to the request with netfn - 1"""
    case = {'op': 'rsp-encode', 'hdr': list(vals), 'body': lean.hexs(body)}
    r_hdr, r_enc = real_rsp_encode(vals, body)
    if m_hdr is not None and m_hdr != r_hdr:
        ctx.disagree('IpmbHeaderRsp.encode', case, m_hdr, r_hdr)
    if m_enc is not None and m_enc != r_enc:
        ctx.disagree('encode_ipmb_msg(IpmbHeaderRsp)', case, m_enc, r_enc)
    if expected is None:
        return True
    req = vals[:2] + (vals[2] - 1,) + vals[3:]
    ok = judge_response_frame(ctx, drv, case, req, body, r_enc, expected, 'IpmbHeaderRsp.encode + encode_ipmb_msg')
    if ok and r_hdr != 'ok ' + expected[:12]:
        ctx.violate('C03:response-frame:header-encode', 'IpmbHeaderRsp.encode() is not the first six bytes of the frame',
                    case, expected=expected[:12], observed=r_hdr)
        return False
    return ok


def _emulation():
    import sys
    import types
    sys.modules.setdefault('yaml', types.ModuleType('yaml'))     # imported only to read an optional config file
    import pyipmi.emulation as emu
    return emu


def real_emulation(req_frame):
    """one IPMI-over-LAN request (session header: authentication none) through the library's BMC emulation, below its
    RMCP layer -> the IPMB frame it transmits"""
    emu = _emulation()
    ctxt = emu.ConnectionContext(None, None, 'client')
    sdu = T.rmcp_wrap(req_frame)[4:]
    r = _outcome(lambda: bytes(bytearray(emu.handle_rmcp_ipmi_msg(ctxt, sdu))))
    if r[0] != 'ok':
        return r[0]
    pdu = r[1]
    if len(pdu) < 10 or pdu[0] != 0 or pdu[9] != len(pdu) - 10:
        return 'py:unexpected-session-header:' + lean.hexs(pdu[:10])
    return 'ok ' + lean.hexs(pdu[10:])


def judge_emulation(ctx, drv, req):
    req_frame = lean.unhex(drv.ask('mkreq %s -' % hs(req)))
    case = {'op': 'emulation', 'req': list(req), 'req_frame': lean.hexs(req_frame)}
    real = real_emulation(req_frame)
    if not real.startswith('ok ') or len(real) < 3 + 16:
        ctx.violate('C03:response-frame:emulation-raises', 'the BMC emulation does not answer a Get Device ID request',
                    case, expected='a response frame', observed=real)
        return False
    # the body is the emulation's business (its Get Device ID handler); the frame around it is judged
    body = lean.unhex(real[3:])[6:-1]
    return judge_response_frame(ctx, drv, case, req, body, real, None,
                                'pyipmi.emulation: IpmbHeaderRsp.from_req_header + encode_ipmb_msg')


def gen_rsp_body(rng, n=None):
    n = rng.choice((0, 0, 1, 3, 16, 64, rng.randrange(0, 65))) if n is None else n
    return bytes([rng.choice((0, 0, 0xc1, 0xff, rng.randrange(256)))]) + gen_payload(rng, n)


def _run_response(ctx, drv, rng, n_req, n_emulation):
    ctx.extra['from_req_header_variant'] = response_variant(drv)
    reqs = gen_headers(rng, n_req, request=True)
    reqs.insert(0, W_REQ)
    # directed: every even netFn, every pair of LUNs, the corners of the sequence number
    for netfn in range(0, 64, 2):
        reqs.append((0x20, rng.randrange(4), netfn, 0x81, rng.randrange(4), rng.randrange(64), rng.randrange(256)))
    for rs_lun in range(4):
        for rq_lun in range(4):
            reqs.append((rng.choice((0x20, 0x72, 0x82)), rs_lun, rng.randrange(32) * 2, rng.choice((0x81, 0x20)), rq_lun,
                         rng.choice((0, 1, 62, 63)), rng.choice((1, 0x34, 0xff))))
    cases = []
    for i, req in enumerate(reqs):
        cases.append((req, W_BODY if i == 0 else gen_rsp_body(rng), 'attrs' if i % 2 == 0 else 'decode', True))
        if i < 40:
            cases.append((req, gen_rsp_body(rng), 'decode' if i % 2 == 0 else 'attrs', True))
    # outside the quantifier (tie only): odd netFn, one field beyond its width
    for h in gen_headers(rng, max(8, n_req // 6)):
        cases.append((h[:2] + (h[2] | 1,) + h[3:], gen_rsp_body(rng, 2), 'attrs', False))
    for h in out_of_range_headers(rng, max(8, n_req // 6)):
        cases.append((h, gen_rsp_body(rng, 2), 'attrs', False))
    models = drv.ask_many(['rspframe s %s %s' % (hs(r), lean.hexs(b)) for r, b, _, _ in cases])
    specs = drv.ask_many(['mkreply %s %s' % (hs(r), lean.hexs(b)) for r, b, _, _ in cases])
    for (req, body, via, inq), m, sp in zip(cases, models, specs):
        ctx.case(('response', req, body, via), nontrivial=len(body) > 1)
        ctx.count('response:%s' % (('request-header-' + via) if inq else 'outside-quantifier'))
        ctx.count('response-body-len:%s' % ('1' if len(body) == 1 else '2-17' if len(body) <= 17 else '18-65'))
        judge_response(ctx, drv, req, body, via, m, sp, inq)
    ctx.sample({'op': 'response', 'req': list(cases[0][0]), 'body': lean.hexs(cases[0][1]), 'model': models[0],
                'figure': specs[0]})
    # ONE IpmbHeaderRsp object answers several requests in a row
    from pyipmi.interfaces.ipmb import IpmbHeaderRsp
    obj, seq = IpmbHeaderRsp(), []
    for n, req in enumerate(reqs[:200]):
        if n % 8 == 0:
            obj, seq = IpmbHeaderRsp(), []
        body = gen_rsp_body(rng, rng.randrange(0, 6))
        seq.append([list(req), lean.hexs(body)])
        got, want = real_response(req, body, rsp_obj=obj), real_response(req, body)
        ctx.case(('response-seq', tuple(map(repr, seq))), nontrivial=len(seq) > 1)
        ctx.count('response:reused-header-object')
        if got != want:
            ctx.violate('C03:response-frame:reused-header-object',
                        'an IpmbHeaderRsp object that answered other requests before does not answer like a fresh one',
                        {'op': 'response-history', 'seq': list(seq)}, expected=want, observed=got)
    # response header objects filled in by hand
    hdrs = [h[:2] + (h[2] | 1,) + h[3:] for h in gen_headers(rng, max(20, n_req // 3))]
    hcases = [(h, gen_rsp_body(rng), True) for h in hdrs]
    hcases += [(h, gen_rsp_body(rng, 1), False) for h in out_of_range_headers(rng, max(8, n_req // 8))]
    m_hdr = drv.ask_many(['rsphdr ' + hs(h) for h, _, _ in hcases])
    m_enc = drv.ask_many(['rspenc %s %s' % (hs(h), lean.hexs(b)) for h, b, _ in hcases])
    figs = drv.ask_many(['mkreply %s %s' % (hs(h[:2] + (max(h[2], 1) - 1,) + h[3:]), lean.hexs(b)) for h, b, _ in hcases])
    for (h, b, inr), mh, me, fg in zip(hcases, m_hdr, m_enc, figs):
        ctx.case(('rsp-encode', h, b), nontrivial=len(b) > 1)
        ctx.count('response:header-object-by-hand:%s' % ('in-range' if inr else 'out-of-range'))
        judge_rsp_encode(ctx, drv, h, b, mh, me, fg if inr else None)
    # through the library's BMC emulation
    try:
        _emulation()
    except Exception as e:  # noqa
        ctx.notes.append('pyipmi.emulation cannot be imported (%s: %s): emulation stream skipped' % (type(e).__name__, e))
        return
    for i in range(n_emulation):
        req = (rng.choice((0x20, 0x20, 0x82, rng.randrange(256))), rng.randrange(4), 6, rng.choice((0x81, 0x20, rng.randrange(256))),
               rng.randrange(4), rng.choice((0, 1, 63, rng.randrange(64))), 1)
        if i == 0:
            req = W_REQ
        ctx.case(('emulation', req))
        ctx.count('response:through-emulation')
        judge_emulation(ctx, drv, req)


# ---------------------------------------------------------------------------------------
# the same clause through the LAN transport
# ---------------------------------------------------------------------------------------

SEND_MESSAGE = 0x34
ROUTES = {0: None, 2: [(0x81, 0x20, 0), (0x20, 0x82, None)],
          3: [(0x81, 0x20, 0), (0x20, 0x82, 7), (0x20, 0x72, None)],
          4: [(0x81, 0x20, 0), (0x20, 0x82, 7), (0x20, 0x72, 2), (0x72, 0x74, None)]}


def real_transport(tc, frame):
    """one request through the real Rmcp, one datagram (carrying `frame`) arrives, then silence"""
    iface = T.make_rmcp(max_retries=0, slave_address=0x81)
    iface.next_sequence_number = tc['seq0']
    req = {'rs_sa': tc['rs_sa'], 'netfn': tc['netfn'], 'lun': tc['lun'], 'cmd': tc['cmd'], 'payload': '',
           'routing': [list(h) for h in ROUTES[tc['depth']]] if tc['depth'] else None}
    r = T.run_rmcp(iface, req, [['F', lean.hexs(frame) if frame else '']])
    return ('ok ' + lean.hexs(r['out'][1])) if r['out'][0] == 'ok' else r['out'][0]


_tvariant = []


def transport_variant(drv):
    """which variant of Bridge.classifyRx the tree implements: the witness of
    Props.C03.transport_corruption_asShipped_counterexample (payload checksum of the wrapper altered)"""
    if not _tvariant:
        tc = {'depth': 2, 'rs_sa': 0x82, 'netfn': 6, 'lun': 0, 'cmd': 1, 'seq0': 4}
        inner = lean.unhex(drv.ask('mkreply 130 0 6 32 0 5 1 001234'))
        good = lean.unhex(drv.ask('wrap %s 32,0,6,129,0,5,52,0' % lean.hexs(inner)))
        bad = good[:-1] + bytes([(good[-1] + 1) % 256])
        _tvariant.append('a' if real_transport(tc, bad).startswith('ok') else 'r')
    return _tvariant[0]


def transport_frame(drv, tc, body):
    """the reply of the specification to the request of `tc`, inside one Send Message response per bridge"""
    seq = (tc['seq0'] + 1) % 64
    route = ROUTES[tc['depth']]
    last = route[-1] if route else (0x81, tc['rs_sa'], None)
    inner_req = (last[1], tc['lun'], tc['netfn'], last[0], 0, seq, tc['cmd'])
    reply = drv.ask('mkreply %s %s' % (hs(inner_req), lean.hexs(body)))
    layers = ['%d,0,6,%d,0,%d,52,0' % (h[1], h[0], seq) for h in (route or [])[:-1]]
    return inner_req, lean.unhex(drv.ask('wrap %s %s' % (reply, ' '.join(layers))) if layers else reply)


def judge_transport_frame(ctx, drv, tc, inner_req, frame, intact, model=None):
    """`frame` (== `intact`, or `intact` with one byte altered) arrives as the only datagram"""
    real = real_transport(tc, frame)
    seq = (tc['seq0'] + 1) % 64
    case = {'op': 'transport', 'tc': tc, 'frame': lean.hexs(frame), 'intact': lean.hexs(intact)}
    if model is not None:
        m = 'RetryError' if model in ('ack', 'noise') else ('ok ' + (model.split() + ['-'])[1]) if model.startswith('hit') \
            else model[4:]
        if m != real and not (m.startswith('py:') and real.startswith('py:')):
            ctx.disagree('Rmcp receive', case, m, real)
    if frame == intact:
        nwrap = max(tc['depth'], 1) - 1          # each wrapper: 7 bytes in front, 1 checksum byte behind
        want = 'ok ' + lean.hexs(intact[7 * nwrap + 6:len(intact) - nwrap - 1])
        if real != want:
            ctx.violate('C03:transport:rejects-intact-reply',
                        'the LAN transport does not return the data of the intact reply%s' % (
                            '' if tc['depth'] == 0 else ' wrapped in %d Send Message response(s)' % (tc['depth'] - 1)),
                        case, expected=want, observed=real)
            return False
        return True
    pos = [i for i in range(len(frame)) if frame[i] != intact[i]][0]
    nwrap = max(tc['depth'], 1) - 1
    where = 'wrapper' if (pos < 7 * nwrap or pos >= len(frame) - nwrap) else 'reply'
    if real.startswith('ok'):
        ctx.violate('C03:transport:accepts:corrupted-%s' % where,
                    'a reply with one corrupted byte (offset %d, in the %s) is accepted by the LAN transport' % (
                        pos, 'Send Message wrapper' if where == 'wrapper' else 'reply itself'),
                    case, expected='rejected (RetryError after the time-out)', observed=real)
        return False
    if real != 'RetryError':
        ctx.violate('C03:transport:raises:corrupted-%s' % where,
                    'a reply with one corrupted byte (offset %d, in the %s) is not dropped: %s comes out of the frame '
                    'whose checksum fails' % (pos, 'Send Message wrapper' if where == 'wrapper' else 'reply itself', real),
                    case, expected='rejected (RetryError after the time-out)', observed=real)
        return False
    return True


def _run_transport(ctx, drv, rng, n_extra):
    v = transport_variant(drv)
    ctx.extra['transport_variant'] = {'a': 'asShipped', 'r': 'repaired'}[v]
    tcs = []
    for depth in (0, 2, 3, 4):
        tcs.append(({'depth': depth, 'rs_sa': 0x82, 'netfn': 6, 'lun': 0, 'cmd': 1, 'seq0': 4}, b'\x00\x12\x34'))
    tcs.append(({'depth': 0, 'rs_sa': 0x20, 'netfn': 6, 'lun': 0, 'cmd': 1, 'seq0': 4}, b'\xc0'))
    tcs.append(({'depth': 0, 'rs_sa': 0x72, 'netfn': 0x2c, 'lun': 0, 'cmd': 0x34, 'seq0': 62}, b'\x00\x00\x33\x00'))
    tcs.append(({'depth': 2, 'rs_sa': 0x72, 'netfn': 0x2c, 'lun': 0, 'cmd': 0x34, 'seq0': 63}, b'\x00\x00\x33\x00'))
    for _ in range(n_extra):
        cmd = rng.randrange(256)
        netfn = rng.randrange(32) * 2
        if cmd == SEND_MESSAGE and netfn == 6:
            netfn = 0x2c
        tcs.append(({'depth': rng.choice((0, 2, 3, 4)), 'rs_sa': rng.choice((0x20, 0x82, 0x72)), 'netfn': netfn,
                     'lun': rng.randrange(4), 'cmd': cmd, 'seq0': rng.randrange(64)},
                    bytes([rng.choice((0, 0, 0xc1))]) + gen_payload(rng, rng.randrange(0, 6))))
    for tc, body in tcs:
        if ctx.time_left() < 25:
            ctx.notes.append('transport corruption sweep stopped early (time budget)')
            break
        inner_req, frame = transport_frame(drv, tc, body)
        seq = (tc['seq0'] + 1) % 64
        muts = [frame]
        for i in range(len(frame)):
            for b in range(256):
                if b != frame[i]:
                    muts.append(frame[:i] + bytes([b]) + frame[i + 1:])
        models = drv.ask_many(['cls %s %s %s %s %s' % (v, seq if tc['depth'] >= 2 else '-', hs(inner_req), DEFAULT_FLAGS,
                                                       lean.hexs(f)) for f in muts])
        for f, m in zip(muts, models):
            ctx.case(('transport', repr(sorted(tc.items())), f))
            judge_transport_frame(ctx, drv, tc, inner_req, f, frame, m)
        ctx.count('transport:frames:depth-%d' % tc['depth'])
        ctx.count('transport:single-byte-corruption', len(muts) - 1)
        ctx.count('transport:wrapper-byte-corruption', 255 * 8 * (max(tc['depth'], 1) - 1))
    ctx.sample({'op': 'transport', 'tc': tcs[1][0], 'intact': lean.hexs(transport_frame(drv, tcs[1][0], tcs[1][1])[1])})


def run(ctx):
    drv = ctx.driver('drv_c03')
    if drv.ask('ping') != 'pong':
        raise lean.LeanError('drv_c03 does not answer')
    rng = ctx.rng('c03')
    quick = ctx.tier == 'quick'
    lens = [0, 1, 2, 7, 16, 63, 64] + ([] if quick else [255, 1024])
    _run_transmit(ctx, drv, rng, 120 if quick else 1500, lens)
    _run_encode_histories(ctx, ctx.rng('c03-encode-history'), gen_headers(ctx.rng('c03-eh'), 200 if quick else 3000))
    _run_response(ctx, drv, ctx.rng('c03-response'), 150 if quick else 3000, 24 if quick else 400)
    _run_filter_histories(ctx, drv, ctx.rng('c03-filter-history'), 60 if quick else 1200)
    _run_transport(ctx, drv, ctx.rng('c03-transport'), 2 if quick else 60)
    _run_filter(ctx, drv, rng, n_req=40 if quick else 400, n_corrupt_frames=24 if quick else 400,
                all_flags_for=12 if quick else 60)


def search(ctx):
    """A tie broke (translator / theorem / correspondence) and the directed run found no input
    on which the real code breaks the property: widen the same oracles (more requests, all 32
    flag settings everywhere, more corruption sweeps) under a different seed stream."""
    try:
        drv = ctx.driver('drv_c03')
    except lean.LeanError as e:
        ctx.notes.append('search: no driver (%s)' % e.what)
        return
    rng = ctx.rng('c03-search')
    _run_transmit(ctx, drv, rng, 400, [0, 1, 2, 3, 7, 8, 16, 63, 64, 255])
    if not ctx.violations:
        _run_response(ctx, drv, rng, 600, 60)
    if not ctx.violations:
        _run_transport(ctx, drv, rng, 12)
    if not ctx.violations:
        _run_filter_histories(ctx, drv, rng, 200)
    if not ctx.violations:
        _run_filter(ctx, drv, rng, n_req=120, n_corrupt_frames=40, all_flags_for=120)


def replay(ctx, v):
    case = v['case']
    drv = ctx.driver('drv_c03')
    c2 = ctx.__class__('C03', 'quick', 0)
    if case['op'] == 'checksum':
        data = lean.unhex(case['data'])
        print('checksum(%s): code %s, specification %d' % (case['data'], real_checksum(data), (-sum(data)) % 256))
        judge_checksum(c2, drv, data)
    elif case['op'] == 'encode':
        vals, data = tuple(case['hdr']), lean.unhex(case['data'])
        print('encode_ipmb_msg(%s, %s)' % (dict(zip(FIELDS, vals)), case['data']))
        r = real_encode(vals, data)
        print('  code : %s' % r)
        if r.startswith('ok '):
            print('  spec reads: %s ; sums %s' % (drv.ask('parse ' + r[3:]), drv.ask('sums ' + r[3:])))
        if v['signature'] == 'C03:encode-none':
            from pyipmi.interfaces.ipmb import encode_ipmb_msg
            a = _outcome(lambda: bytes(bytearray(encode_ipmb_msg(_mk_header(vals), None))))
            b = _outcome(lambda: bytes(bytearray(encode_ipmb_msg(_mk_header(vals), b''))))
            return a != b
        judge_encode(c2, drv, vals, data)
    elif case['op'] == 'encode-history':
        from pyipmi.interfaces.ipmb import IpmbHeaderReq, encode_ipmb_msg
        long_h, bad = IpmbHeaderReq(), False
        print('one IpmbHeaderReq object, fields re-assigned before each frame:')
        for h, dx in case['seq']:
            d = lean.unhex(dx)
            for k, x in zip(FIELDS, h):
                setattr(long_h, k, x)
            b = _outcome(lambda: bytes(bytearray(encode_ipmb_msg(long_h, d))))
            a = _outcome(lambda: bytes(bytearray(long_h.encode())))
            got = (a[0] if a[0] != 'ok' else 'ok ' + lean.hexs(a[1]), b[0] if b[0] != 'ok' else 'ok ' + lean.hexs(b[1]))
            want = (real_header(tuple(h)), real_encode(tuple(h), d))
            print('  %s %s: used object %s, fresh object %s' % (dict(zip(FIELDS, h)), dx, got[1], want[1]))
            bad = got != want
        return bad
    elif case['op'] == 'response':
        req, body = tuple(case['req']), lean.unhex(case['body'])
        req_frame = lean.unhex(case['req_frame']) if case.get('via') == 'decode' else None
        print('request header %s%s' % (dict(zip(FIELDS, req)), '' if req_frame is None else
                                       '  = IpmbHeaderReq(data=%s)' % case['req_frame']))
        print('IpmbHeaderRsp().from_req_header(request header); encode_ipmb_msg(response header, %s)' % case['body'])
        real = real_response(req, body, req_frame)
        print('  code   : %s' % real)
        print('  figure : %s   (rqSA, (netFn+1)/rqLUN, chk1, rsSA, rqSeq/rsLUN, cmd, body, chk2)' % drv.ask(
            'mkreply %s %s' % (hs(req), lean.hexs(body))))
        if real.startswith('ok '):
            print('  the requester reads: %s ; rx_filter(request header, frame) -> %s' % (
                drv.ask('parsersp ' + real[3:]), real_filter(req, DEFAULT_FLAGS, lean.unhex(real[3:]))))
        judge_response_frame(c2, drv, case, req, body, real)
    elif case['op'] == 'rsp-encode':
        vals, body = tuple(case['hdr']), lean.unhex(case['body'])
        r_hdr, r_enc = real_rsp_encode(vals, body)
        req = vals[:2] + (vals[2] - 1,) + vals[3:]
        fig = drv.ask('mkreply %s %s' % (hs(req), lean.hexs(body)))
        print('IpmbHeaderRsp with %s: encode() -> %s ; encode_ipmb_msg(header, %s) -> %s' % (
            dict(zip(FIELDS, vals)), r_hdr, case['body'], r_enc))
        print('  figure : %s' % fig)
        judge_rsp_encode(c2, drv, vals, body, None, None, fig)
    elif case['op'] == 'response-history':
        from pyipmi.interfaces.ipmb import IpmbHeaderRsp
        obj, bad = IpmbHeaderRsp(), False
        print('one IpmbHeaderRsp object answers these requests in a row:')
        for h, bx in case['seq']:
            got, want = real_response(tuple(h), lean.unhex(bx), rsp_obj=obj), real_response(tuple(h), lean.unhex(bx))
            print('  %s %s: used object %s, fresh object %s' % (dict(zip(FIELDS, h)), bx, got, want))
            bad = got != want
        return bad
    elif case['op'] == 'emulation':
        req = tuple(case['req'])
        print('pyipmi.emulation.handle_rmcp_ipmi_msg <- Get Device ID request %s (%s)' % (case['req_frame'], dict(zip(FIELDS, req))))
        real = real_emulation(lean.unhex(case['req_frame']))
        print('  transmits : %s' % real)
        if real.startswith('ok ') and len(real) >= 19:
            body = lean.unhex(real[3:])[6:-1]
            print('  figure    : %s' % drv.ask('mkreply %s %s' % (hs(req), lean.hexs(body))))
        judge_emulation(c2, drv, req)
    elif case['op'] == 'transport':
        tc, frame, intact = case['tc'], lean.unhex(case['frame']), lean.unhex(case['intact'])
        inner_req, _ = transport_frame(drv, tc, b'\x00')
        print('Rmcp.send_and_receive_raw netFn %02xh cmd %02xh lun %d, %s; max_retries 0; ONE datagram arrives:' % (
            tc['netfn'], tc['cmd'], tc['lun'], 'not bridged' if tc['depth'] == 0 else 'routing %s' % ROUTES[tc['depth']]))
        print('  frame  %s%s' % (case['frame'], '' if frame == intact else '   (intact: %s)' % case['intact']))
        print('  sums   %s (header, rest; both must be 0 for the frame to count)' % drv.ask('sums ' + case['frame']))
        print('  code : %s' % real_transport(tc, frame))
        judge_transport_frame(c2, drv, tc, inner_req, frame, intact)
    elif case['op'] == 'filter':
        req, fl, frame = tuple(case['req']), case['flags'], lean.unhex(case['frame'])
        header = _mk_header(req) if case.get('same_header') else None
        before = case.get('before') or []
        if before:
            print('frames that went through rx_filter before, in this order%s:' % (
                ' (same request-header object)' if header is not None else ''))
        for r, f, fx in before:
            out = real_filter(tuple(r), f, lean.unhex(fx), header if tuple(r) == req else None)
            print('  rx_filter(%s, %s, flags %s) -> %s' % (list(r), fx, f, out))
        print('rx_filter(%s, %s, flags %s)' % (dict(zip(FIELDS, req)), case['frame'], dict(zip(FLAGS, fl))))
        real = real_filter(req, fl, frame, header)
        print('  code : %s' % real)
        print('  spec : isReplyTo = %s' % drv.ask('isreply %s %s %s' % (hs(req), fl, lean.hexs(frame))))
        if case.get('kind') == 'corruption':
            print('  (one byte of the accepted reply %s was altered)' % case.get('intact'))
            return real != 'ok 0'
        # judge the observation just made (a second call would have a different history)
        c2.violations = []
        _judge_filter_outcome(c2, drv, case, real, frame, case.get('kind', ''),
                              drv.ask('isreply %s %s %s' % (hs(req), fl, lean.hexs(frame))))
    for x in c2.violations:
        print('  ' + x['what'])
    return bool(c2.violations)
